//! rrfacts: rustc_private driver that dumps type-checked MIR facts of selected crates as JSON.
//!
//! Used as RUSTC_WORKSPACE_WRAPPER (argv[1] is the real rustc path and is dropped).
//! Environment:
//!   RRFACTS_OUT     directory the fact files are written to (required for dumping)
//!   RRFACTS_CRATES  comma separated crate names to dump (default: rustradio)
//! One file per rustc process: <crate>.<lib|test|bin>.<pid>.json, written with one write.
#![feature(rustc_private)]
#![allow(clippy::all)]

extern crate rustc_abi;
extern crate rustc_data_structures;
extern crate rustc_driver;
extern crate rustc_hir;
extern crate rustc_interface;
extern crate rustc_middle;
extern crate rustc_session;
extern crate rustc_span;

mod json;
use json::J;

use rustc_driver::{Callbacks, Compilation};
use rustc_hir::def::DefKind;
use rustc_hir::def_id::{DefId, LOCAL_CRATE};
use rustc_interface::interface::Compiler;
use rustc_middle::mir::{
    AggregateKind, AssertKind, BasicBlock, Body, BorrowKind, Const, Operand, Place, PlaceElem,
    Rvalue, StatementKind, TerminatorKind, UnwindAction, VarDebugInfoContents,
};
use rustc_middle::ty::print::with_no_trimmed_paths;
use rustc_middle::ty::{self, GenericArgKind, GenericArgsRef, Instance, Ty, TyCtxt, TypingEnv};
use rustc_span::Span;

struct Cb;

impl Callbacks for Cb {
    fn after_analysis<'tcx>(&mut self, _c: &Compiler, tcx: TyCtxt<'tcx>) -> Compilation {
        let out = match std::env::var("RRFACTS_OUT") {
            Ok(o) => o,
            Err(_) => return Compilation::Continue,
        };
        let crates = std::env::var("RRFACTS_CRATES").unwrap_or_else(|_| "rustradio".to_string());
        let name = tcx.crate_name(LOCAL_CRATE).to_string();
        if !crates.split(',').any(|c| c == name) {
            return Compilation::Continue;
        }
        let is_test = tcx.sess.opts.test;
        let kind = if is_test {
            "test"
        } else if tcx
            .crate_types()
            .iter()
            .any(|t| matches!(t, rustc_session::config::CrateType::Executable))
        {
            "bin"
        } else {
            "lib"
        };
        let j = with_no_trimmed_paths!(dump_crate(tcx, &name, kind));
        let mut s = String::with_capacity(64 << 20);
        j.write(&mut s);
        let path = format!("{}/{}.{}.{}.json", out, name, kind, std::process::id());
        let tmp = format!("{}.tmp", path);
        std::fs::write(&tmp, s).expect("rrfacts: cannot write fact file");
        std::fs::rename(&tmp, &path).expect("rrfacts: cannot rename fact file");
        Compilation::Continue
    }
}

fn main() {
    let mut args: Vec<String> = std::env::args().collect();
    // Wrapper mode: argv[1] is the path of the real rustc.
    if args.len() > 1 && (args[1].ends_with("rustc") || args[1].contains("/rustc")) {
        args.remove(1);
    }
    rustc_driver::run_compiler(&args, &mut Cb);
}

// ---------------------------------------------------------------------------------------

struct Cx<'tcx> {
    tcx: TyCtxt<'tcx>,
    in_promoted: std::cell::Cell<bool>,
}

fn dump_crate<'tcx>(tcx: TyCtxt<'tcx>, name: &str, kind: &str) -> J {
    let cx = Cx { tcx, in_promoted: std::cell::Cell::new(false) };
    let mut bodies = Vec::new();
    for &ldid in tcx.mir_keys(()).iter() {
        let did = ldid.to_def_id();
        let dk = tcx.def_kind(did);
        if !matches!(dk, DefKind::Fn | DefKind::AssocFn | DefKind::Closure) {
            continue;
        }
        if !tcx.is_mir_available(did) {
            continue;
        }
        let body = tcx.optimized_mir(did);
        bodies.push(cx.body(did, body));
    }
    let mut adts = Vec::new();
    let mut impls = Vec::new();
    let mut fns = Vec::new();
    let mut statics = Vec::new();
    for ldid in tcx.hir_crate_items(()).definitions() {
        let did = ldid.to_def_id();
        match tcx.def_kind(did) {
            DefKind::Struct | DefKind::Enum | DefKind::Union => adts.push(cx.adt(did)),
            DefKind::Impl { .. } => impls.push(cx.impl_(did)),
            DefKind::Fn | DefKind::AssocFn => fns.push(cx.fn_item(did)),
            DefKind::Static { .. } => {
                let ty = tcx.type_of(did).instantiate_identity().skip_norm_wip();
                statics.push(J::Obj(vec![
                    ("path", J::s(tcx.def_path_str(did))),
                    ("ty", cx.ty(ty)),
                ]));
            }
            _ => {}
        }
    }
    J::Obj(vec![
        ("crate", J::s(name)),
        ("kind", J::s(kind)),
        ("test", J::Bool(tcx.sess.opts.test)),
        (
            "debug_assertions",
            J::Bool(tcx.sess.opts.debug_assertions),
        ),
        ("overflow_checks", J::Bool(tcx.sess.overflow_checks())),
        ("bodies", J::Arr(bodies)),
        ("adts", J::Arr(adts)),
        ("impls", J::Arr(impls)),
        ("fns", J::Arr(fns)),
        ("statics", J::Arr(statics)),
    ])
}

impl<'tcx> Cx<'tcx> {
    fn adt_path_of(&self, t: Ty<'tcx>) -> Option<String> {
        let mut t = t;
        loop {
            match t.kind() {
                ty::Ref(_, inner, _) => t = *inner,
                ty::RawPtr(inner, _) => t = *inner,
                _ => break,
            }
        }
        match t.kind() {
            ty::Adt(def, _) => Some(self.tcx.def_path_str(def.did())),
            _ => None,
        }
    }

    fn adts_in(&self, t: Ty<'tcx>) -> Vec<J> {
        let mut v: Vec<String> = Vec::new();
        for ga in t.walk() {
            if let GenericArgKind::Type(t) = ga.kind() {
                match t.kind() {
                    ty::Adt(def, _) => {
                        let p = self.tcx.def_path_str(def.did());
                        if !v.contains(&p) {
                            v.push(p);
                        }
                    }
                    ty::Closure(d, _) => {
                        let p = format!("closure:{}", self.tcx.def_path_str(*d));
                        if !v.contains(&p) {
                            v.push(p);
                        }
                    }
                    ty::Dynamic(preds, ..) => {
                        if let Some(d) = preds.principal_def_id() {
                            let p = format!("dyn:{}", self.tcx.def_path_str(d));
                            if !v.contains(&p) {
                                v.push(p);
                            }
                        }
                    }
                    _ => {}
                }
            }
        }
        v.into_iter().map(J::Str).collect()
    }

    fn ty(&self, t: Ty<'tcx>) -> J {
        J::Obj(vec![
            ("s", J::s(t.to_string())),
            ("adts", J::Arr(self.adts_in(t))),
        ])
    }

    fn krate_of(&self, did: DefId) -> String {
        self.tcx.crate_name(did.krate).to_string()
    }

    /// Structured description of a function-like DefId.
    fn fn_desc(&self, did: DefId, args: Option<GenericArgsRef<'tcx>>) -> Vec<(&'static str, J)> {
        let tcx = self.tcx;
        let path = tcx.def_path_str(did);
        let name = tcx.opt_item_name(did).map(|s| s.to_string());
        let dk = tcx.def_kind(did);
        let mut kind = "free";
        let mut self_ty = J::Null;
        let mut self_adt = J::Null;
        let mut trait_ = J::Null;
        let mut q = path.clone();
        match dk {
            DefKind::Closure => {
                kind = "closure";
            }
            DefKind::Ctor(..) => {
                kind = "ctor";
            }
            DefKind::AssocFn => {
                if let Some(impl_did) = tcx.impl_of_assoc(did) {
                    let st = tcx.type_of(impl_did).instantiate_identity().skip_norm_wip();
                    self_ty = J::s(st.to_string());
                    let adt = self.adt_path_of(st);
                    let n = name.clone().unwrap_or_default();
                    if let Some(tr) = tcx.impl_opt_trait_ref(impl_did) {
                        kind = "traitimpl";
                        let trp = tcx.def_path_str(tr.skip_binder().def_id);
                        q = format!(
                            "<{} as {}>::{}",
                            adt.clone().unwrap_or_else(|| st.to_string()),
                            trp,
                            n
                        );
                        trait_ = J::s(trp);
                    } else {
                        kind = "inherent";
                        q = format!("{}::{}", adt.clone().unwrap_or_else(|| st.to_string()), n);
                    }
                    self_adt = J::opt_s(adt);
                } else if let Some(tr) = tcx.trait_of_assoc(did) {
                    kind = "traitdecl";
                    let trp = tcx.def_path_str(tr);
                    q = format!("{}::{}", trp, name.clone().unwrap_or_default());
                    trait_ = J::s(trp);
                    if let Some(a) = args {
                        if a.len() > 0 {
                            if let Some(t0) = a[0].as_type() {
                                self_ty = J::s(t0.to_string());
                                self_adt = J::opt_s(self.adt_path_of(t0));
                            }
                        }
                    }
                }
            }
            _ => {}
        }
        let mut v = vec![
            ("path", J::s(path)),
            ("q", J::s(q)),
            ("name", J::opt_s(name)),
            ("krate", J::s(self.krate_of(did))),
            ("kind", J::s(kind)),
            ("self_ty", self_ty),
            ("self_adt", self_adt),
            ("trait", trait_),
        ];
        if let Some(a) = args {
            v.push((
                "substs",
                J::Arr(a.iter().map(|g| J::s(g.to_string())).collect()),
            ));
        }
        v
    }

    fn span(&self, sp: Span) -> J {
        let sm = self.tcx.sess.source_map();
        let root = sp.source_callsite();
        let lo = sm.lookup_char_pos(root.lo());
        let hi = sm.lookup_char_pos(root.hi());
        let file = match &lo.file.name {
            rustc_span::FileName::Real(r) => match r.local_path() {
                Some(p) => p.to_string_lossy().to_string(),
                None => format!("{:?}", lo.file.name),
            },
            other => format!("{:?}", other),
        };
        let mut chain: Vec<String> = Vec::new();
        if sp.from_expansion() {
            for ed in sp.macro_backtrace() {
                chain.push(ed.kind.descr());
            }
        }
        let mut v = vec![
            ("f", J::s(file)),
            ("l", J::Int(lo.line as i128)),
            ("c", J::Int(lo.col.0 as i128 + 1)),
            ("l2", J::Int(hi.line as i128)),
        ];
        if !chain.is_empty() {
            v.push(("x", J::Arr(chain.into_iter().map(J::Str).collect())));
            // innermost (un-expanded) position too, when it is a real file: lets rules see
            // where inside a macro definition a node comes from.
            let ilo = sm.lookup_char_pos(sp.lo());
            v.push(("il", J::Int(ilo.line as i128)));
        }
        J::Obj(v)
    }

    fn place(&self, body: &Body<'tcx>, p: Place<'tcx>) -> J {
        let tcx = self.tcx;
        let mut proj = Vec::new();
        let mut pty = rustc_middle::mir::PlaceTy::from_ty(body.local_decls[p.local].ty);
        for elem in p.projection.iter() {
            let j = match elem {
                PlaceElem::Deref => J::s("*"),
                PlaceElem::Field(idx, _fty) => {
                    let mut name = J::Null;
                    let mut owner = J::Null;
                    let mut variant = J::Null;
                    match pty.ty.kind() {
                        ty::Adt(def, _) => {
                            owner = J::s(tcx.def_path_str(def.did()));
                            let vidx = pty.variant_index.unwrap_or(rustc_abi::FIRST_VARIANT);
                            if vidx.as_usize() < def.variants().len() {
                                let var = def.variant(vidx);
                                if def.is_enum() {
                                    variant = J::s(var.name.to_string());
                                }
                                if idx.as_usize() < var.fields.len() {
                                    name = J::s(var.fields[idx].name.to_string());
                                }
                            }
                        }
                        ty::Closure(d, _) => {
                            owner = J::s(format!("closure:{}", tcx.def_path_str(*d)));
                        }
                        _ => {}
                    }
                    J::Obj(vec![
                        ("f", J::Int(idx.as_usize() as i128)),
                        ("n", name),
                        ("o", owner),
                        ("v", variant),
                    ])
                }
                PlaceElem::Index(l) => J::Obj(vec![("ix", J::Int(l.as_usize() as i128))]),
                PlaceElem::ConstantIndex {
                    offset,
                    min_length: _,
                    from_end,
                } => J::Obj(vec![
                    ("ci", J::Int(offset as i128)),
                    ("fe", J::Bool(from_end)),
                ]),
                PlaceElem::Subslice { from, to, from_end } => J::Obj(vec![
                    ("sub", J::Arr(vec![J::Int(from as i128), J::Int(to as i128)])),
                    ("fe", J::Bool(from_end)),
                ]),
                PlaceElem::Downcast(sym, vidx) => J::Obj(vec![
                    ("d", J::opt_s(sym.map(|s| s.to_string()))),
                    ("i", J::Int(vidx.as_usize() as i128)),
                ]),
                PlaceElem::OpaqueCast(_) => J::s("opaque"),
                PlaceElem::UnwrapUnsafeBinder(_) => J::s("unwrap_binder"),
            };
            proj.push(j);
            pty = pty.projection_ty(tcx, elem);
        }
        J::Obj(vec![
            ("l", J::Int(p.local.as_usize() as i128)),
            ("p", J::Arr(proj)),
        ])
    }

    fn konst(&self, body_did: DefId, c: &Const<'tcx>) -> J {
        let tcx = self.tcx;
        let t = c.ty();
        let mut v = vec![("ty", J::s(t.to_string()))];
        if let ty::FnDef(did, args) = t.kind() {
            v.push(("fn", J::Obj(self.callee(body_did, *did, args))));
            return J::Obj(v);
        }
        if t.is_integral() || t.is_bool() || t.is_char() {
            let env = TypingEnv::post_analysis(tcx, body_did);
            let r = std::panic::catch_unwind(std::panic::AssertUnwindSafe(|| {
                c.try_eval_scalar_int(tcx, env)
            }));
            if let Ok(Some(si)) = r {
                let size = si.size();
                let bits = si.to_bits(size);
                if t.is_bool() {
                    v.push(("v", J::Bool(bits != 0)));
                } else if t.is_signed() {
                    let val = size.sign_extend(bits) as i128;
                    v.push(("v", J::Int(val)));
                } else {
                    v.push(("v", J::Int(bits as i128)));
                }
            }
        }
        if let Const::Unevaluated(uv, _) = c {
            if let Some(p) = uv.promoted {
                v.push(("promoted", J::Int(p.as_usize() as i128)));
                v.push(("promoted_in", J::s(tcx.def_path_str(uv.def))));
            }
        }
        v.push(("s", J::s(format!("{}", c))));
        J::Obj(v)
    }

    fn operand(&self, body_did: DefId, body: &Body<'tcx>, op: &Operand<'tcx>) -> J {
        match op {
            Operand::Copy(p) => J::Obj(vec![("c", self.place(body, *p))]),
            Operand::Move(p) => J::Obj(vec![("m", self.place(body, *p))]),
            Operand::Constant(c) => J::Obj(vec![("k", self.konst(body_did, &c.const_))]),
            Operand::RuntimeChecks(rc) => J::Obj(vec![("rc", J::s(format!("{:?}", rc)))]),
        }
    }

    fn callee(
        &self,
        body_did: DefId,
        did: DefId,
        args: GenericArgsRef<'tcx>,
    ) -> Vec<(&'static str, J)> {
        let tcx = self.tcx;
        let mut v = self.fn_desc(did, Some(args));
        // Try to resolve trait methods to the implementing function.
        if matches!(tcx.def_kind(did), DefKind::Fn | DefKind::AssocFn) {
            let env = TypingEnv::post_analysis(tcx, body_did);
            let r = std::panic::catch_unwind(std::panic::AssertUnwindSafe(|| {
                Instance::try_resolve(tcx, env, did, args)
            }));
            if let Ok(Ok(Some(inst))) = r {
                let rdid = inst.def_id();
                if rdid != did {
                    v.push(("resolved", J::Obj(self.fn_desc(rdid, Some(inst.args)))));
                }
                if let ty::InstanceKind::Virtual(..) = inst.def {
                    v.push(("virtual", J::Bool(true)));
                }
            }
        }
        v
    }

    fn rvalue(&self, body_did: DefId, body: &Body<'tcx>, rv: &Rvalue<'tcx>) -> J {
        let tcx = self.tcx;
        match rv {
            Rvalue::Use(op, _) => J::Obj(vec![
                ("k", J::s("use")),
                ("a", self.operand(body_did, body, op)),
            ]),
            Rvalue::Repeat(op, n) => J::Obj(vec![
                ("k", J::s("repeat")),
                ("a", self.operand(body_did, body, op)),
                ("n", J::s(n.to_string())),
            ]),
            Rvalue::Ref(_, bk, p) => J::Obj(vec![
                ("k", J::s("ref")),
                ("mut", J::Bool(matches!(bk, BorrowKind::Mut { .. }))),
                ("p", self.place(body, *p)),
            ]),
            Rvalue::RawPtr(k, p) => J::Obj(vec![
                ("k", J::s("rawptr")),
                ("mut", J::Bool(format!("{:?}", k).contains("Mut"))),
                ("p", self.place(body, *p)),
            ]),
            Rvalue::Cast(ck, op, t) => J::Obj(vec![
                ("k", J::s("cast")),
                ("ck", J::s(format!("{:?}", ck))),
                ("a", self.operand(body_did, body, op)),
                ("ty", J::s(t.to_string())),
            ]),
            Rvalue::BinaryOp(op, ab) => J::Obj(vec![
                ("k", J::s("bin")),
                ("op", J::s(format!("{:?}", op))),
                ("a", self.operand(body_did, body, &ab.0)),
                ("b", self.operand(body_did, body, &ab.1)),
            ]),
            Rvalue::UnaryOp(op, a) => J::Obj(vec![
                ("k", J::s("un")),
                ("op", J::s(format!("{:?}", op))),
                ("a", self.operand(body_did, body, a)),
            ]),
            Rvalue::Discriminant(p) => J::Obj(vec![
                ("k", J::s("discr")),
                ("p", self.place(body, *p)),
            ]),
            Rvalue::Aggregate(ak, ops) => {
                let mut v = vec![("k", J::s("agg"))];
                match &**ak {
                    AggregateKind::Array(_) => v.push(("ak", J::s("array"))),
                    AggregateKind::Tuple => v.push(("ak", J::s("tuple"))),
                    AggregateKind::Adt(did, vidx, _, _, _) => {
                        v.push(("ak", J::s("adt")));
                        v.push(("adt", J::s(tcx.def_path_str(*did))));
                        let def = tcx.adt_def(*did);
                        let var = def.variant(*vidx);
                        v.push(("variant", J::s(var.name.to_string())));
                        v.push(("vi", J::Int(vidx.as_usize() as i128)));
                        v.push((
                            "fields",
                            J::Arr(var.fields.iter().map(|f| J::s(f.name.to_string())).collect()),
                        ));
                    }
                    AggregateKind::Closure(did, _) => {
                        v.push(("ak", J::s("closure")));
                        v.push(("closure", J::s(tcx.def_path_str(*did))));
                    }
                    AggregateKind::RawPtr(..) => v.push(("ak", J::s("rawptr"))),
                    _ => v.push(("ak", J::s("other"))),
                }
                v.push((
                    "ops",
                    J::Arr(ops.iter().map(|o| self.operand(body_did, body, o)).collect()),
                ));
                J::Obj(v)
            }
            Rvalue::CopyForDeref(p) => J::Obj(vec![
                ("k", J::s("use")),
                ("a", J::Obj(vec![("c", self.place(body, *p))])),
            ]),
            other => J::Obj(vec![("k", J::s("other")), ("s", J::s(format!("{:?}", other)))]),
        }
    }

    fn bb(b: BasicBlock) -> J {
        J::Int(b.as_usize() as i128)
    }
    fn unwind(u: &UnwindAction) -> J {
        match u {
            UnwindAction::Cleanup(b) => Self::bb(*b),
            _ => J::Null,
        }
    }

    fn body(&self, did: DefId, body: &Body<'tcx>) -> J {
        let tcx = self.tcx;
        let mut v = self.fn_desc(did, None);
        let root = tcx.typeck_root_def_id(did);
        if root != did {
            v.push(("parent", J::Obj(self.fn_desc(root, None))));
        }
        v.push(("span", self.span(body.span)));
        v.push(("argc", J::Int(body.arg_count as i128)));
        if matches!(tcx.def_kind(did), DefKind::Fn | DefKind::AssocFn) {
            v.push(("vis", J::s(format!("{:?}", tcx.visibility(did)))));
            v.push((
                "unsafe",
                J::Bool(tcx.fn_sig(did).skip_binder().safety().is_unsafe()),
            ));
        }
        // locals
        let mut locals = Vec::new();
        for (_l, decl) in body.local_decls.iter_enumerated() {
            locals.push(J::Obj(vec![
                ("ty", J::s(decl.ty.to_string())),
                ("adts", J::Arr(self.adts_in(decl.ty))),
                ("mut", J::Bool(decl.mutability.is_mut())),
            ]));
        }
        v.push(("locals", J::Arr(locals)));
        // closure upvars
        if let ty::Closure(_, cargs) = body.local_decls[rustc_middle::mir::Local::from_usize(1)
            .min(rustc_middle::mir::Local::from_usize(body.local_decls.len() - 1))]
        .ty
        .peel_refs()
        .kind()
        {
            if tcx.def_kind(did) == DefKind::Closure {
                let ups: Vec<J> = cargs
                    .as_closure()
                    .upvar_tys()
                    .iter()
                    .map(|t| self.ty(t))
                    .collect();
                v.push(("upvars", J::Arr(ups)));
            }
        }
        // debug names
        let mut dbg = Vec::new();
        for vdi in body.var_debug_info.iter() {
            if let VarDebugInfoContents::Place(p) = vdi.value {
                dbg.push(J::Obj(vec![
                    ("name", J::s(vdi.name.to_string())),
                    ("place", self.place(body, p)),
                ]));
            }
        }
        v.push(("vars", J::Arr(dbg)));
        // promoted constants of this body: the assignments of their (straight-line) bodies
        if matches!(tcx.def_kind(did), DefKind::Fn | DefKind::AssocFn | DefKind::Closure) && !self.in_promoted.get() {
            self.in_promoted.set(true);
            let proms = tcx.promoted_mir(did);
            let mut pv = Vec::new();
            for (_pi, pb) in proms.iter_enumerated() {
                let mut stmts = Vec::new();
                for (_bb, data) in pb.basic_blocks.iter_enumerated() {
                    for st in data.statements.iter() {
                        if let StatementKind::Assign(b) = &st.kind {
                            let (pl, rv) = &**b;
                            stmts.push(J::Obj(vec![
                                ("dst", self.place(pb, *pl)),
                                ("rv", self.rvalue(did, pb, rv)),
                            ]));
                        }
                    }
                }
                pv.push(J::Arr(stmts));
            }
            v.push(("promoted", J::Arr(pv)));
            self.in_promoted.set(false);
        }
        // blocks
        let mut blocks = Vec::new();
        for (_bb, data) in body.basic_blocks.iter_enumerated() {
            let mut stmts = Vec::new();
            for st in data.statements.iter() {
                match &st.kind {
                    StatementKind::Assign(b) => {
                        let (p, rv) = &**b;
                        stmts.push(J::Obj(vec![
                            ("k", J::s("assign")),
                            ("dst", self.place(body, *p)),
                            ("rv", self.rvalue(did, body, rv)),
                            ("sp", self.span(st.source_info.span)),
                        ]));
                    }
                    StatementKind::SetDiscriminant {
                        place,
                        variant_index,
                    } => {
                        stmts.push(J::Obj(vec![
                            ("k", J::s("setdiscr")),
                            ("dst", self.place(body, **place)),
                            ("vi", J::Int(variant_index.as_usize() as i128)),
                            ("sp", self.span(st.source_info.span)),
                        ]));
                    }
                    StatementKind::Intrinsic(i) => {
                        stmts.push(J::Obj(vec![
                            ("k", J::s("intrinsic")),
                            ("s", J::s(format!("{:?}", i))),
                            ("sp", self.span(st.source_info.span)),
                        ]));
                    }
                    _ => {}
                }
            }
            let term = data.terminator();
            let sp = self.span(term.source_info.span);
            let t = match &term.kind {
                TerminatorKind::Goto { target } => {
                    J::Obj(vec![("k", J::s("goto")), ("t", Self::bb(*target))])
                }
                TerminatorKind::SwitchInt { discr, targets } => {
                    let mut ts = Vec::new();
                    for (val, bb) in targets.iter() {
                        ts.push(J::Arr(vec![J::Int(val as i128), Self::bb(bb)]));
                    }
                    J::Obj(vec![
                        ("k", J::s("switch")),
                        ("d", self.operand(did, body, discr)),
                        ("dty", J::s(discr.ty(&body.local_decls, tcx).to_string())),
                        ("targets", J::Arr(ts)),
                        ("else", Self::bb(targets.otherwise())),
                        ("sp", sp),
                    ])
                }
                TerminatorKind::Call {
                    func,
                    args,
                    destination,
                    target,
                    unwind,
                    ..
                } => {
                    let f = match func {
                        Operand::Constant(c) => match c.const_.ty().kind() {
                            ty::FnDef(fd, fargs) => J::Obj(self.callee(did, *fd, fargs)),
                            _ => J::Obj(vec![("op", self.operand(did, body, func))]),
                        },
                        _ => J::Obj(vec![
                            ("op", self.operand(did, body, func)),
                            ("opty", J::s(func.ty(&body.local_decls, tcx).to_string())),
                        ]),
                    };
                    J::Obj(vec![
                        ("k", J::s("call")),
                        ("f", f),
                        (
                            "args",
                            J::Arr(
                                args.iter()
                                    .map(|a| self.operand(did, body, &a.node))
                                    .collect(),
                            ),
                        ),
                        (
                            "argtys",
                            J::Arr(
                                args.iter()
                                    .map(|a| J::s(a.node.ty(&body.local_decls, tcx).to_string()))
                                    .collect(),
                            ),
                        ),
                        ("dst", self.place(body, *destination)),
                        (
                            "t",
                            match target {
                                Some(b) => Self::bb(*b),
                                None => J::Null,
                            },
                        ),
                        ("u", Self::unwind(unwind)),
                        ("sp", sp),
                    ])
                }
                TerminatorKind::Assert {
                    cond,
                    expected,
                    msg,
                    target,
                    unwind,
                } => {
                    let m = match &**msg {
                        AssertKind::BoundsCheck { len, index } => J::Obj(vec![
                            ("kind", J::s("BoundsCheck")),
                            ("a", self.operand(did, body, len)),
                            ("b", self.operand(did, body, index)),
                        ]),
                        AssertKind::Overflow(op, a, b) => J::Obj(vec![
                            ("kind", J::s("Overflow")),
                            ("op", J::s(format!("{:?}", op))),
                            ("a", self.operand(did, body, a)),
                            ("b", self.operand(did, body, b)),
                        ]),
                        AssertKind::OverflowNeg(a) => J::Obj(vec![
                            ("kind", J::s("OverflowNeg")),
                            ("a", self.operand(did, body, a)),
                        ]),
                        AssertKind::DivisionByZero(a) => J::Obj(vec![
                            ("kind", J::s("DivisionByZero")),
                            ("a", self.operand(did, body, a)),
                        ]),
                        AssertKind::RemainderByZero(a) => J::Obj(vec![
                            ("kind", J::s("RemainderByZero")),
                            ("a", self.operand(did, body, a)),
                        ]),
                        other => J::Obj(vec![("kind", J::s(format!("{:?}", other)
                            .split(|c: char| !c.is_alphanumeric())
                            .next()
                            .unwrap_or("Other")
                            .to_string()))]),
                    };
                    J::Obj(vec![
                        ("k", J::s("assert")),
                        ("cond", self.operand(did, body, cond)),
                        ("exp", J::Bool(*expected)),
                        ("msg", m),
                        ("t", Self::bb(*target)),
                        ("u", Self::unwind(unwind)),
                        ("sp", sp),
                    ])
                }
                TerminatorKind::Drop {
                    place,
                    target,
                    unwind,
                    ..
                } => J::Obj(vec![
                    ("k", J::s("drop")),
                    ("p", self.place(body, *place)),
                    ("pty", J::s(place.ty(&body.local_decls, tcx).ty.to_string())),
                    ("t", Self::bb(*target)),
                    ("u", Self::unwind(unwind)),
                    ("sp", sp),
                ]),
                TerminatorKind::Return => J::Obj(vec![("k", J::s("return")), ("sp", sp)]),
                TerminatorKind::Unreachable => J::Obj(vec![("k", J::s("unreachable"))]),
                TerminatorKind::UnwindResume => J::Obj(vec![("k", J::s("resume"))]),
                TerminatorKind::UnwindTerminate(_) => J::Obj(vec![("k", J::s("terminate"))]),
                TerminatorKind::FalseEdge { real_target, .. } => {
                    J::Obj(vec![("k", J::s("goto")), ("t", Self::bb(*real_target))])
                }
                TerminatorKind::FalseUnwind { real_target, .. } => {
                    J::Obj(vec![("k", J::s("goto")), ("t", Self::bb(*real_target))])
                }
                other => J::Obj(vec![
                    ("k", J::s("other")),
                    ("s", J::s(format!("{:?}", other))),
                ]),
            };
            blocks.push(J::Obj(vec![
                ("cleanup", J::Bool(data.is_cleanup)),
                ("stmts", J::Arr(stmts)),
                ("term", t),
            ]));
        }
        v.push(("blocks", J::Arr(blocks)));
        J::Obj(v)
    }

    fn rr_attrs(&self, did: DefId) -> J {
        let mut out: Vec<J> = Vec::new();
        #[allow(deprecated)]
        for a in self.tcx.get_all_attrs(did).iter() {
            let path: Vec<String> = a.path().iter().map(|s| s.to_string()).collect();
            if path.len() == 1 && path[0] == "rustradio" {
                if let Some(list) = a.meta_item_list() {
                    for it in list.iter() {
                        if let Some(n) = it.name() {
                            out.push(J::s(n.to_string()));
                        }
                    }
                }
            } else if std::env::var("RRFACTS_DEBUG_ATTRS").is_ok() {
                out.push(J::s(format!("other:{}", path.join("::"))));
            }
        }
        J::Arr(out)
    }

    fn adt(&self, did: DefId) -> J {
        let tcx = self.tcx;
        let def = tcx.adt_def(did);
        let mut variants = Vec::new();
        for var in def.variants().iter() {
            let mut fields = Vec::new();
            for f in var.fields.iter() {
                let fty = tcx.type_of(f.did).instantiate_identity().skip_norm_wip();
                fields.push(J::Obj(vec![
                    ("name", J::s(f.name.to_string())),
                    ("ty", self.ty(fty)),
                    ("vis", J::s(format!("{:?}", f.vis))),
                    ("rr", self.rr_attrs(f.did)),
                ]));
            }
            variants.push(J::Obj(vec![
                ("name", J::s(var.name.to_string())),
                ("fields", J::Arr(fields)),
            ]));
        }
        J::Obj(vec![
            ("path", J::s(tcx.def_path_str(did))),
            (
                "kind",
                J::s(if def.is_enum() {
                    "enum"
                } else if def.is_union() {
                    "union"
                } else {
                    "struct"
                }),
            ),
            ("vis", J::s(format!("{:?}", tcx.visibility(did)))),
            ("span", self.span(tcx.def_span(did))),
            ("rr", self.rr_attrs(did)),
            ("src", J::opt_s(did.as_local().and_then(|l| {
                let sp = tcx.source_span(l);
                tcx.sess.source_map().span_to_snippet(sp).ok()
            }))),
            ("pre", J::opt_s(did.as_local().and_then(|l| {
                let sp = tcx.source_span(l);
                let sm = tcx.sess.source_map();
                let lo = sm.lookup_char_pos(sp.lo());
                let mut lines: Vec<String> = Vec::new();
                let first = lo.line.saturating_sub(16);
                for ln in first..lo.line.saturating_sub(1) {
                    if let Some(t) = lo.file.get_line(ln) {
                        lines.push(t.to_string());
                    }
                }
                Some(lines.join("\n"))
            }))),
            ("variants", J::Arr(variants)),
        ])
    }

    fn impl_(&self, did: DefId) -> J {
        let tcx = self.tcx;
        let st = tcx.type_of(did).instantiate_identity().skip_norm_wip();
        let mut v = vec![
            ("self_ty", J::s(st.to_string())),
            ("self_adt", J::opt_s(self.adt_path_of(st))),
            ("span", self.span(tcx.def_span(did))),
            ("derived", J::Bool(tcx.is_automatically_derived(did))),
        ];
        if tcx.impl_is_of_trait(did) {
            let h = tcx.impl_trait_header(did);
            v.push((
                "trait",
                J::s(tcx.def_path_str(h.trait_ref.skip_binder().def_id)),
            ));
            v.push(("unsafe", J::Bool(h.safety.is_unsafe())));
            v.push(("polarity", J::s(format!("{:?}", h.polarity))));
        } else {
            v.push(("trait", J::Null));
        }
        let items: Vec<J> = tcx
            .associated_item_def_ids(did)
            .iter()
            .map(|d| J::s(tcx.def_path_str(*d)))
            .collect();
        v.push(("items", J::Arr(items)));
        J::Obj(v)
    }

    fn fn_item(&self, did: DefId) -> J {
        let tcx = self.tcx;
        let mut v = self.fn_desc(did, None);
        v.push(("vis", J::s(format!("{:?}", tcx.visibility(did)))));
        let sig = tcx.fn_sig(did).skip_binder().skip_binder();
        v.push((
            "inputs",
            J::Arr(sig.inputs().iter().map(|t| self.ty(*t)).collect()),
        ));
        v.push(("output", self.ty(sig.output())));
        v.push(("span", self.span(tcx.def_span(did))));
        J::Obj(v)
    }
}
