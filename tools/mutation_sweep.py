#!/usr/bin/env python3
"""tools/mutation_sweep.py [--jobs N] [--limit K] [--files f1,f2] [--out sweep.json]

Systematic both-ways test of the checks (complements the hand-written mutants and the agent-seeded changes):
generate small syntactic mutants of the property-anchored source files, keep those that still COMPILE and PASS the
repository's 73 unit tests (the interesting ones: the tests cannot tell them from the original), and run every claimed
check on each survivor.  Output: for each test-surviving mutant whether a check fires (and which rule).  Undetected
survivors are a worklist for triage: equivalent / benign / outside every property / a real blind spot.

This tool RUNS cargo test - it is test infrastructure for the checker, not part of any check (the checks themselves
never execute the code under analysis).  Scratch copies live under /tmp and are removed; build dirs are under
/verif/.cache/target-sweep-N.
"""
import concurrent.futures
import hashlib
import json
import os
import queue
import re
import shutil
import subprocess
import sys
import tempfile
import time

VERIF = os.path.dirname(os.path.dirname(os.path.abspath(__file__)))
REPO = "/repo"
PROPS = ["C01", "C02", "C03", "C04", "C05", "C06", "C07", "C08", "C09", "C12", "C13", "C14", "C15", "C16", "C17", "C18", "C19"]

DEFAULT_FILES = [
    "src/circular_buffer.rs", "src/stream.rs", "src/graph.rs", "src/mtgraph.rs", "src/block.rs", "rustradio_macros/src/lib.rs",
    "src/file_source.rs", "src/file_sink.rs", "src/tcp_source.rs", "src/vector_source.rs", "src/vector_sink.rs", "src/delay.rs",
    "src/skip.rs", "src/hdlc_deframer.rs", "src/au.rs", "src/stream_to_pdu.rs", "src/vec_to_stream.rs", "src/rtlsdr_decode.rs",
    "src/burst_tagger.rs", "src/correlate_access_code.rs", "src/tee.rs", "src/null_sink.rs", "src/pdu_writer.rs", "src/to_text.rs",
    "src/descrambler.rs", "src/fft_stream.rs", "src/il2p_deframer.rs", "src/sigmf.rs", "src/fir.rs", "src/hilbert.rs",
    "src/fft_filter.rs", "src/lib.rs", "src/wpcr.rs", "src/zero_crossing.rs", "src/rational_resampler.rs", "src/symbol_sync.rs",
]

REL = [(r"(?<![<>=!\-])<(?![<=])", "<="), (r"<=", "<"), (r"(?<![<>=!\-])>(?![>=])", ">="), (r">=", ">"), (r"==", "!="), (r"!=", "==")]
LOGIC = [(r"&&", "||"), (r"\|\|", "&&")]
ARITH = [(r" \+ 1\b", ""), (r" - 1\b", ""), (r" \+ 1\b", " + 2"), (r" \+ ", " - "), (r" - ", " + "), (r" % ", " / "), (r" / ", " * ")]
CONSTS = [(r"\b0\b", "1"), (r"\b1\b", "0"), (r"\b1\b", "2"), (r"\b2\b", "1")]
MINMAX = [(r"\bmin\(", "max("), (r"\bmax\(", "min("), (r"\.min\(", ".max("), (r"saturating_sub", "wrapping_sub")]
VERDICT = [("BlockRet::Again", "BlockRet::Pending"), ("BlockRet::Pending", "BlockRet::Again"), ("BlockRet::EOF", "BlockRet::Again")]
BOOLS = [(r"\btrue\b", "false"), (r"\bfalse\b", "true")]


def code_region(lines):
    """indices of lines before the first #[cfg(test)] that are code (not comments / docs / attributes / log macros)"""
    out = []
    in_block = False
    for i, l in enumerate(lines):
        s = l.strip()
        if in_block:
            if "*/" in s:
                in_block = False
            continue
        if s.startswith("/*") and "*/" not in s:
            in_block = True
            continue
        if s.startswith("#[cfg(test)]"):
            break
        if not s or s.startswith("//") or s.startswith("#[") or s.startswith("#!") or s.startswith("use ") or s.startswith("*") or s.startswith("/*"):
            continue
        if re.match(r"(debug|trace|warn|info|error|eprintln|println)!", s):
            continue
        out.append(i)
    return out


def strip_comment(l):
    i = l.find("//")
    return (l[:i], l[i:]) if i >= 0 else (l, "")


def gen_mutants(relpath, text):
    lines = text.split("\n")
    muts = []
    in_macro_tokens = relpath.endswith("rustradio_macros/src/lib.rs")
    for i in code_region(lines):
        code, cmt = strip_comment(lines[i])
        if '"' in code and not in_macro_tokens:
            # do not mutate inside string literals: only the part before the first quote
            head = code[:code.index('"')]
            tail = code[code.index('"'):]
        else:
            head, tail = code, ""
        for group, ops in (("rel", REL), ("logic", LOGIC), ("arith", ARITH), ("const", CONSTS), ("minmax", MINMAX), ("bool", BOOLS)):
            for pat, rep in ops:
                for m in re.finditer(pat, head):
                    # skip generics / arrows / lifetimes / attributes
                    ctx = head[max(0, m.start() - 2):m.end() + 2]
                    if group == "rel" and ("->" in ctx or "=>" in ctx or "::<" in head[max(0, m.start() - 3):m.end()]):
                        continue
                    if group == "rel" and re.search(r"(Vec|Option|Result|Arc|Mutex|Box|impl|fn |struct |Stream|PhantomData|HashMap|BTreeMap|dyn )", head) \
                            and m.group(0) in ("<", ">"):
                        continue
                    new = head[:m.start()] + rep + head[m.end():]
                    nl = new + tail + cmt
                    muts.append(dict(file=relpath, line=i + 1, op="%s:%s->%s" % (group, m.group(0).strip(), rep.strip() or "(del)"),
                                     old=lines[i], new=nl))
        for a, b in VERDICT:
            if a in head:
                muts.append(dict(file=relpath, line=i + 1, op="verdict:%s->%s" % (a, b), old=lines[i], new=head.replace(a, b, 1) + tail + cmt))
        s = code.strip()
        # statement deletion: a single-line call statement
        if re.match(r"^[A-Za-z_][\w\.\[\]\(\)&\*:<>, ]*\(.*\);$", s) and not s.startswith(("let ", "return", "assert", "debug_assert")):
            muts.append(dict(file=relpath, line=i + 1, op="delete-stmt", old=lines[i], new=re.sub(r"\S.*$", "();", lines[i])))
        if re.match(r"^(assert|assert_eq|assert_ne)!\(.*\);$", s):
            muts.append(dict(file=relpath, line=i + 1, op="delete-assert", old=lines[i], new=re.sub(r"\S.*$", "();", lines[i])))
        m = re.match(r"^(\s*)(\} else )?if (?!let )(.*) \{$", code)
        if m and "=>" not in code:
            muts.append(dict(file=relpath, line=i + 1, op="negate-if", old=lines[i],
                             new="%s%sif !(%s) {" % (m.group(1), m.group(2) or "", m.group(3)) + cmt))
    # dedupe
    seen = set()
    out = []
    for mu in muts:
        k = (mu["file"], mu["line"], mu["new"])
        if k in seen or mu["new"] == mu["old"]:
            continue
        seen.add(k)
        mu["id"] = hashlib.sha1(("%s:%d:%s" % k).encode()).hexdigest()[:10]
        out.append(mu)
    return out


def make_scratch():
    d = tempfile.mkdtemp(prefix="rr-sweep-")
    for item in ("src", "rustradio_macros", "Cargo.toml", "Cargo.lock", "examples", "benches", "tests", "testdata", "extra", "README.md", "doc"):
        s = os.path.join(REPO, item)
        if os.path.isdir(s):
            shutil.copytree(s, os.path.join(d, item), ignore=shutil.ignore_patterns("target"))
        elif os.path.exists(s):
            shutil.copy(s, os.path.join(d, item))
    return d


def run_tests(scratch, w):
    env = dict(os.environ, CARGO_NET_OFFLINE="true", CARGO_TARGET_DIR=os.path.join(VERIF, ".cache", "target-sweep-%d" % w), RUSTFLAGS="-Awarnings")
    try:
        b = subprocess.run(["cargo", "test", "--offline", "--lib", "--no-run", "-q"], cwd=scratch, env=env, stdout=subprocess.PIPE,
                           stderr=subprocess.STDOUT, text=True, timeout=600)
    except subprocess.TimeoutExpired:
        return "build-timeout"
    if b.returncode != 0:
        return "no-compile"
    # own process group: on a timeout the test binary (a grandchild) must die too, or it spins for ever
    import signal
    p = subprocess.Popen(["cargo", "test", "--offline", "--lib", "-q"], cwd=scratch, env=env, stdout=subprocess.PIPE,
                         stderr=subprocess.STDOUT, text=True, start_new_session=True)
    try:
        p.communicate(timeout=180)
    except subprocess.TimeoutExpired:
        try:
            os.killpg(p.pid, signal.SIGKILL)
        except OSError:
            pass
        p.wait()
        return "test-timeout"
    return "tests-pass" if p.returncode == 0 else "tests-fail"


def props_for(relpath):
    """the checks whose rules look at this file (a recheck runs only those)"""
    b = os.path.basename(relpath)
    if relpath.startswith("rustradio_macros"):
        return ["C04", "C05", "C08", "C09", "C12", "C15", "C19"]
    table = {
        "circular_buffer.rs": ["C01", "C02", "C03", "C04", "C09", "C12", "C18"],
        "stream.rs": ["C03", "C04", "C05", "C09"],
        "graph.rs": ["C04", "C05", "C06", "C07"], "mtgraph.rs": ["C04", "C05", "C06", "C07"],
        "file_sink.rs": ["C08", "C09", "C13", "C17"],
        "file_source.rs": ["C08", "C09", "C14", "C15", "C16"], "tcp_source.rs": ["C08", "C09", "C14", "C15", "C16"],
        "sigmf.rs": ["C08", "C09", "C14", "C15", "C16"], "vector_source.rs": ["C08", "C09", "C12", "C15", "C16"],
        "lib.rs": ["C09", "C14", "C15", "C16"], "au.rs": ["C08", "C09", "C14", "C15"],
        "hdlc_deframer.rs": ["C08", "C09", "C13", "C15"],
    }
    return table.get(b, ["C05", "C06", "C08", "C09", "C12", "C15"])


def run_checks(scratch, w, relpath=None):
    fired = []
    env = dict(os.environ, RR_REPO=scratch, RR_TARGET_SUFFIX="-sw%d" % w, RR_EVIDENCE_DIR=os.path.join(scratch, "_evidence"),
               RR_REPORT_DIR=os.path.join(scratch, "_reports"))
    for p in (props_for(relpath) if relpath else PROPS):
        r = subprocess.run([os.path.join(VERIF, "check"), p], env=env, stdout=subprocess.PIPE, stderr=subprocess.STDOUT, text=True)
        for k in re.findall(r"^  rule=\S+ key=(.*)$", r.stdout, re.M):
            fired.append(k[:160])
    return fired


def worker(w, q, results, total):
    scratch = make_scratch()
    try:
        while True:
            try:
                mu = q.get_nowait()
            except queue.Empty:
                return
            p = os.path.join(scratch, mu["file"])
            orig = open(p).read()
            lines = orig.split("\n")
            if mu["line"] - 1 >= len(lines) or lines[mu["line"] - 1] != mu["old"]:
                if mu.get("recheck") and mu.get("_prev") is not None:
                    results.append(mu["_prev"])       # the file changed under this mutant (a later fix): keep its earlier record
                else:
                    mu["status"] = "stale"
                    results.append(mu)
                continue
            lines[mu["line"] - 1] = mu["new"]
            open(p, "w").write("\n".join(lines))
            t0 = time.time()
            try:
                st = mu["status"] if mu.get("recheck") else run_tests(scratch, w)
                mu["status"] = st
                if st in ("tests-pass", "test-timeout"):
                    fired = run_checks(scratch, w, mu["file"] if mu.get("recheck") else None)
                    mu["fired"] = fired
                    mu["internal"] = [k for k in fired if k.startswith(("internal", "extract"))]
            finally:
                open(p, "w").write(orig)
            mu["secs"] = round(time.time() - t0, 1)
            mu.pop("_prev", None)
            results.append(mu)
            print("[%d/%d] %-26s:%-4d %-28s %-12s %s" % (len(results), total, mu["file"][-26:], mu["line"], mu["op"][:28], mu["status"],
                                                         (mu.get("fired") or [""])[0][:70] if "fired" in mu else ""), flush=True)
    finally:
        shutil.rmtree(scratch, ignore_errors=True)


def main(argv):
    jobs, limit, files, out, stride, offset = 6, None, DEFAULT_FILES, os.path.join(VERIF, "sweep", "sweep.json"), 1, 0
    ops = None
    recheck = False
    only_silent = False
    i = 0
    while i < len(argv):
        a = argv[i]
        if a == "--jobs":
            jobs = int(argv[i + 1]); i += 2
        elif a == "--limit":
            limit = int(argv[i + 1]); i += 2
        elif a == "--files":
            files = argv[i + 1].split(","); i += 2
        elif a == "--out":
            out = argv[i + 1]; i += 2
        elif a == "--stride":
            stride = int(argv[i + 1]); i += 2
        elif a == "--offset":
            offset = int(argv[i + 1]); i += 2
        elif a == "--recheck":
            recheck = True; i += 1
        elif a == "--only-silent":
            only_silent = True; i += 1
        elif a == "--ops":
            ops = argv[i + 1].split(","); i += 2
        elif a == "--list":
            n = 0
            for f in files:
                n += len(gen_mutants(f, open(os.path.join(REPO, f)).read()))
            print(n)
            return 0
        else:
            i += 1
    muts = []
    for f in files:
        muts += gen_mutants(f, open(os.path.join(REPO, f)).read())
    if ops:
        muts = [m for m in muts if any(m["op"].startswith(o) for o in ops)]
    muts = muts[offset::stride]
    done = {}
    if os.path.exists(out):
        for m in json.load(open(out)):
            done[m["id"]] = m
    todo = [m for m in muts if m["id"] not in done]
    if recheck:
        # re-run only the checks (with today's rules) on the mutants the tests could not kill
        todo = []
        for m in muts:
            d0 = done.get(m["id"])
            if d0 and d0["status"] in ("tests-pass", "test-timeout") and not (only_silent and d0.get("fired")):
                m2 = dict(m, status=d0["status"], recheck=True, _prev=d0)
                todo.append(m2)
                del done[m["id"]]
    if limit:
        todo = todo[:limit]
    print("mutants: %d generated, %d already done, %d to run" % (len(muts), len(done), len(todo)))
    q = queue.Queue()
    for m in todo:
        q.put(m)
    results = []
    os.makedirs(os.path.dirname(out), exist_ok=True)
    with concurrent.futures.ThreadPoolExecutor(max_workers=jobs) as ex:
        futs = [ex.submit(worker, w, q, results, len(todo)) for w in range(jobs)]
        last = time.time()
        while any(not f.done() for f in futs):
            time.sleep(5)
            if time.time() - last > 120:
                last = time.time()
                json.dump(list(done.values()) + list(results), open(out, "w"), indent=1)
        for f in futs:
            f.result()
    allr = list(done.values()) + results
    json.dump(allr, open(out, "w"), indent=1)
    summary(allr)
    return 0


def summary(allr):
    from collections import Counter
    c = Counter(m["status"] for m in allr)
    surv = [m for m in allr if m["status"] == "tests-pass"]
    det = [m for m in surv if m.get("fired")]
    print("total %d: %s" % (len(allr), dict(c)))
    print("test-surviving: %d, of which a check fires on %d (%.0f%%), silent on %d" % (
        len(surv), len(det), 100.0 * len(det) / max(1, len(surv)), len(surv) - len(det)))


if __name__ == "__main__":
    sys.exit(main(sys.argv[1:]))
