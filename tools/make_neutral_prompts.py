#!/usr/bin/env python3
"""tools/make_neutral_prompts.py [tag]: write /tmp/<tag>-prompt-<id>.txt for a further round of behaviour-preserving refactors
(earlier edits in the same area are listed so that the new agent makes different ones)."""
import os, re, sys, glob
TAG = sys.argv[1] if len(sys.argv) > 1 else 'neut2'
AREAS = {
 "m1": ("src/circular_buffer.rs", "n1-circular_buffer"),
 "m2": ("src/stream.rs and src/block.rs", "n2-stream"),
 "m3": ("src/mtgraph.rs and src/graph.rs", "n3-runners"),
 "m4": ("rustradio_macros/src/lib.rs", "n4-macro"),
 "m5": ("src/hdlc_deframer.rs, src/au.rs and src/stream_to_pdu.rs", "n5-hdlc-au"),
 "m6": ("src/file_sink.rs, src/file_source.rs, src/tcp_source.rs", "n6-file-io"),
 "m7": ("src/delay.rs, src/skip.rs, src/fir.rs, src/rtlsdr_decode.rs", "n7-blocks"),
 "m8": ("src/sigmf.rs, src/vector_source.rs and the `Repeat` type in src/lib.rs", None),
 "m9": ("src/vec_to_stream.rs, src/burst_tagger.rs, src/correlate_access_code.rs, src/vector_sink.rs, src/pdu_writer.rs, src/to_text.rs", None),
 "m10": ("src/fft_filter.rs, src/hilbert.rs, src/fft_stream.rs, src/rational_resampler.rs, src/zero_crossing.rs", None),
}
T = open("/tmp/neutral-prompt-n1.txt").read()
T = T.replace("/tmp/neut-n1", "@WT@").replace("src/circular_buffer.rs", "@AREA@", 1)
for k, (area, prev) in AREAS.items():
    txt = T.replace("@WT@", "/tmp/%s-%s" % (TAG, k)).replace("@AREA@", area)
    prevs = ([prev] if prev else []) + [os.path.basename(d) for d in sorted(glob.glob("/verif/neutral_seeded/%s-r*" % k))]
    items = []
    for pv in prevs:
        notes = open("/verif/neutral_seeded/%s/NOTES.md" % pv).read()
        items += re.findall(r"^\d+\.\s+(.*)$", notes, re.M)[:10] or re.findall(r"^[-*]\s+\*\*(.*?)\*\*", notes, re.M)[:10]
    if items:
        txt = txt.replace("Requirements:", "Earlier maintainers already made these edits in this area - make DIFFERENT ones (other functions, other kinds of "
                          "rewrite; restructure control flow, move logic between functions, change data representations of locals):\n" + "\n".join("  - " + i[:150] for i in items[:22]) + "\n\nRequirements:")
    open("/tmp/%s-prompt-%s.txt" % (TAG, k), "w").write(txt)
    print(k, area)
