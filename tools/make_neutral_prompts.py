#!/usr/bin/env python3
"""tools/make_neutral_prompts.py: write /tmp/neut2-prompt-<id>.txt for the second round of behaviour-preserving refactors."""
import os, re
AREAS = {
 "m1": ("src/circular_buffer.rs", "n1-circular_buffer"),
 "m2": ("src/stream.rs and src/block.rs", "n2-stream"),
 "m3": ("src/mtgraph.rs and src/graph.rs", "n3-runners"),
 "m4": ("rustradio_macros/src/lib.rs", "n4-macro"),
 "m5": ("src/hdlc_deframer.rs, src/au.rs and src/stream_to_pdu.rs", "n5-hdlc-au"),
 "m6": ("src/file_sink.rs, src/file_source.rs, src/tcp_source.rs", "n6-file-io"),
 "m7": ("src/delay.rs, src/skip.rs, src/fir.rs, src/rtlsdr_decode.rs", "n7-blocks"),
 "m8": ("src/sigmf.rs, src/vector_source.rs and the `Repeat` type in src/lib.rs", None),
 "m9": ("src/vec_to_stream.rs, src/burst_tagger.rs, src/correlate_access_code.rs, src/vector_sink.rs, src/pdu_writer.rs, src/to_text.rs", None),
 "m10": ("src/fft_filter.rs, src/hilbert.rs, src/fft_stream.rs, src/rational_resampler.rs, src/zero_crossing.rs", None),
}
T = open("/tmp/neutral-prompt-n1.txt").read()
T = T.replace("/tmp/neut-n1", "@WT@").replace("src/circular_buffer.rs", "@AREA@", 1)
for k, (area, prev) in AREAS.items():
    txt = T.replace("@WT@", "/tmp/neut2-%s" % k).replace("@AREA@", area)
    if prev:
        notes = open("/verif/neutral_seeded/%s/NOTES.md" % prev).read()
        items = re.findall(r"^\d+\.\s+(.*)$", notes, re.M)[:12]
        txt = txt.replace("Requirements:", "An earlier maintainer already made these edits in this area - make DIFFERENT ones (other functions, other kinds of "
                          "rewrite):\n" + "\n".join("  - " + i[:150] for i in items) + "\n\nRequirements:")
    open("/tmp/neut2-prompt-%s.txt" % k, "w").write(txt)
    print(k, area)
