#!/usr/bin/env python3
"""tools/audit_stale.py [--prune]: list (or remove) c15_audit.txt entries that no un-discharged site of the CURRENT tree uses
(in any build configuration).  Stale entries are free budget that a new un-guarded site of the same file and class would
silently inherit, so the table is pruned whenever a discharge rule learns to prove what an entry used to assert."""
import sys, os, re
sys.path.insert(0, os.path.join(os.path.dirname(os.path.abspath(__file__)), ".."))
from rrlint import facts as F
from rrlint.rules import c15
from collections import Counter
used = Counter()
cfgs = ["default", "simd", "avx", "fftw", "fastmath", "rtlsdr"]
need = {}
for cfg in cfgs:
    fx = F.load(cfg)
    tnt = c15._taint(fx)
    cnt = Counter()
    for body in c15.scope_bodies(fx):
        for s in c15.sites_of(body, tnt):
            if not c15.discharge(s, fx):
                cnt[s.akey()] += 1
    for k, v in cnt.items():
        need[k] = max(need.get(k, 0), v)
lines = open(c15.AUDIT_FILE).read().split("\n")
out = []
stale = 0
for l in lines:
    raw = l
    if not l or l.startswith("#"):
        out.append(l); continue
    body = l
    if body.startswith("@"):
        body = body.split(" ", 1)[1]
    m = re.match(r"^\*(\d+) ", body)
    mult = 1
    if m:
        mult = int(m.group(1)); body = body[m.end():]
    key = body.split(" :: ")[0].strip()
    n = need.get(key, 0)
    if n == 0:
        stale += 1
        print("STALE  ", key[:150])
        continue
    if n < mult:
        print("SHRINK %d->%d" % (mult, n), key[:140])
        pre = raw[:raw.index(body)] if body in raw else ""
        pre = re.sub(r"\*\d+ $", "", pre)
        raw = pre + ("*%d " % n if n > 1 else "") + body
    out.append(raw)
print("stale entries:", stale)
if "--prune" in sys.argv:
    open(c15.AUDIT_FILE, "w").write("\n".join(out))
    print("pruned")
