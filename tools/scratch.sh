#!/bin/bash
# tools/scratch.sh <dir>   : fresh scratch copy of /repo's working tree at <dir> (for RR_REPO=<dir> ./check ..)
S=$1
rm -rf $S; mkdir -p $S
for item in src rustradio_macros Cargo.toml Cargo.lock examples benches tests testdata extra README.md doc; do
  [ -e /repo/$item ] && cp -r /repo/$item $S/$item
done
