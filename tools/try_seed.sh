#!/bin/bash
# tools/try_seed.sh <seed-name> <property> <agent-worktree>
# 1. store patch/demo/notes under /verif/seeded/<seed-name>/
# 2. confirm in a scratch worktree: compiles, lib tests pass, demo fails with / passes without the change
# 3. apply to /repo, run the property's check (and all built checks), undo
set -u
NAME=$1; PROP=$2; SRC=$3
DEST=/verif/seeded/$NAME
mkdir -p $DEST
cp $SRC/SEEDED/patch.diff $DEST/patch.diff
cp $SRC/SEEDED/seeded_demo.rs $DEST/seeded_demo.rs 2>/dev/null
cp $SRC/SEEDED/NOTES.md $DEST/NOTES.md 2>/dev/null
WT=/tmp/wt-confirm
HEAD=$(git -C /repo rev-parse HEAD)
if [ ! -d $WT ]; then git -C /repo worktree add -q --detach $WT $HEAD; fi
cd $WT && git checkout -q -- . && git clean -fdq -e target && git checkout -q --detach $HEAD
export CARGO_TARGET_DIR=/tmp/wt-target CARGO_NET_OFFLINE=true
mkdir -p tests && cp $DEST/seeded_demo.rs tests/seeded_demo.rs
echo "== demo on original"
cargo test --offline --test seeded_demo 2>&1 | grep -E "^test result|error(\[|:)" | head -5
git apply $DEST/patch.diff || { echo "PATCH DOES NOT APPLY"; exit 1; }
echo "== lib tests with change"
cargo test --offline --lib 2>&1 | grep -E "^test result|error(\[|:)" | head -3
echo "== demo with change"
timeout 300 cargo test --offline --test seeded_demo 2>&1 | grep -E "^test result|error(\[|:)|panicked at" | head -8
git checkout -q -- . && git clean -fdq -e target
echo "== checks on /repo with change"
cd /repo && git apply $DEST/patch.diff || { echo "PATCH DOES NOT APPLY TO /repo"; exit 1; }
cd /verif
for p in $PROP ${EXTRA:-}; do
  RR_EVIDENCE_DIR=/tmp/seed-evidence RR_REPORT_DIR=/tmp/seed-reports ./check $p 2>&1 | grep -E "^  rule=|quick:|thorough:" | cut -c1-260
done
cd /repo && git checkout -q -- . && git status --short | head -3
