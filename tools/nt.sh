#!/bin/bash
# tools/nt.sh <neutral-name> <check>...   : apply neutral_seeded/<name>/patch.diff to a scratch copy of /repo (never /repo itself) and
# run the given checks against it.  Extra edits can be made in the scratch dir afterwards; `tools/nt.sh -k ...` keeps it.
set -u
NAME=$1; shift
S=/tmp/nt-scratch-$NAME
rm -rf $S; mkdir -p $S
for item in src rustradio_macros Cargo.toml Cargo.lock examples benches tests testdata extra README.md doc; do
  [ -e /repo/$item ] && cp -r /repo/$item $S/$item
done
(cd $S && patch -p1 -s -i /verif/neutral_seeded/$NAME/patch.diff) || { echo "PATCH DOES NOT APPLY"; exit 1; }
cd /verif
for p in "$@"; do
  RR_REPO=$S RR_TARGET_SUFFIX=-nt RR_EVIDENCE_DIR=$S/_evidence RR_REPORT_DIR=$S/_reports ./check $p 2>&1 | grep -E "^  rule=|^  at |quick:" | cut -c1-${NTW:-260}
done
