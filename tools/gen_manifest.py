#!/usr/bin/env python3
"""Generate /verif/MANIFEST.json from the table below (kept in one place so it stays valid)."""
import json
import os

VERIF = os.path.dirname(os.path.dirname(os.path.abspath(__file__)))

NOTE = ("Trusted: rustc nightly's type-checked MIR (mir-opt-level=0, overflow checks on) of /repo's working tree is "
        "the program the tests build; std/libc semantics of the named items; intra-procedural rules with listed "
        "wrapper summaries; imprecise origins make a rule silent, never alarming.")

CHECKS = {
    "C13": dict(
        text="Partial ('nothing invalid is emitted'): every packet emission in the deframer is dominated by the length, minimum-size and "
             "(checksum on) CRC-equality guards; over-long accumulations are abandoned; after a recognised closing flag the state is "
             "Synced and restarts with no collected bits (a rejected frame does not disturb the next); frame-length arithmetic is guarded; the bytes pushed after the bit-fixing step flow from that step's result (what is emitted is what was validated); a whole-window consume walks the whole window; every bit append lies behind the size comparison. 'Every valid frame is recovered' is "
             "a round-trip value property and is not decided.",
        design="§4 C13", technique="guard-fact dominance on MIR + content-taint/guard analysis"),
    "C14": dict(
        text="Partial: writer/reader table agreement (each Sample impl and the AU pair use the same primitive type, width and byte "
             "order), each AuDecode phase consumes what it parsed, partial-read arithmetic of the byte sources is guarded, and a fast "
             "path emitting freshly read bytes is dominated by carry-buffer emptiness, and carry bytes are dropped only after having been read; a restart seeks to where the constructors positioned the file; no byte source reports EOF behind a test that depends on a possibly-empty output window; no read() into a possibly zero-length buffer (0 would read as end of data); bytes read are handed on before work() returns; the direct-emit fast path needs a whole number of samples; the AU encoder's header length, offset word and magic agree with each other and with the decoder, whose format checks reject on mismatch. Identity of composed byte streams is not decided.",
        design="§4 C14", technique="sibling agreement of codec call tables + must-pass path rules + taint/guard analysis on MIR"),
    "C15": dict(
        text="Partial, audited: explicit-flow content taint (plus limited implicit flow into accumulators) over everything reachable "
             "from Block::work and the parsers; every content-tainted panic edge (checked subtraction/narrow arithmetic, division, "
             "explicit assert/panic, unwrap/expect, indexing/slice ops, str::split_at at a byte index) must be discharged by a dominating guard, by a path-sensitive search over a counter field's None/0/>0 states, or be listed with a "
             "reason in an exact audit table. 'Spins forever' is decided in its structural form only (no Again without possible progress, no already-satisfied wait without certain progress). Other non-termination, dependency panics and 64-bit counter overflow are not decided.",
        design="§4 C15", technique="interprocedural content-taint analysis + guard discharge on MIR, exact audit table"),
    "C03": dict(
        text="Structural: the protocol that justifies `unsafe impl Sync for Circ` has the required shape - raw memory and window "
             "constructors reachable only through the window API (call graph + signature rule), window bounds are one snapshot "
             "taken under the state guard, ring state only inside a Mutex and read-modify-written under one lock acquisition, "
             "each side writes only its own position, releases are checked against the fill level, at most one window per stream end is alive at any request, compile-fail witnesses for one handle per side / by-value commit / unique "
             "borrow, unsafe-impl inventory, acyclic lock order, handle-count ceiling. Disjointness of the snapshot ranges and "
             "linearizability as such are not decided.",
        design="§4 C03", technique="call-graph who-may-call + lock-guard liveness dataflow + compile_fail witnesses"),
    "C08": dict(
        text="Partial: for derive-generated sync blocks chunk-independence holds by construction, checked on the generated MIR "
             "of every in-crate user and a generated family (lock-step iteration from 0, take(n), one process call per sample, "
             "no state written by work()). For hand-written blocks the bounded-copy rule and rate consistency (consume(a) with "
             "produce(a/c) needs a multiple of c), written-before-committed, counted consume, moved-out state restored, advanced copies stored back, fills committed, no per-call limit/discard of state grown per sample, no bulk copy of a partially consumed window into carried state, output commitments are paid for by an input advance or a state change, output sized by an input window consumes from it, what is written through slice() is committed, a window processed in frames commits whole frames only, no kernel branches on how much lies behind the samples it was asked about, and a copy stage consumes what it commits. Other carried-state arithmetic of hand-written blocks is not decided. An owed-sample counter clamped to a window is reduced by the clamped amount; a byte source's aligned-read shortcut is taken only with no bytes pending (= C14.R4).",
        design="§4 C08", technique="structural rules on macro-generated MIR over a generated program family"),
    "C12": dict(
        text="Partial: the stream stores only tags of committed samples and consume(0) removes none (central contract), and on "
             "the generated sync path input tags are selected by == loop index, re-emitted at that index and handed to every "
             "produce(), for every arity of the generated family; hand-written rate changers divide forwarded positions by the same ratio on every path to the commit, and a forwarded tag list comes from the read_buf() whose window is consumed with it; the stream-side tag rules of C02 (key reduction, bounded removal, atomic commit, unambiguous selection, no early exit from the tag loop) run here too. Other index arithmetic of hand-written blocks is not decided. Every alternative of the tags a process_sync_tags hook returns is built from its tags parameter.",
        design="§4 C12", technique="guard dominance + structural rules on macro-generated MIR"),
    "C19": dict(
        text="Programs quantified over: a generated family (sync, sync_tag x 1..3 inputs x 1..3 outputs x plain/default+into) and "
             "every derive user in the crate; each generated new()/work()/eof() is checked on its MIR (wiring and return order, "
             "windows on all streams, waits name the empty stream, n = min over all inputs then all outputs, same n to every "
             "consume/produce, eof = conjunction; no content- or tag-dependent panic site in generated code), plus compile witnesses for constructor / sync output order being declaration order (outputs declared in non-alphabetical name order with distinct types).",
        design="§4 C19", technique="structural rules on macro-generated MIR over a generated program family + compile_fail witnesses"),
    "C09": dict(
        text="Decides three of the four clauses statically: no stream window type occurs in any field, static, escaping "
             "closure or leak call (=> nothing is held after work()); no CFG path reaches `return Ok(Again)` without any "
             "possible stream or state effect; a WaitForStream verdict whose nearest controlling test is a plain "
             "'window of self.G is short' names G and asks for exactly the tested amount; no wait on an output while consumed input is held uncommitted; a wait that is already satisfied on its path needs certain progress on that path (also in derive-generated work()); a wait answered on an effect-free path is supported by a test of the awaited stream; consume/produce counts are bounded by their own window by construction or guard (reported on affirmative evidence only); a counter used as index into a stream window is kept inside that window (its own length consulted, non-empty at the access, tested after every increment).",
        design="§4 C09", technique="type facts + effect-avoiding path search + guard/verdict agreement on MIR"),
    "C02": dict(
        text="Structural necessary conditions only: who-may-write on the stream's tag map (only commit adds, only consume "
             "removes, the read window mutates nothing), commit stores a tag only behind tag.pos() < n and under a key reduced modulo the capacity, and inside its tag loop no other branch sends a tag back unstored, removal sits behind n != 0, the read window uses only stable sorts, read_buf takes the state lock exactly once (window bounds and tag list are one snapshot), the ring size is counted in samples (the mapping's byte length is used only where it is divided by the element size) no wrapping_* result is reduced modulo the capacity, and the non-wrapping tag scan of consume() is chosen under a strict comparison. The modular "
             "range arithmetic of removal/re-basing (incl. consume(0)) is a value property and is not decided.",
        design="§4 C02", technique="who-may-call rule + guard dominance on MIR"),
    "C16": dict(
        text="Structural necessary conditions: checked subtractions in the Repeat counter are discharged by dominating "
             "guards; every finite source tests done() before any produce and never produces after done()==true "
             "(sibling agreement); marker tags are created only under progress==0; Infinite never reports done; a read never pulls more bytes than the output window takes; the end of a repetition is decided only on read()==0 or byte-counter==0; no EOF behind a test that depends on a possibly-empty output window; no read() into a possibly zero-length buffer; EOF on the nothing-left side of its controlling test; state re-initialised for a new repetition agrees with the constructors; a counted repetition is restarted before work() returns; no wrapping decrement of the counter. "
             "Emission counts for data larger than the buffer are values and are not decided.",
        design="§4 C16", technique="guard-fact dominance + must-pass path rules on MIR"),
    "C01": dict(
        text="Structural necessary conditions only: every write of the ring positions is dominated by the ok-edge of a "
             "real comparison of the requested count with the fill level (oversize commit/consume refused before any "
             "state changes); the constructor gates on size % element size; the single raw slice is bounded by the "
             "mapping and windows come from checked indexing; each side writes only its own position, from values read under the same lock acquisition; the window API forwards consume/produce unchanged and its len()/is_empty() agree with the window bounds. Data identity/order/wrap arithmetic are not decided.",
        design="§4 C01", technique="MIR dominance analysis of guards over state writes"),
    "C17": dict(
        text="Abstract interpretation of the OpenOptions builder per `match mode` arm against the documented table "
             "(both sinks must agree), and must-pass analysis: stream consumption is acknowledged only behind the Ok "
             "edges of write_all then flush on the same writer, a whole-window consume serialises the whole window, one read window per call, and nothing in the sink calls set_len/seek on the file. Decides the property up to the trusted OS semantics.",
        design="§4 C17", technique="abstract interpretation of builder flags + must-pass/dominance on MIR"),
    "C18": dict(
        text="Who-may-call, typestate and ownership rules on MIR: mmap/munmap only inside Map; every successful mmap is "
             "owned by a Map or unmapped on every path; Drop unmaps (base,len); Circ::new shrinks the first Map and "
             "owns both; no leak primitives; MAP_SHARED constant flags, offset 0; constructor rejects bad element sizes; the fixed re-map goes to the caller's address unchanged.",
        design="§4 C18", technique="call-graph who-may-call + typestate path rules on MIR"),
    "C04": dict(
        text="Static ordering/dominance analysis on MIR of the stream ends: the peer-liveness read precedes the final "
             "buffered-amount read on every path to an end-of-stream verdict (or happens under the still-held data "
             "lock); every non-false verdict is equivalent to / guarded by handle-count==1; all condvar waits are "
             "timed with constant non-zero timeouts; every derive-generated eof() is the conjunction over all inputs (path-sensitive); the multithreaded runner acts on wait()'s verdict only; amounts behind verdicts derive from the fill counter; the writer-side verdict depends on the requested amount too. "
             "This decides the check-then-act ordering the property describes, for all schedules, not the latency. The multithreaded runner asks StreamWait::wait about the block's need unchanged.",
        design="§4 C04", technique="MIR path-ordering + dominance analysis (rustc_private driver + Python rules)"),
    "C05": dict(
        text="Static classification of every exit of the per-block thread loop of the multithreaded runner by "
             "flag-sensitive path search on MIR, plus spawn/join structure and lock-free waits. Necessary "
             "conditions for termination with nothing dropped (incl. no block parked on its output while holding consumed input, no second live window on a stream end, no wait on a stream other than the one found short); does not decide schedule-independence of results.",
        design="§4 C05", technique="flag-sensitive CFG path search on MIR"),
    "C06": dict(
        text="Static path analysis of Graph::run (no Ok return in a pass with a live verdict; retirement discipline; a block is skipped only when it is finished) "
             "plus an assume/guarantee check of the runner's quiescence inference against the effect summary of every "
             "Block::work body (known findings list the block/verdict pairs that break it); no carried state built from samples a call did not consume (result independent of the buffer size).",
        design="§4 C06", technique="flag-sensitive CFG path search + per-block effect summaries on MIR"),
    "C07": dict(
        text="Static error-discipline and cancellation analysis of both runners: no block error is unwrapped, Err of "
             "work()/joined threads flows to run()'s return value, every work() cycle polls the cancel token with an "
             "exiting true edge, all threads joined on all paths; a recorded failure survives the join loop and nothing that can panic runs before it is returned; a failing block thread cancels the token itself; no division in runner code by a count that can be zero; the duration of a runner sleep is not a variable that grows without a clamp (how long a cancellation can go unseen).",
        design="§4 C07", technique="type-driven call-site rule + taint-to-return + cycle/poll analysis on MIR"),
}

NOT_YET = {}

NA = {
    "C10": "functional equality of block outputs with an executable specification is a statement about computed "
           "values on all inputs; no sound static rule short of symbolic evaluation decides it (count conservation of "
           "sync blocks is covered structurally under C19/C08)",
    "C11": "numerical agreement of FIR/FFT/SIMD/IIR kernels within floating-point rounding bounds is value-level; "
           "static analysis cannot bound rounding error here",
    "C20": "end-to-end decode of modulated AX.25 through a 10-block DSP chain is numerical behaviour; the only static "
           "facts (examples type-check, blocks are wired) decide nothing about the property",
}

ALL = ["C%02d" % i for i in range(1, 21)]


def main():
    checks = []
    for pid in ALL:
        if pid in CHECKS and os.path.exists(os.path.join(VERIF, "rrlint", "rules", pid.lower() + ".py")):
            c = CHECKS[pid]
            checks.append(dict(
                property_id=pid,
                quick_cmd="./check %s --tier quick" % pid,
                thorough_cmd="./check %s --tier thorough" % pid,
                evidence_file="/verif/evidence/%s.json" % pid,
                replay_cmd_template="./check replay {path}",
                engine="rrlint",
                level_claimed=dict(category="other", text=c["text"], design_ref=c["design"]),
                level_note=NOTE,
                technique=c["technique"],
            ))
    claimed = {c["property_id"] for c in checks}
    na = []
    for pid in ALL:
        if pid in claimed:
            continue
        if pid in NA:
            na.append(dict(property_id=pid, reason=NA[pid]))
        else:
            na.append(dict(property_id=pid, reason=NOT_YET.get(
                pid, "static rules for this property are designed (DESIGN.md §4) but not built/validated yet; not claimed "
                     "until they are")))
    m = dict(
        version=1,
        setup_cmd="./setup.sh",
        hooks=dict(
            guard="rustradio_verif",
            enable="none needed: the checks analyse the unmodified crate (RUSTC_WORKSPACE_WRAPPER=rrfacts under cargo +nightly check)",
            baseline_off_cmd="cd /repo && (cargo nextest run --workspace --no-fail-fast --offline || cargo test --workspace --no-fail-fast --offline)",
            source_commits=[],
            add_only=True,
        ),
        engines=[
            dict(name="rrfacts", path="/verif/rrfacts", serves_properties=sorted(claimed),
                 kind_free_text="rustc_private driver: dumps type-checked MIR, ADTs, impls of /repo's working tree as JSON"),
            dict(name="rrlint", path="/verif/rrlint", serves_properties=sorted(claimed),
                 kind_free_text="Python rule library over the MIR facts: CFG, dominators, flag-sensitive path search, "
                                "value origins, guard discharge, effect summaries, content taint, audit table"),
            dict(name="witness", path="/verif/witness", serves_properties=["C03", "C09", "C19"],
                 kind_free_text="compile_fail doctests with compiling twins (cargo +nightly test --doc) against the tree under test"),
            dict(name="derive_family", path="/verif/derive_family", serves_properties=["C08", "C12", "C19", "C04"],
                 kind_free_text="generated program family (derive macro x arity x mode), compiled for MIR extraction, never run"),
            dict(name="derive_family_big", path="/verif/derive_family_big", serves_properties=["C08", "C12", "C19"],
                 kind_free_text="thorough tier: larger generated family (arities up to 5 x 5, outputs-first / interleaved field orders), compiled for MIR extraction, never run"),
            dict(name="positive", path="/verif/positive", serves_properties=["C04", "C06", "C07", "C09", "C15", "C16", "C18"],
                 kind_free_text="positive controls: deliberately wrong code every zero-count rule must fire on (non-vacuity)"),
            dict(name="selftest", path="/verif/selftest", serves_properties=sorted(claimed),
                 kind_free_text="100+ compiling mutants, 15 behaviour-preserving edits, every independently seeded change (seeded/) and every independently written neutral refactor (neutral_seeded/): ./check selftest (both-ways test of the checker)"),
        ],
        checks=checks,
        not_applicable=na,
        notes="Technique family: static analysis only. See DESIGN.md. known_findings.txt lists genuine defects that are "
              "recorded rather than repaired (exact keys) and fixed: entries.",
    )
    with open(os.path.join(VERIF, "MANIFEST.json"), "w") as f:
        json.dump(m, f, indent=1)
    print("MANIFEST.json: %d checks, %d not_applicable" % (len(checks), len(na)))


if __name__ == "__main__":
    main()
