#!/bin/bash
# tools/try_neutral.sh <name> <agent-worktree>: store a behaviour-preserving refactor, apply it to /repo,
# run every claimed check (quick), undo.  Any VIOLATION is a false alarm of the machinery.
set -u
NAME=$1; SRC=$2
DEST=/verif/neutral_seeded/$NAME
mkdir -p $DEST
cp $SRC/NEUTRAL/patch.diff $DEST/patch.diff
cp $SRC/NEUTRAL/NOTES.md $DEST/NOTES.md 2>/dev/null
cd /repo && git apply $DEST/patch.diff || { echo "PATCH DOES NOT APPLY"; exit 1; }
echo "== lib tests with refactor"
CARGO_TARGET_DIR=/tmp/wt-target cargo test --offline --lib 2>&1 | grep -E "^test result|error(\[|:)" | head -3
cd /verif
for p in C01 C02 C03 C04 C05 C06 C07 C08 C09 C12 C13 C14 C15 C16 C17 C18 C19; do
  RR_EVIDENCE_DIR=/tmp/neutral-evidence RR_REPORT_DIR=/tmp/neutral-reports ./check $p 2>&1 | grep -E "^  rule=|^  at |quick:" | cut -c1-300 | grep -v "0 violations"
done
cd /repo && git checkout -q -- . && git status --short | head -3
echo "== done $NAME"
