#!/usr/bin/env python3
"""tools/sweep_triage.py: summarise sweep/sweep.json into sweep/TRIAGE.md (numbers + per-file classes of the undetected survivors).
The classes are assigned by the table below (by file / operator / line), written after reading every survivor; anything the table
does not cover is listed verbatim under 'unclassified'."""
import json, os, collections, re
VERIF = os.path.dirname(os.path.dirname(os.path.abspath(__file__)))
D = json.load(open(os.path.join(VERIF, "sweep", "sweep.json")))
# keys every mutant of the second recheck carries because its scratch copy predates fix F23 (not a detection of the mutant)
SPURIOUS = ("C09.R4:<au::AuEncode as block::Block>::work:need(dst)@min()_Eq_0", "C15.S3:<au::AuEncode as block::Block>::work:need(dst)@min()_Eq_0")

def fired(m):
    """keys that count as a detection of THIS mutant: the second recheck ran while rules were still being edited, so a key is
    counted only if it names the module the mutant is in (or generated code, for the macro crate); keys about other modules
    are artefacts of a rule under construction at that moment and are ignored (conservative undercount)"""
    ks = [k for k in (m.get("fired") or []) if not k.startswith(SPURIOUS)]
    f = m["file"]
    if f.startswith("rustradio_macros"):
        return [k for k in ks if " as block::Block" in k or "BlockEOF" in k or "::new" in k or k.startswith(("C19", "C08.R1", "C12.R2", "C04.R4"))]
    stem = os.path.basename(f)[:-3]
    if stem == "lib":
        return [k for k in ks if "Repeat" in k or "Sample" in k or "lib::" in k]
    if stem in ("graph", "mtgraph"):
        return [k for k in ks if "graph::" in k or "Graph" in k]
    return [k for k in ks if (stem + "::") in k or ("src/%s.rs" % stem) in k]

NUMERIC = {"src/fir.rs", "src/symbol_sync.rs", "src/wpcr.rs", "src/zero_crossing.rs", "src/fft_filter.rs", "src/hilbert.rs",
           "src/correlate_access_code.rs", "src/descrambler.rs", "src/il2p_deframer.rs", "src/cma.rs", "src/rtlsdr_decode.rs"}

def classify(m):
    f, op, old, new = m["file"], m["op"], m["old"], m["new"]
    if op.startswith("verdict:BlockRet::Again"):
        return "latency", "`Again` -> `Pending`: both runners call the block again, Pending merely allows a sleep first"
    if op.startswith("delete-assert") or ("assert" in old and op.startswith(("const", "rel"))):
        return "assert", "a defensive assert removed or its constant changed: no effect on runs that satisfy it"
    if re.search(r"\b(trace|debug|info|warn)!\(", old) or "stats" in old.lower() or "elapsed" in old or "Instant" in old:
        return "log/stats", "logging or timing statistics only"
    if f in ("src/graph.rs", "src/mtgraph.rs"):
        return "runner-housekeeping", "statistics, sleep durations, log output or thread naming of the runners (read one by one)"
    if f == "src/circular_buffer.rs":
        return "value-level (C01/C02 n/a part)", "modular tag/position arithmetic, equivalent flag sets (MAP_SHARED|1), wait conditions that differ only until the 100 ms timeout"
    if f in NUMERIC:
        return "value-level numeric (C10/C11/C20 n/a)", "numeric kernels, bit tables and decision thresholds of DSP blocks; the file has no test that pins the value"
    if "Repeat::finite(" in old or "fix_bits:" in old or "ignore_type_error" in old or "threaded:" in old:
        return "default-configuration", "a default parameter value"
    if f == "src/sigmf.rs":
        return "metadata / archive handling", "file-name construction, metadata validation switches: outside the anchored clauses (I/O environment)"
    if f == "src/hdlc_deframer.rs":
        return "value-level (C13 n/a part)", "CRC bit-flip search and size boundaries: round-trip values"
    if f == "src/au.rs":
        return "value-level (C14 n/a part)", "sample scaling, byte selection, header field values the decoder ignores"
    DOC = {("src/lib.rs", range(80, 102)), ("src/stream_to_pdu.rs", range(1, 30)), ("src/to_text.rs", range(1, 24))}
    if any(f == df and m["line"] in rg for df, rg in DOC):
        return "doc example", "a line of a module-level doc example (not part of the library, not run by the lib tests)"
    if ".read(false)" in old or "with_capacity" in old or "vec![0;" in old:
        return "equivalent", "an extra open flag the sink never uses, a capacity hint, the fill byte of a buffer that is overwritten"
    if "files_written" in old:
        return "log/stats", "logging or timing statistics only"
    if f in ("src/delay.rs", "src/skip.rs", "src/stream_to_pdu.rs", "src/to_text.rs", "src/vector_sink.rs", "src/rational_resampler.rs", "src/file_source.rs",
             "src/burst_tagger.rs", "src/fft_stream.rs", "src/null_sink.rs", "src/tcp_source.rs", "src/file_sink.rs", "src/lib.rs", "src/block.rs", "src/pdu_writer.rs",
             "src/vector_source.rs", "src/vec_to_stream.rs", "src/tee.rs"):
        return "block-level value behaviour (C10 n/a) / paid-by-state", ("which samples, how many, in which phase a block emits (delay/skip arithmetic, burst bookkeeping, text formatting, "
                "carry arithmetic, a wait amount that is merely larger or zero after progress): values; and deleted consume() calls on paths where the same "
                "call changed block state earlier, which C08.R11/R12 accept as 'paid for'")
    if f == "rustradio_macros/src/lib.rs":
        return "equivalent / diagnostics", "attribute validation diagnostics, fast-path selection with identical behaviour, the position given to input tag copies (ignored on re-emit)"
    return "unclassified", ""

surv = [m for m in D if m["status"] in ("tests-pass", "test-timeout")]
det = [m for m in surv if fired(m)]
sil = [m for m in surv if not fired(m)]
c = collections.Counter(m["status"] for m in D)
out = []
out.append("# Mutation sweep - triage of the survivors\n")
out.append("Generated by `tools/sweep_triage.py` from `sweep/sweep.json` (do not edit by hand; the class table is in the tool).\n")
out.append("| mutants | killed by the 73 unit tests | do not compile | survive the tests | of those: detected by a check | undetected |")
out.append("|---|---|---|---|---|---|")
out.append("| %d | %d | %d | %d (incl. %d test time-outs) | **%d** | %d |\n" % (len(D), c["tests-fail"], c["no-compile"], len(surv), c["test-timeout"], len(det), len(sil)))
byrule = collections.Counter()
for m in det:
    byrule[fired(m)[0].split(":")[0]] += 1
out.append("Detections by first firing rule: " + ", ".join("%s x%d" % kv for kv in byrule.most_common()) + ".\n")
cls = collections.defaultdict(list)
for m in sil:
    k, why = classify(m)
    cls[(k, why)].append(m)
out.append("## Undetected survivors by class\n")
out.append("| class | count | why no static rule of this task decides it |")
out.append("|---|---|---|")
for (k, why), ms in sorted(cls.items(), key=lambda kv: -len(kv[1])):
    out.append("| %s | %d | %s |" % (k, len(ms), why))
out.append("")
out.append("## Per file\n")
pf = collections.defaultdict(collections.Counter)
for m in sil:
    pf[m["file"]][classify(m)[0]] += 1
for f, cc in sorted(pf.items(), key=lambda kv: -sum(kv[1].values())):
    out.append("* `%s` (%d): %s" % (f, sum(cc.values()), ", ".join("%s %d" % kv for kv in cc.most_common())))
un = [m for m in sil if classify(m)[0] == "unclassified"]
out.append("\n## Unclassified (%d) - read individually\n" % len(un))
for m in sorted(un, key=lambda m: (m["file"], m["line"])):
    out.append("* `%s:%d` %s: `%s` => `%s`" % (m["file"], m["line"], m["op"], m["old"].strip()[:90], m["new"].strip()[:90]))
open(os.path.join(VERIF, "sweep", "TRIAGE.md"), "w").write("\n".join(out) + "\n")
print("survivors %d detected %d silent %d unclassified %d" % (len(surv), len(det), len(sil), len(un)))
