#!/bin/bash
# tools/sd.sh <seed-dir-name> <check>...  : apply seeded/<name>/patch.diff to a scratch copy of /repo (never /repo itself), run the checks
set -u
NAME=$1; shift
S=/tmp/sd-scratch-$NAME
/verif/tools/scratch.sh $S
(cd $S && patch -p1 -s -i /verif/seeded/$NAME/patch.diff) || { echo "PATCH DOES NOT APPLY"; exit 1; }
cd /verif
for p in "$@"; do
  RR_REPO=$S RR_TARGET_SUFFIX=-nt RR_EVIDENCE_DIR=$S/_evidence RR_REPORT_DIR=$S/_reports ./check $p 2>&1 | grep -E "^  rule=|quick:" | cut -c1-${NTW:-200}
done
rm -rf $S
