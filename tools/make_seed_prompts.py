#!/usr/bin/env python3
"""tools/make_seed_prompts.py <round-tag> [props...]: write /tmp/<round-tag>-prompt-<P>.txt for fresh seeding sub-agents.
The agent gets ONLY the property text, its own worktree path and one-line summaries of earlier seeds for that property
(so that it picks something different); nothing from /verif."""
import json, os, sys, glob
tag = sys.argv[1]
props = sys.argv[2:]
P = {}
for l in open("/verif/properties.jsonl"):
    d = json.loads(l)
    P[d["id"]] = d
earlier = {}
for mp in sorted(glob.glob("/verif/seeded/*/meta.json")):
    m = json.load(open(mp))
    earlier.setdefault(m["property"], []).append(m["summary"])
T = open("/verif/tools/seed_prompt.tmpl").read()
for p in props:
    d = P[p]
    q = d.get("quantifier") or ""
    if isinstance(q, dict):
        q = q.get("text", "")
    txt = T.replace("@WT@", "/tmp/%s-%s" % (tag, p)).replace("@ID@", p).replace("@TITLE@", d["title"]) \
        .replace("@STATEMENT@", d.get("statement") or d.get("description")).replace("@QUANT@", q) \
        .replace("@EARLIER@", "\n".join("  - " + e for e in earlier.get(p, [])) or "  (none)").replace("@TAG@", tag)
    open("/tmp/%s-prompt-%s.txt" % (tag, p), "w").write(txt)
    print("/tmp/%s-prompt-%s.txt" % (tag, p))
