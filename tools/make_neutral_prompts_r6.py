#!/usr/bin/env python3
"""tools/make_neutral_prompts_r6.py: prompts for neutral round 6 (areas cut along the rules added by the sweep triage)."""
import os, re, glob
TAG = "neut6"
AREAS = {
 "a1": ("src/skip.rs, src/delay.rs, src/null_sink.rs and src/fft_stream.rs", ["m7-r", "n7"]),
 "a2": ("src/cma.rs, src/hilbert.rs, src/rational_resampler.rs, src/symbol_sync.rs and src/zero_crossing.rs", ["m10-r", "n8"]),
 "a3": ("src/au.rs (both the encoder and the decoder, including AuEncode::new)", ["m5-r", "n5"]),
 "a4": ("src/file_source.rs and src/tcp_source.rs", ["m6-r", "n6"]),
 "a5": ("src/sigmf.rs (SigMFSource::work and the constructors), src/vector_source.rs and the `Repeat` type in src/lib.rs", ["m8-r"]),
 "a6": ("rustradio_macros/src/lib.rs (the generated work() of sync / sync_tag blocks)", ["m4-r", "n4"]),
 "a7": ("src/to_text.rs, src/rtlsdr_decode.rs, src/il2p_deframer.rs, src/stream_to_pdu.rs and src/vec_to_stream.rs", ["m9-r"]),
 "a8": ("src/fft_filter.rs, src/fir.rs, src/debug_sink.rs, src/vector_sink.rs and src/file_sink.rs", ["m6-r", "m10-r"]),
}
T = open("/verif/tools/neutral_prompt.tmpl").read()
T = T.replace("/tmp/neut-n1", "@WT@").replace("src/circular_buffer.rs", "@AREA@", 1)
for k, (area, prevs_) in AREAS.items():
    txt = T.replace("@WT@", "/tmp/%s-%s" % (TAG, k)).replace("@AREA@", area)
    prevs = []
    for pv in prevs_:
        prevs += [os.path.basename(d) for d in sorted(glob.glob("/verif/neutral_seeded/%s*" % pv))]
    items = []
    for pv in prevs:
        try:
            notes = open("/verif/neutral_seeded/%s/NOTES.md" % pv).read()
        except OSError:
            continue
        items += re.findall(r"^\d+\.\s+(.*)$", notes, re.M)[:6] or re.findall(r"^[-*]\s+\*\*(.*?)\*\*", notes, re.M)[:6]
    if items:
        txt = txt.replace("Requirements:", "Earlier maintainers already made these edits around here - make DIFFERENT ones (other functions, other kinds of "
                          "rewrite; restructure control flow of work(), move logic between functions and closures, change how counts and "
                          "early returns are computed, change data representations of locals):\n" + "\n".join("  - " + i[:140] for i in items[:24]) + "\n\nRequirements:")
    txt = txt.replace("Make 4-8 separate, realistic edits", "Be bold: make 5-8 separate, realistic edits")
    open("/tmp/%s-prompt-%s.txt" % (TAG, k), "w").write(txt)
    print(k, area)
