//! E5 — positive controls (DESIGN §2.1): deliberately WRONG code, one item per rule whose expected count on
//! /repo is zero.  Every check run analyses this crate (never runs it) and fails closed if the rule does not
//! fire on its control, so a rule can never pass vacuously.
#![allow(dead_code, unused_variables, clippy::all)]
use rustradio::block::{Block, BlockEOF, BlockName, BlockRet};
use rustradio::graph::{CancellationToken, GraphRunner};
use rustradio::stream::{NCReadStream, ReadStream, WriteStream};
use rustradio::{Repeat, Result};

// ---- C09.R2: idle Again ------------------------------------------------------------------
#[derive(rustradio::rustradio_macros::Block)]
#[rustradio(new)]
pub struct IdleAgain {
    #[rustradio(in)]
    src: ReadStream<u8>,
    #[rustradio(out)]
    dst: WriteStream<u8>,
}
impl Block for IdleAgain {
    fn work(&mut self) -> Result<BlockRet> {
        let o = self.dst.write_buf()?;
        if o.is_empty() {
            return Ok(BlockRet::Again); // WRONG: nothing can have changed
        }
        let (i, _) = self.src.read_buf()?;
        let n = std::cmp::min(i.len(), o.len());
        i.consume(n);
        o.produce(n, &[]);
        Ok(BlockRet::Again)
    }
}

// ---- C09.R3 / R4: misdirected wait, wrong amount ----------------------------------------------
#[derive(rustradio::rustradio_macros::Block)]
#[rustradio(new)]
pub struct WrongWait {
    #[rustradio(in)]
    src: ReadStream<u8>,
    #[rustradio(out)]
    dst: WriteStream<u8>,
    need: usize,
}
impl Block for WrongWait {
    fn work(&mut self) -> Result<BlockRet> {
        let o = self.dst.write_buf()?;
        if o.is_empty() {
            return Ok(BlockRet::WaitForStream(&self.src, 1)); // WRONG stream
        }
        let (i, _) = self.src.read_buf()?;
        if i.len() < self.need + 3 {
            return Ok(BlockRet::WaitForStream(&self.src, self.need)); // WRONG amount
        }
        let n = std::cmp::min(i.len(), o.len());
        i.consume(n);
        o.produce(n, &[]);
        Ok(BlockRet::Again)
    }
}

// ---- C09.R1: a struct hoarding a window ---------------------------------------------------------
pub struct Hoarder {
    pub cached: Option<rustradio::circular_buffer::BufferWriter<u8>>,
}

// ---- C06.R3 / C16.R2 / C15: a finite source that moves data then settles, never asks done(), and does
//      unguarded arithmetic on content ------------------------------------------------------------------
#[derive(rustradio::rustradio_macros::Block)]
#[rustradio(new)]
pub struct BadSource {
    #[rustradio(in)]
    src: ReadStream<u8>,
    #[rustradio(out)]
    dst: WriteStream<u8>,
    repeat: Repeat,
    table: Vec<u8>,
}
impl Block for BadSource {
    fn work(&mut self) -> Result<BlockRet> {
        let (i, _) = self.src.read_buf()?;
        if i.is_empty() {
            return Ok(BlockRet::WaitForStream(&self.src, 1));
        }
        let mut o = self.dst.write_buf()?;
        if o.is_empty() {
            return Ok(BlockRet::WaitForStream(&self.dst, 1));
        }
        let first = i.slice()[0];
        let k = (first as usize) - 1; // WRONG: content - 1 unguarded
        let t = self.table[first as usize]; // WRONG: content index
        let m = i.slice().iter().copied().filter(|x| *x > 3).max().unwrap(); // WRONG: unwrap on content-dependent Option
        o.slice()[0] = t.wrapping_add(m).wrapping_add(k as u8);
        o.produce(1, &[]); // WRONG for C16.R2: no done() test before emitting
        i.consume(1);
        Ok(BlockRet::WaitForStream(&self.src, 1)) // settled verdict after an effect (C06.R3)
    }
}

// ---- C07 / C05: a runner that unwraps block errors, swallows them, never polls cancellation ------------
pub struct BadRunner {
    blocks: Vec<Box<dyn Block + Send>>,
    cancel: CancellationToken,
}
impl GraphRunner for BadRunner {
    fn add(&mut self, b: Box<dyn Block + Send>) {
        self.blocks.push(b);
    }
    fn run(&mut self) -> Result<()> {
        loop {
            let mut done = true;
            for b in self.blocks.iter_mut() {
                let ret = b.work().expect("block failed"); // WRONG: C07.R1
                match ret {
                    BlockRet::Again => {} // WRONG: C06.R1 (done stays true)
                    BlockRet::Pending => done = false,
                    _ => {}
                }
            }
            if done {
                break;
            } // WRONG: C07.R3 no cancel poll
        }
        Ok(())
    }
    fn generate_stats(&self) -> Option<String> {
        None
    }
    fn cancel_token(&self) -> CancellationToken {
        self.cancel.clone()
    }
}

// ---- C18.R1/R5: mmap outside Map, leak primitive ---------------------------------------------------
pub fn rogue_mapping(len: usize) -> *mut libc::c_void {
    // SAFETY: positive control, never executed.
    unsafe { libc::mmap(std::ptr::null_mut(), len, libc::PROT_READ, libc::MAP_PRIVATE | libc::MAP_ANONYMOUS, -1, 0) }
}

// ---- C04.R1/R2/R3 mimic of a read end with the two reads in the wrong order, a bad count test and an untimed wait
pub mod stream {
    use std::collections::VecDeque;
    use std::sync::{Arc, Condvar, Mutex};
    pub struct NCReadStream<T> {
        pub q: Arc<(Mutex<VecDeque<T>>, Condvar)>,
    }
    impl<T> NCReadStream<T> {
        pub fn eof(&self) -> bool {
            if !self.q.0.lock().unwrap().is_empty() {
                false
            } else {
                Arc::strong_count(&self.q) <= 2 // WRONG order (R1) and WRONG test (R2)
            }
        }
        pub fn wait_for_read(&self, need: usize) -> bool {
            let (lock, cv) = &*self.q;
            let g = cv.wait_while(lock.lock().unwrap(), |s| s.len() < need).unwrap(); // WRONG: untimed (R3)
            drop(g);
            Arc::strong_count(&self.q) == 1
        }
    }
}
