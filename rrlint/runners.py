"""Shape analysis of the graph runners (shared by C05, C06, C07)."""
from .common import *
from .common import _container_root
from .mir import peel, walk, show, E

WORK = "block::Block::work"
EOFQ = "block::BlockEOF::eof"
WAITQ = "stream::StreamWait::wait"
CLOSEDQ = "stream::StreamWait::closed"
IS_CANCELED = "graph::CancellationToken::is_canceled"
CANCEL = "graph::CancellationToken::cancel"
RUN_TRAIT = "graph::GraphRunner"


_rb_cache = {}


def _has_work_call(b):
    return any(t["f"].get("kind") == "traitdecl" for _, t in b.calls_to(WORK))


def runner_bodies(facts):
    """Bodies that implement GraphRunner::run, the closures nested in them, and local helper functions
    (reachable through the call graph) that contain a `dyn Block::work()` call."""
    k = id(facts)
    if k in _rb_cache:
        return _rb_cache[k]
    out = []
    for b in facts.bodies:
        if b.kind == "traitimpl" and b.trait == RUN_TRAIT and b.name == "run":
            out.append(b)
            out.extend(facts.closures_in(b))
    # `extract method` on the scheduling loop: a runner body that does not call work() itself but through a crate-local helper
    # (`work_once(b, ..)? -> Activity`) is analysed with that helper substituted in (inline.py); the helper is then not a
    # runner body of its own
    from . import inline, effects
    absorbed = set()
    for i, b in enumerate(list(out)):
        if _has_work_call(b):
            continue
        def pick(hb, _seen=None):
            if _has_work_call(hb):
                return True
            return any(_has_work_call(h2) for _, t2 in hb.calls() for q2 in Body.callee_qs(t2) for h2 in facts.by_q.get(q2, []) if h2.kind != "closure")
        nb, inl = inline.inline_body(facts, b, pick)
        if inl and _has_work_call(nb):
            effects._FACTS_FOR_VERDICTS[id(nb)] = facts
            out[i] = nb
            absorbed.update(inl)
    # ... and helpers that act on the verdict (`fn settle(ret: BlockRet) -> NextStep { match ret { .. stream.wait(need) .. } }`): the
    # rules ask what the runner does with each answer of work(), which is then one question on one body
    def takes_verdict(hb):
        return hb.kind != "closure" and any("block::BlockRet" in hb.locals[j]["ty"] for j in range(1, min(hb.argc, len(hb.locals) - 1) + 1))
    for i, b in enumerate(list(out)):
        if not _has_work_call(b):
            continue
        nb, inl = inline.inline_body(facts, b, takes_verdict)
        if inl:
            effects._FACTS_FOR_VERDICTS[id(nb)] = facts
            out[i] = nb
            absorbed.update(inl)
    cg = CallGraph(facts)
    reach = cg.reachable_bodies([b.q for b in out]) - absorbed
    have = {b.path for b in out}
    for b in facts.bodies:
        if b.q in reach and b.path not in have and _has_work_call(b):
            out.append(b)
            have.add(b.path)
            for c in facts.closures_in(b):
                if c.path not in have:
                    out.append(c)
                    have.add(c.path)
    _rb_cache[k] = out
    return out


SPAWN_QS = {"std::thread::Builder::spawn", "std::thread::spawn", "std::thread::Builder::spawn_scoped", "std::thread::Scope::spawn"}


def thread_side_paths(facts):
    """Paths of bodies that run on a spawned thread: closures passed to a spawn call and everything they call."""
    cg = CallGraph(facts)
    roots = []
    for b in facts.bodies:
        for bb, t in b.calls_to(SPAWN_QS):
            for a in t["args"]:
                e = b.operand_expr(a)
                for x in walk(e):
                    if x.k == "agg" and x.ak == "closure" and x.q:
                        cb = facts.by_path.get(x.q)
                        if cb is not None:
                            roots.append(cb.q)
    reach = cg.reachable_bodies(roots)
    return {b.path for b in facts.bodies if b.q in reach}


class WorkSite:
    """One `dyn Block::work()` call site with the control structure around it."""

    def __init__(self, facts, body, wbb):
        self.facts = facts
        self.body = body
        self.wbb = wbb
        self.variants = enum_variants(facts, BLOCKRET)
        self.err_edge = None
        self.ok_edge = None
        self.res_switch = None
        self.ret_switch = None
        self.arms = {}
        self._find()

    def _is_work_value(self, e, depth=0):
        e = peel(e)
        if e is not None and e.k == "call" and e.args and depth < 4 and (e.q or "").startswith("std::result::Result::") and \
                (e.q or "").split("::")[-1] in ("inspect_err", "inspect", "map_err"):
            # wrappers that keep Ok/Err-ness and the Ok payload: `b.work().inspect_err(|e| ..)?`
            return self._is_work_value(e.args[0], depth + 1)
        return e is not None and e.k == "call" and e.q == WORK and e.bb == self.wbb

    def _find(self):
        body = self.body
        for s in sorted(body.reachable(0)):
            t = body.term(s)
            if t["k"] != "switch":
                continue
            d = switch_discr_expr(body, s)
            if d.k != "discr":
                continue
            inner = d.a
            # result switch: discr(work()) or discr(Try::branch(work()))
            x = inner
            while x is not None and x.k in ("ref", "deref"):
                x = x.a
            if x is not None and x.k == "call" and x.q == WORK and x.bb == self.wbb:
                # Result: 0 Ok, 1 Err
                self.res_switch = s
                tg = {v: b for b, v in switch_edges(body, s) if v is not None}
                self.ok_edge = (s, tg.get(0))
                self.err_edge = (s, tg.get(1))
                continue
            if x is not None and x.k == "call" and x.q == "std::ops::Try::branch" and x.args and self._is_work_value(x.args[0]):
                self.res_switch = s
                tg = {v: b for b, v in switch_edges(body, s) if v is not None}
                self.ok_edge = (s, tg.get(0))
                self.err_edge = (s, tg.get(1))
                continue
            if self._is_work_value(inner) and self.variants:
                # BlockRet switch (payload of Ok)
                # several switches can test the same work() value (`matches!(ret, BlockRet::Pending)` ahead of the match):
                # the match that decides what the loop does next is the one naming the most variants (first on a tie)
                n = len([1 for b, v in switch_edges(body, s) if v is not None])
                if self.ret_switch is None or n > self._ret_switch_n:
                    self.ret_switch = s
                    self._ret_switch_n = n
                    self.arms = discr_switch_arms(body, self.facts, s, self.variants)

    def complete(self):
        return self.res_switch is not None and self.ret_switch is not None and self.err_edge and self.err_edge[1] is not None


def work_sites(facts, body):
    out = []
    for bb, t in body.calls_to(WORK):
        f = t["f"]
        if f.get("kind") == "traitdecl":
            out.append(WorkSite(facts, body, bb))
    return out


def call_blocks(body, q):
    return [bb for bb, t in body.calls_to(q)]


def cancel_polls(body):
    """[(call_bb, switch_bb, true_target)] for is_canceled() results that are branched on."""
    out = []
    for cbb, t in body.calls_to(IS_CANCELED):
        for s in sorted(body.reachable(0)):
            tt = body.term(s)
            if tt["k"] != "switch":
                continue
            e = switch_discr_expr(body, s)
            neg = False
            pe = e
            while pe is not None and pe.k == "un" and pe.op == "Not":
                neg = not neg
                pe = pe.a
            pe = peel(pe, through_try=False)
            if pe is not None and pe.k == "call" and pe.bb == cbb and pe.q == IS_CANCELED:
                bt = bool_edge_targets(body, s)
                if bt:
                    out.append((cbb, s, bt[1] if neg else bt[0]))
    return out


def result_switches(body, call_bb):
    """Switches whose discriminant is (a copy of) the bool result of the call at call_bb:
    [(switch_bb, true_target, false_target)]"""
    out = []
    for s in sorted(body.reachable(0)):
        tt = body.term(s)
        if tt["k"] != "switch" or tt.get("dty") != "bool":
            continue
        e = peel(switch_discr_expr(body, s), through_try=False)
        if e is not None and e.k == "call" and e.bb == call_bb:
            bt = bool_edge_targets(body, s)
            if bt:
                out.append((s, bt[0], bt[1]))
    return out


FINITE_ITER_NEXT_ADTS = ("std::iter::Enumerate", "std::slice::IterMut", "std::slice::Iter", "std::vec::IntoIter",
                         "std::iter::Rev", "std::iter::Zip", "std::vec::Drain", "std::iter::Take")


def finite_next_blocks(body):
    """Blocks calling Iterator::next on an adaptor over a finite collection."""
    out = []
    for bb, t in body.calls_to("std::iter::Iterator::next"):
        r = t["f"].get("resolved")
        if r and r.get("self_adt") in FINITE_ITER_NEXT_ADTS:
            out.append(bb)
    return out


def finite_pop_blocks(body, comp):
    """Blocks of the loop `comp` that take one element out of a Vec/VecDeque (`while let Some(x) = v.pop()`), provided
    nothing is added to that container inside the loop: the loop then ends by exhaustion like an iterator's"""
    out = []
    for bb, t in body.calls():
        if bb not in comp or not t["args"]:
            continue
        q = t["f"].get("q") or ""
        if t["f"].get("name") in ("pop", "pop_front", "pop_back") and (q.startswith("std::vec::Vec::") or q.startswith("std::collections::VecDeque::")):
            root = _container_root(body.operand_expr(t["args"][0]))
            if root is None:
                continue
            grows = False
            for b2, t2 in body.calls():
                if b2 in comp and t2["args"] and t2["f"].get("name") in ("push", "push_back", "push_front", "insert", "extend", "append", "extend_from_slice") \
                        and _container_root(body.operand_expr(t2["args"][0])) == root:
                    grows = True
            if not grows:
                out.append(bb)
    return out
