"""MIR fact model: bodies, CFG, dominators, reachability and value-origin expressions.

Everything here is a pure function of the JSON fact files produced by rrfacts (E1).
"""
import json
import re
import sys
from collections import defaultdict, deque

sys.setrecursionlimit(10000)


# --------------------------------------------------------------------------------------
# Expressions (analysis A/B of DESIGN §3): symbolic origin of a value
# --------------------------------------------------------------------------------------
class E:
    """Symbolic expression node.  k = kind; other attributes by kind."""
    __slots__ = ("k", "a", "b", "op", "name", "owner", "variant", "q", "rq", "args", "bb",
                 "f", "v", "ty", "local", "alts", "mut", "adt", "fields", "ak", "idx")

    def __init__(self, k, **kw):
        self.k = k
        for s in self.__slots__[1:]:
            setattr(self, s, kw.get(s))

    def __repr__(self):
        return show(self)


def show(e, depth=0):
    if e is None:
        return "None"
    if depth > 12:
        return "…"
    k = e.k
    d = depth + 1
    if k == "const":
        return "fn:%s" % e.q if e.q else repr(e.v if e.v is not None else e.ty)
    if k == "param":
        return "arg%d" % e.idx
    if k == "field":
        return "%s.%s" % (show(e.a, d), e.name if e.name is not None else e.idx)
    if k == "deref":
        return "*%s" % show(e.a, d)
    if k == "ref":
        return "&%s" % show(e.a, d)
    if k == "downcast":
        return "(%s as %s)" % (show(e.a, d), e.variant)
    if k == "index":
        return "%s[%s]" % (show(e.a, d), show(e.b, d))
    if k == "call":
        return "%s(%s)" % (e.rq or e.q, ", ".join(show(x, d) for x in e.args))
    if k == "bin":
        return "(%s %s %s)" % (show(e.a, d), e.op, show(e.b, d))
    if k == "un":
        return "%s(%s)" % (e.op, show(e.a, d))
    if k == "cast":
        return "cast(%s)" % show(e.a, d)
    if k == "discr":
        return "discr(%s)" % show(e.a, d)
    if k == "agg":
        return "%s{%s}" % (e.adt or e.ak, ", ".join(show(x, d) for x in e.args))
    if k == "multi":
        return "multi(_%d)" % e.local
    if k == "local":
        return "_%d" % e.local
    return k


UNKNOWN = E("unknown")


# --------------------------------------------------------------------------------------
class Body:
    def __init__(self, j, crate):
        self.j = j
        self.crate = crate
        self.q = j["q"]
        self.path = j["path"]
        self.name = j.get("name")
        self.kind = j["kind"]
        self.self_adt = j.get("self_adt")
        self.self_ty = j.get("self_ty")
        self.trait = j.get("trait")
        self.span = j["span"]
        self.file = self.span["f"]
        self.argc = j["argc"]
        self.locals = j["locals"]
        self.blocks = j["blocks"]
        self.parent = j.get("parent")
        self.parent_q = self.parent["q"] if self.parent else None
        self.vis = j.get("vis")
        self.upvars = j.get("upvars")
        self.vars = {}
        for v in j.get("vars", []):
            self.vars.setdefault(v["name"], v["place"])
        self.n = len(self.blocks)
        self._succ = None
        self._pred = None
        self._dom = None
        self._defs = None
        self._expr_cache = {}
        self.from_derive = any("derive" in x for x in self.span.get("x", []))

    # ---- identification ---------------------------------------------------------
    def where(self, bb=None):
        if bb is None:
            return "%s:%d" % (self.file, self.span["l"])
        t = self.blocks[bb]["term"]
        sp = t.get("sp")
        if sp is None:
            for s in self.blocks[bb]["stmts"]:
                sp = s.get("sp")
        if sp is None:
            return self.where()
        return "%s:%d" % (sp["f"], sp["l"])

    def var_name_of_local(self, l):
        for n, p in self.vars.items():
            if p["l"] == l and not p["p"]:
                return n
        return None

    # ---- CFG ----------------------------------------------------------------------
    def term(self, bb):
        return self.blocks[bb]["term"]

    def succs(self, bb, unwind=False):
        t = self.blocks[bb]["term"]
        k = t["k"]
        out = []
        if k == "goto":
            out = [t["t"]]
        elif k == "switch":
            out = [x[1] for x in t["targets"]] + [t["else"]]
        elif k in ("call", "assert", "drop"):
            if t.get("t") is not None:
                out = [t["t"]]
            if unwind and t.get("u") is not None:
                out.append(t["u"])
        return out

    def build_cfg(self):
        if self._succ is not None:
            return
        self._succ = [self.succs(i) for i in range(self.n)]
        self._pred = [[] for _ in range(self.n)]
        for i, ss in enumerate(self._succ):
            for s in ss:
                self._pred[s].append(i)

    @property
    def succ(self):
        self.build_cfg()
        return self._succ

    @property
    def pred(self):
        self.build_cfg()
        return self._pred

    def reachable(self, start, avoid=(), edge_filter=None):
        """Blocks reachable from `start` (list or int) without entering a block in `avoid`.
        `start` blocks themselves are included (even if in avoid)."""
        if isinstance(start, int):
            start = [start]
        avoid = set(avoid)
        seen = set(start)
        dq = deque(start)
        while dq:
            b = dq.popleft()
            for s in self.succ[b]:
                if s in seen or s in avoid:
                    continue
                if edge_filter and not edge_filter(b, s):
                    continue
                seen.add(s)
                dq.append(s)
        return seen

    def reachable_from_entry(self):
        return self.reachable(0)

    def dominators(self):
        """idom-free simple dominator sets (bodies are small)."""
        if self._dom is not None:
            return self._dom
        self.build_cfg()
        reach = self.reachable(0)
        order = self.rpo()
        dom = {b: None for b in reach}
        dom[0] = {0}
        changed = True
        while changed:
            changed = False
            for b in order:
                if b == 0:
                    continue
                ps = [dom[p] for p in self.pred[b] if p in dom and dom[p] is not None]
                if not ps:
                    continue
                new = set.intersection(*ps) | {b}
                if new != dom[b]:
                    dom[b] = new
                    changed = True
        self._dom = dom
        return dom

    def rpo(self):
        seen = set()
        out = []
        stack = [(0, iter(self.succ[0]))]
        seen.add(0)
        while stack:
            b, it = stack[-1]
            adv = False
            for s in it:
                if s not in seen:
                    seen.add(s)
                    stack.append((s, iter(self.succ[s])))
                    adv = True
                    break
            if not adv:
                out.append(b)
                stack.pop()
        out.reverse()
        return out

    def dominates(self, a, b):
        d = self.dominators().get(b)
        return d is not None and a in d

    def return_blocks(self):
        reach = self.reachable(0)
        return [i for i in reach if self.blocks[i]["term"]["k"] == "return"]

    def on_cycle(self, bb):
        """Is bb on a CFG cycle?"""
        return bb in self.reachable(self.succ[bb]) if self.succ[bb] else False

    # ---- calls ----------------------------------------------------------------------
    def calls(self, only_reachable=True):
        """Yield (bb, term) for call terminators."""
        reach = self.reachable(0) if only_reachable else range(self.n)
        for i in sorted(reach):
            t = self.blocks[i]["term"]
            if t["k"] == "call":
                yield i, t

    @staticmethod
    def callee_qs(t):
        f = t["f"]
        out = []
        if "q" in f:
            out.append(f["q"])
            r = f.get("resolved")
            if r:
                out.append(r["q"])
        return out

    def calls_to(self, pred):
        """pred: callable(q)->bool or a set/str of q names."""
        if isinstance(pred, str):
            names = {pred}
            pred = lambda q: q in names
        elif isinstance(pred, (set, frozenset, list, tuple)):
            names = set(pred)
            pred = lambda q: q in names
        for i, t in self.calls():
            if any(pred(q) for q in self.callee_qs(t)):
                yield i, t

    # ---- definitions / expressions ---------------------------------------------------
    def defs(self):
        """local -> list of (bb, stmt_index or 'term', kind, payload) for whole-local defs;
        partial (projection) assignments are recorded under self.partial."""
        if self._defs is not None:
            return self._defs
        defs = defaultdict(list)
        partial = defaultdict(list)
        for i, b in enumerate(self.blocks):
            for si, s in enumerate(b["stmts"]):
                if s["k"] == "assign":
                    d = s["dst"]
                    if not d["p"]:
                        defs[d["l"]].append((i, si, "rv", s["rv"]))
                    elif d["p"][0] != "*":
                        partial[d["l"]].append((i, si, s))
                elif s["k"] == "setdiscr" and (not s["dst"]["p"] or s["dst"]["p"][0] != "*"):
                    partial[s["dst"]["l"]].append((i, si, s))
            t = b["term"]
            if t["k"] == "call":
                d = t["dst"]
                if not d["p"]:
                    defs[d["l"]].append((i, "term", "call", t))
                elif d["p"][0] != "*":
                    partial[d["l"]].append((i, "term", t))
        self._defs = defs
        self.partial = partial
        return defs

    def local_expr(self, l, depth=0):
        key = l
        if key in self._expr_cache:
            return self._expr_cache[key]
        if depth > 40:
            return UNKNOWN
        self._expr_cache[key] = E("local", local=l)  # cycle guard
        if 1 <= l <= self.argc:
            ds = self.defs().get(l, [])
            if not ds and not self.partial.get(l):
                r = E("param", idx=l, ty=self.locals[l]["ty"])
                self._expr_cache[key] = r
                return r
        ds = self.defs().get(l, [])
        if len(ds) == 1 and not self.partial.get(l):
            bb, si, kind, payload = ds[0]
            if kind == "rv":
                r = self.rvalue_expr(payload, depth + 1)
            else:
                r = self.call_expr(bb, payload, depth + 1)
        elif len(ds) == 0 and not self.partial.get(l) and 1 <= l <= self.argc:
            r = E("param", idx=l, ty=self.locals[l]["ty"])
        else:
            alts = []
            for bb, si, kind, payload in ds[:8]:
                if kind == "rv":
                    alts.append(self.rvalue_expr(payload, depth + 1))
                else:
                    alts.append(self.call_expr(bb, payload, depth + 1))
            r = E("multi", local=l, alts=alts, ty=self.locals[l]["ty"])
        self._expr_cache[key] = r
        return r

    def place_expr(self, p, depth=0):
        e = self.local_expr(p["l"], depth)
        for pr in p["p"]:
            if pr == "*":
                if e.k == "ref":
                    e = e.a
                else:
                    e = E("deref", a=e)
            elif isinstance(pr, dict):
                if "f" in pr:
                    # field of an aggregate we can see through
                    if e.k == "agg" and e.args is not None and pr["f"] < len(e.args) and e.ak in ("tuple", "adt", "closure"):
                        e = e.args[pr["f"]]
                    elif e.k == "bin" and e.op.endswith("WithOverflow") and pr["f"] == 0:
                        e = E("bin", op=e.op[:-len("WithOverflow")], a=e.a, b=e.b)
                    else:
                        e = E("field", a=e, name=pr.get("n"), idx=pr["f"], owner=pr.get("o"), variant=pr.get("v"))
                elif "d" in pr:
                    if e.k == "multi" and e.alts and all(a.k == "agg" and a.variant is not None for a in e.alts):
                        # `(x as Ok).0` where x was assigned Ok(e1) on one path and Err(e2) on another (a helper's result):
                        # the payload read here is e1
                        sel = [a for a in e.alts if a.variant == pr.get("d")]
                        if len(sel) == 1:
                            e = sel[0]
                            continue
                    e = E("downcast", a=e, variant=pr.get("d"), idx=pr.get("i"))
                elif "ix" in pr:
                    e = E("index", a=e, b=self.local_expr(pr["ix"], depth + 1))
                elif "ci" in pr:
                    e = E("index", a=e, b=E("const", v=pr["ci"], ty="usize"))
                else:
                    e = E("unknown")
            else:
                e = E("unknown")
        return e

    def _promoted_expr(self, idx):
        """value of a promoted constant (`&Some(0)`, `&[1, 2]`): its straight-line body evaluated symbolically"""
        proms = self.j.get("promoted") or []
        if not (0 <= idx < len(proms)):
            return None
        stmts = proms[idx]
        defs = {}
        for st in stmts:
            if not st["dst"]["p"]:
                defs[st["dst"]["l"]] = st["rv"]

        def op_e(op, depth):
            if depth > 12:
                return UNKNOWN
            p = op.get("c") or op.get("m")
            if p is not None:
                return UNKNOWN if p["p"] else loc_e(p["l"], depth + 1)
            if "k" in op:
                k = op["k"]
                return E("const", v=k.get("v"), ty=k["ty"], name=k.get("s"))
            return UNKNOWN

        def loc_e(l, depth):
            rv = defs.get(l)
            if rv is None or depth > 12:
                return UNKNOWN
            k = rv["k"]
            if k == "use":
                return op_e(rv["a"], depth)
            if k == "ref":
                return UNKNOWN if rv["p"]["p"] else E("ref", a=loc_e(rv["p"]["l"], depth + 1), mut=rv.get("mut"))
            if k == "agg":
                return E("agg", ak=rv["ak"], adt=rv.get("adt"), variant=rv.get("variant"), fields=rv.get("fields"),
                         args=[op_e(o, depth + 1) for o in rv["ops"]])
            if k == "cast":
                return E("cast", a=op_e(rv["a"], depth + 1), ty=rv["ty"], op=rv["ck"])
            return UNKNOWN
        return loc_e(0, 0)

    def operand_expr(self, op, depth=0):
        if "c" in op:
            return self.place_expr(op["c"], depth)
        if "m" in op:
            return self.place_expr(op["m"], depth)
        if "k" in op:
            k = op["k"]
            if "fn" in k:
                return E("const", q=k["fn"]["q"], f=k["fn"], ty=k["ty"])
            if "promoted" in k:
                pe = self._promoted_expr(k["promoted"])
                if pe is not None:
                    return pe
            return E("const", v=k.get("v"), ty=k["ty"], name=k.get("s"))
        if "rc" in op:
            return E("const", ty="bool", name="rc:" + op["rc"])
        return UNKNOWN

    def rvalue_expr(self, rv, depth=0):
        k = rv["k"]
        if k == "use":
            return self.operand_expr(rv["a"], depth)
        if k in ("ref", "rawptr"):
            inner = self.place_expr(rv["p"], depth)
            if inner.k == "deref":
                return inner.a  # &*x == x
            return E("ref", a=inner, mut=rv.get("mut"))
        if k == "bin":
            return E("bin", op=rv["op"], a=self.operand_expr(rv["a"], depth), b=self.operand_expr(rv["b"], depth))
        if k == "un":
            return E("un", op=rv["op"], a=self.operand_expr(rv["a"], depth))
        if k == "cast":
            return E("cast", a=self.operand_expr(rv["a"], depth), ty=rv["ty"], op=rv["ck"])
        if k == "discr":
            return E("discr", a=self.place_expr(rv["p"], depth))
        if k == "agg":
            return E("agg", ak=rv["ak"], adt=rv.get("adt"), variant=rv.get("variant"),
                     fields=rv.get("fields"), q=rv.get("closure"),
                     args=[self.operand_expr(o, depth) for o in rv["ops"]])
        if k == "repeat":
            return E("agg", ak="repeat", args=[self.operand_expr(rv["a"], depth)])
        return UNKNOWN

    def call_expr(self, bb, t, depth=0):
        f = t["f"]
        if "q" in f:
            q = f["q"]
            rq = f.get("resolved", {}).get("q")
        else:
            q = None
            rq = None
        return E("call", q=q, rq=rq, f=f, bb=bb,
                 args=[self.operand_expr(a, depth) for a in t["args"]])


# --------------------------------------------------------------------------------------
# Expression helpers
# --------------------------------------------------------------------------------------
TRANSPARENT_CALLS = {
    "std::ops::Deref::deref", "std::ops::DerefMut::deref_mut", "std::borrow::Borrow::borrow",
    "std::convert::AsRef::as_ref", "std::convert::AsMut::as_mut", "std::convert::Into::into",
    "std::convert::From::from", "std::borrow::BorrowMut::borrow_mut",
    "std::iter::IntoIterator::into_iter",
}
OKVAL_CALLS = {
    "std::result::Result::unwrap", "std::result::Result::expect", "std::option::Option::unwrap",
    "std::option::Option::expect", "std::result::Result::unwrap_unchecked",
}


def peel(e, through_try=True, through_casts=True):
    """Strip refs, derefs, transparent calls, casts, and `?`/unwrap to the underlying value."""
    n = 0
    while e is not None and n < 60:
        n += 1
        k = e.k
        if k in ("ref", "deref"):
            e = e.a
        elif k == "cast" and through_casts:
            e = e.a
        elif k == "call" and e.q in TRANSPARENT_CALLS and e.args:
            e = e.args[0]
        elif k == "call" and e.q == "std::clone::Clone::clone" and e.args:
            e = e.args[0]
        elif through_try and k == "call" and e.q in OKVAL_CALLS and e.args:
            e = e.args[0]
        elif through_try and k == "call" and e.q == "std::ops::Try::branch" and e.args:
            e = e.args[0]
        elif through_try and k == "field" and e.a is not None and e.a.k == "downcast" and e.a.variant in ("Continue", "Ok", "Some") and e.idx == 0:
            e = e.a.a
        elif k == "multi" and e.alts and len(e.alts) == 1:
            e = e.alts[0]
        else:
            break
    return e


def walk(e, seen=None, depth=0):
    """Yield all sub-expressions (pre-order)."""
    if e is None or depth > 60:
        return
    if seen is None:
        seen = set()
    if id(e) in seen:
        return
    seen.add(id(e))
    yield e
    for c in (e.a, e.b):
        if c is not None:
            yield from walk(c, seen, depth + 1)
    for lst in (e.args, e.alts):
        if lst:
            for c in lst:
                yield from walk(c, seen, depth + 1)


def self_field_path(e):
    """If e (after peeling) is a chain of fields rooted in param 1 (self), return the list of
    field names, else None."""
    e = peel(e)
    names = []
    n = 0
    while e is not None and n < 30:
        n += 1
        if e.k == "field":
            names.append(e.name if e.name is not None else str(e.idx))
            e = peel(e.a)
        elif e.k == "param" and e.idx == 1:
            names.reverse()
            return names
        elif e.k in ("index",):
            e = peel(e.a)
        else:
            return None
    return None


def contains_call(e, qs):
    for x in walk(e):
        if x.k == "call" and (x.q in qs or x.rq in qs):
            return x
    return None


# --------------------------------------------------------------------------------------
class Facts:
    """All bodies of one fact file (one crate, one config)."""

    def __init__(self, path, strip_prefix=None):
        raw = open(path).read()
        if strip_prefix:
            raw = raw.replace(strip_prefix, "")
        self.j = json.loads(raw)
        self.crate = self.j["crate"]
        self.path = path
        self.bodies = [Body(b, self.crate) for b in self.j["bodies"]]
        self.by_q = defaultdict(list)
        for b in self.bodies:
            self.by_q[b.q].append(b)
        self.by_path = {b.path: b for b in self.bodies}
        self.adts = {a["path"]: a for a in self.j["adts"]}
        for a in self.adts.values():
            _parse_rr_attrs(a)
        self.impls = self.j["impls"]
        self.fns = self.j["fns"]
        self.closures_of = defaultdict(list)
        for b in self.bodies:
            if b.kind == "closure" and b.parent_q:
                self.closures_of[b.parent["path"]].append(b)

    def body(self, q):
        bs = self.by_q.get(q)
        if not bs:
            return None
        return bs[0]

    def bodies_named(self, name):
        return [b for b in self.bodies if b.name == name]

    def impl_bodies(self, trait, method, raw=False):
        """All bodies implementing trait::method.  For Block::work the hand-written bodies come as their *work view*
        (effects.work_view: helpers that move stream data and the block's own methods substituted in), so that the path rules
        see `self.emit(window, ..)` / `let Some(x) = take_u32(i) else ..` as the one piece of code they are; raw=True gives
        the bodies as compiled (used where results are keyed by function, e.g. the C15 audit)."""
        out = [b for b in self.bodies if b.kind == "traitimpl" and b.trait == trait and b.name == method]
        if raw or not (trait == "block::Block" and method == "work") or not getattr(self, "use_views", False):
            return out
        from . import effects
        return [b if b.from_derive else effects.work_view(self, b, methods=True) for b in out]

    def closures_in(self, body):
        """All closure bodies whose typeck root is `body` (transitively nested)."""
        return self.closures_of.get(body.path, [])

    def callers_of(self, pred):
        """Yield (body, bb, term) of every call site in the crate matching pred."""
        if isinstance(pred, str):
            names = {pred}
            pred = lambda q: q in names
        elif isinstance(pred, (set, frozenset, list, tuple)):
            names = set(pred)
            pred = lambda q: q in names
        for b in self.bodies:
            for i, t in b.calls():
                if any(pred(q) for q in Body.callee_qs(t)):
                    yield b, i, t


def same_expr(a, b, depth=0):
    """Structural equality of two origin expressions (conservative: False when unsure)."""
    if a is None or b is None or depth > 25:
        return False
    a = peel(a, through_try=False)
    b = peel(b, through_try=False)
    if a is b:
        return True
    if a.k != b.k:
        return False
    k = a.k
    if k == "param":
        return a.idx == b.idx
    if k == "const":
        return a.v is not None and a.v == b.v and a.q == b.q
    if k == "field":
        return a.idx == b.idx and a.owner == b.owner and same_expr(a.a, b.a, depth + 1)
    if k == "downcast":
        return a.variant == b.variant and same_expr(a.a, b.a, depth + 1)
    if k in ("deref", "ref", "cast", "discr"):
        return same_expr(a.a, b.a, depth + 1)
    if k == "index":
        return same_expr(a.a, b.a, depth + 1) and same_expr(a.b, b.b, depth + 1)
    if k == "call":
        if a.bb is not None and a.bb == b.bb and a.q == b.q:
            return True
        # argument-less associated consts-as-functions (Sample::size(), size_of::<T>()) are the same value
        if a.q is not None and a.q == b.q and (a.rq == b.rq) and not a.args and not b.args:
            return True
        return False
    if k == "bin":
        return a.op == b.op and same_expr(a.a, b.a, depth + 1) and same_expr(a.b, b.b, depth + 1)
    if k == "un":
        return a.op == b.op and same_expr(a.a, b.a, depth + 1)
    if k in ("local", "multi"):
        return a.local == b.local
    return False


_RR = re.compile(r"#\[\s*rustradio\s*\(([^)]*)\)\s*\]")


def _parse_rr_attrs(adt):
    """Derive helper attributes are not kept in HIR; recover `#[rustradio(..)]` of the struct and of each
    field from the item's own source text (emitted verbatim by E1)."""
    pre = adt.get("pre") or ""
    # only the attribute block directly above the item (stop at the first line that is not attr/doc/blank)
    lines = pre.split("\n")
    blk = []
    for ln in reversed(lines):
        t = ln.strip()
        if t.startswith("#[") or t.startswith("///") or t.startswith("//") or t == "" or t.endswith("]"):
            blk.append(t)
        else:
            break
    sattrs = []
    for t in blk:
        if t.startswith("#["):
            for m in _RR.finditer(t):
                sattrs += [x.strip() for x in m.group(1).split(",") if x.strip()]
    adt["rr"] = sattrs
    src = adt.get("src") or ""
    if adt["kind"] != "struct" or not adt["variants"]:
        return
    # strip comments
    body = re.sub(r"//[^\n]*", "", src)
    i = body.find("{")
    body = body[i + 1:] if i >= 0 else ""
    for f in adt["variants"][0]["fields"]:
        m = re.search(r"((?:#\[[^\]]*\]\s*)*)(?:pub(?:\([^)]*\))?\s+)?\b%s\s*:" % re.escape(f["name"]), body)
        attrs = []
        if m:
            for mm in _RR.finditer(m.group(1)):
                attrs += [x.strip() for x in mm.group(1).split(",") if x.strip()]
        f["rr"] = attrs
