"""Path-sensitive abstract interpretation of ONE counter-like self field (analysis F).

Domain: subsets of {N (Option::None), Z (zero / Some(0)), P (positive / Some(>0))} for a field `self.F` of type
`Option<uint>` or `uint`.  Explicit-state search over (block, subset); switch edges on `discr(self.F)`, on the payload
`(self.F as Some).0`, on `self.F` itself and on comparisons of those with 0 refine the subset, infeasible edges are pruned;
assignments `self.F = None | Some(c) | Some(x) | c | x` set it; anything that may write the field behind our back
(a `&mut` borrow of self or of the field, a call receiving such a borrow) resets it to "anything".

Used to discharge `payload - 1` / `field - 1` sites: safe when no reached state at the site contains Z (and N never reaches a
payload read).  At function entry the field may hold anything (it persists between work() calls)."""
from .common import *
from .mir import peel, show, walk, self_field_path, E

UINTS = {"u8", "u16", "u32", "u64", "u128", "usize"}
N, Z, P = 1, 2, 4
ALL = N | Z | P


def _field_of(e):
    """('discr'|'payload'|'value', field name) when e reads self.<F> that way"""
    if e is None:
        return None
    if e.k == "discr":
        fp = self_field_path(e.a)
        if fp and len(fp) == 1:
            return ("discr", fp[0])
    if e.k == "field" and e.owner == "std::option::Option" and e.variant == "Some" and e.a is not None and e.a.k == "downcast":
        fp = self_field_path(e.a.a)
        if fp and len(fp) == 1:
            return ("payload", fp[0])
    fp = self_field_path(e)
    if fp and len(fp) == 1 and e.k in ("field",):
        return ("value", fp[0])
    return None


def _strip(e):
    p = e
    while p is not None and p.k in ("cast",) and p.a is not None:
        p = p.a
    return p


def _is_zero(e):
    p = peel(e, through_try=False)
    return p is not None and p.k == "const" and p.v == 0 and not isinstance(p.v, bool)


def site_field(e):
    """field name if e is `(self.F as Some).0` or `self.F` (through copies)"""
    p = _strip(peel(e, through_try=False))
    r = _field_of(p)
    if r and r[0] in ("payload", "value"):
        return r
    return None


class FieldSearch:
    def __init__(self, facts, body, field, init=None, depth=0):
        self.facts, self.body, self.field = facts, body, field
        self.init, self.depth = init, depth
        self.opt = None
        a = facts.adts.get(body.self_adt)
        if a and a["kind"] == "struct":
            for f in a["variants"][0]["fields"]:
                if f["name"] == field:
                    ty = f["ty"]["s"]
                    if ty.startswith("std::option::Option<") and ty[len("std::option::Option<"):-1] in UINTS:
                        self.opt = True
                    elif ty in UINTS:
                        self.opt = False
        self.states = {}     # bb -> set of subsets at block ENTRY
        self.ok = self.opt is not None
        if self.ok:
            self._run()

    # ---- transfer -----------------------------------------------------------------
    def _assign_value(self, rv, bb):
        """abstract value of an rvalue assigned to the field"""
        body = self.body
        e = peel(body.rvalue_expr(rv), through_try=False)
        return self._abs_of(e)

    def _abs_of(self, e, depth=0):
        if e is None or depth > 6:
            return ALL if self.opt else (Z | P)
        if self.opt:
            if e.k == "agg" and e.adt == "std::option::Option":
                if e.variant == "None":
                    return N
                if e.variant == "Some" and e.args:
                    x = peel(e.args[0], through_try=False)
                    if x.k == "const" and isinstance(x.v, int) and not isinstance(x.v, bool):
                        return Z if x.v == 0 else P
                    return Z | P
            if e.k == "multi" and e.alts:
                r = 0
                for a in e.alts:
                    r |= self._abs_of(peel(a, through_try=False), depth + 1)
                return r
            return ALL
        if e.k == "const" and isinstance(e.v, int) and not isinstance(e.v, bool):
            return Z if e.v == 0 else P
        return Z | P

    def _block_transfer(self, bb, S):
        """apply the statements of bb; returns S at the terminator"""
        body = self.body
        for s_ in body.blocks[bb]["stmts"]:
            if s_["k"] != "assign":
                continue
            d, rv = s_["dst"], s_["rv"]
            pj = d["p"]
            if d["l"] == 1 and len(pj) >= 2 and pj[0] == "*" and isinstance(pj[1], dict) and pj[1].get("n") == self.field:
                if len(pj) == 2:
                    S = self._assign_value(rv, bb)
                else:
                    S = ALL if self.opt else (Z | P)       # write into the payload
            if rv["k"] in ("ref", "rawptr") and rv.get("mut") and rv["p"]["l"] == 1:
                pp = rv["p"]["p"]
                whole = len(pp) <= 1
                fld = len(pp) >= 2 and isinstance(pp[1], dict) and pp[1].get("n") == self.field
                if whole or fld:
                    S = ALL if self.opt else (Z | P)
        return S

    def _edges(self, bb, S):
        """[(succ, S')] after the terminator of bb"""
        body = self.body
        t = body.term(bb)
        k = t["k"]
        if k == "switch":
            e = peel(switch_discr_expr(body, bb), through_try=False)
            neg = False
            while e is not None and e.k == "un" and e.op == "Not":
                neg = not neg
                e = peel(e.a, through_try=False)
            r = _field_of(_strip(e)) if e is not None else None
            out = []
            if r and r[1] == self.field and self._fresh(e, bb):
                kind = r[0]
                for val, tgt in t["targets"]:
                    out.append((tgt, self._refine(S, kind, val, True)))
                seen_vals = [v for v, _ in t["targets"]]
                out.append((t["else"], self._refine_else(S, kind, seen_vals)))
                return [(b, s) for b, s in out if s]
            # `self.F == Some(c)` / `self.F == None` (PartialEq on the Option)
            if e is not None and e.k == "call" and (e.q or "") in ("std::cmp::PartialEq::eq", "std::cmp::PartialEq::ne") and len(e.args) == 2 \
                    and t.get("dty") == "bool" and self.opt:
                for x, y in ((e.args[0], e.args[1]), (e.args[1], e.args[0])):
                    px = x
                    while px is not None and px.k in ("ref", "deref"):
                        px = px.a
                    fpx = self_field_path(px) if px is not None else None
                    py = y
                    while py is not None and py.k in ("ref", "deref"):
                        py = py.a
                    if fpx == [self.field] and py is not None and py.k == "agg" and py.adt == "std::option::Option":
                        val = self._abs_of(py)
                        if val in (N, Z, P) and val != P:          # == Some(nonzero const) does not pin the class
                            bt = bool_edge_targets(body, bb)
                            if bt:
                                is_ne = e.q.endswith("::ne")
                                tr, fa = (bt[1], bt[0]) if (neg != is_ne) else (bt[0], bt[1])
                                return [(b, s_) for b, s_ in ((tr, S & val), (fa, S & ~val)) if s_]
            # comparison with zero: payload/value {==,!=,>,<=,..} 0
            if e is not None and e.k == "bin" and e.op in ("Eq", "Ne", "Gt", "Lt", "Ge", "Le") and t.get("dty") == "bool":
                for x, y, op in ((e.a, e.b, e.op), (e.b, e.a, {"Gt": "Lt", "Lt": "Gt", "Ge": "Le", "Le": "Ge"}.get(e.op, e.op))):
                    rx = _field_of(_strip(peel(x, through_try=False)))
                    if rx and rx[1] == self.field and rx[0] in ("payload", "value") and _is_zero(y) and self._fresh(x, bb):
                        bt = bool_edge_targets(body, bb)
                        if not bt:
                            break
                        tr, fa = (bt[1], bt[0]) if neg else (bt[0], bt[1])
                        # truth of `x op 0` for unsigned x
                        if op in ("Eq", "Le"):
                            st, sf = S & ~P, S & ~Z
                        elif op in ("Ne", "Gt"):
                            st, sf = S & ~Z, S & ~P
                        elif op == "Ge":
                            st, sf = S, 0
                        else:   # Lt 0: never
                            st, sf = 0, S
                        if rx[0] == "payload":
                            st, sf = st & ~N, sf & ~N
                        return [(b, s) for b, s in ((tr, st), (fa, sf)) if s]
            return [(x, S) for x in body.succ[bb] if body.term(x)["k"] != "unreachable" or True]
        if k == "call":
            # a call receiving &mut self / &mut self.F may change the field
            for a_ in t["args"]:
                e = body.operand_expr(a_)
                p = e
                if p is not None and p.k == "ref" and p.mut:
                    fp = self_field_path(p.a)
                    if fp is not None and (len(fp) == 0 or fp[0] == self.field):
                        S = ALL if self.opt else (Z | P)
                elif p is not None and p.k == "param" and p.idx == 1:
                    S = self._call_summary(t, S)
            return [(x, S) for x in body.succ[bb]]
        return [(x, S) for x in body.succ[bb]]

    def _call_summary(self, t, S):
        """state of the field after a call that receives `self` (a method of the same type): the callee is searched with the
        current state as its entry state; unknown callees reset the field to 'anything'"""
        top = ALL if self.opt else (Z | P)
        if self.depth >= 2:
            return top
        qs = Body.callee_qs(t)
        cands = []
        for q in qs:
            for cb in self.facts.by_q.get(q, []):
                if cb.self_adt == self.body.self_adt and cb.kind != "closure":
                    cands.append(cb)
        if len(cands) != 1:
            return top
        cb = cands[0]
        key = (id(self.facts), cb.path, self.field, S)
        r = _summary_cache.get(key)
        if r is None:
            fs = FieldSearch(self.facts, cb, self.field, init=S, depth=self.depth + 1)
            if not fs.ok:
                r = top
            else:
                r = 0
                for bb2 in fs.states:
                    if cb.term(bb2)["k"] == "return":
                        r |= fs.at_term(bb2)
                r = r or top
            _summary_cache[key] = r
        return r

    def _refine(self, S, kind, val, eq):
        if kind == "discr":
            return S & (N if val == 0 else (Z | P))
        # payload / value
        r = S & (Z if val == 0 else P)
        return r

    def _refine_else(self, S, kind, vals):
        if kind == "discr":
            r = S
            if 0 in vals:
                r &= ~N
            if 1 in vals:
                r &= ~(Z | P)
            return r
        r = S
        if 0 in vals:
            r &= ~Z
        if kind == "payload":
            r &= ~N
        return r

    def _fresh(self, e, bb):
        """the value tested was read from the field with no write of the field since: every local on the way was defined in a
        block from which the switch is reached without passing a write of the field"""
        body = self.body
        reads = [x.bb for x in walk(e) if getattr(x, "bb", None) is not None]
        # field writes
        w = self._writes()
        if not w:
            return True
        # conservative: expression origins are recomputed per use from single-def locals; accept when no write block lies
        # strictly between a defining block of the discriminant local and bb
        t = body.term(bb)
        p = t["d"].get("c") or t["d"].get("m") if "d" in t else None
        if p is None or p["p"]:
            return True
        for dbb, si, kind, payload in body.defs().get(p["l"], []):
            if dbb == bb:
                continue
            between = body.reachable(dbb) & self._coreach(bb)
            if any(x in between and x != dbb for x in w):
                return False
        return True

    def _coreach(self, bb):
        c = getattr(self, "_cr", None)
        if c is None:
            c = self._cr = {}
        if bb not in c:
            seen = {bb}
            st = [bb]
            while st:
                x = st.pop()
                for p_ in self.body.pred[x]:
                    if p_ not in seen:
                        seen.add(p_)
                        st.append(p_)
            c[bb] = seen
        return c[bb]

    def _writes(self):
        w = getattr(self, "_w", None)
        if w is None:
            w = set()
            for bb in self.body.reachable(0):
                for s_ in self.body.blocks[bb]["stmts"]:
                    if s_["k"] == "assign" and s_["dst"]["l"] == 1:
                        pj = s_["dst"]["p"]
                        if len(pj) >= 2 and isinstance(pj[1], dict) and pj[1].get("n") == self.field:
                            w.add(bb)
            self._w = w
        return w

    # ---- search ---------------------------------------------------------------------
    def _run(self):
        init = self.init if self.init is not None else (ALL if self.opt else (Z | P))
        stack = [(0, init)]
        seen = set()
        while stack:
            bb, S = stack.pop()
            if (bb, S) in seen:
                continue
            seen.add((bb, S))
            if len(seen) > 100000:
                self.ok = False
                return
            self.states.setdefault(bb, set()).add(S)
            S2 = self._block_transfer(bb, S)
            for nb, ns in self._edges(bb, S2):
                if ns:
                    stack.append((nb, ns))

    def at_term(self, bb):
        """union of the abstract values at the terminator of bb over all reaching states"""
        r = 0
        for S in self.states.get(bb, ()):
            r |= self._block_transfer(bb, S)
        return r


_cache = {}
_summary_cache = {}


def positive_at(facts, body, bb, e):
    """e reads `self.F` / its Some-payload and on every path reaching bb the value is > 0"""
    r = site_field(e)
    if not r:
        return False
    key = (id(facts), body.path, r[1])
    fs = _cache.get(key)
    if fs is None:
        fs = _cache[key] = FieldSearch(facts, body, r[1])
    if not fs.ok or bb not in fs.states:
        return False
    # the value used at the site was read from the field earlier: no write of the field between that read and the site
    readers = set()
    for b2 in body.reachable(0):
        for s_ in body.blocks[b2]["stmts"]:
            if s_["k"] == "assign" and s_["rv"]["k"] == "use":
                x = body.rvalue_expr(s_["rv"])
                rr = _field_of(_strip(x)) if x is not None else None
                if rr and rr[1] == r[1] and rr[0] == r[0]:
                    readers.add(b2)
    w = fs._writes()
    for rd in readers:
        if rd == bb:
            continue
        fwd = body.reachable(rd, avoid={rd})
        if bb not in fwd:
            continue
        for wb in w:
            if wb in fwd and wb not in (rd, bb) and bb in body.reachable(wb, avoid={rd}):
                return False
    v = fs.at_term(bb)
    if r[0] == "payload":
        return v != 0 and (v & (Z | N)) == 0
    return v != 0 and (v & Z) == 0 and not fs.opt
