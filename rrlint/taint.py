"""Analysis F: content taint (explicit flows only), flow-insensitive, field-based, interprocedural.

Two bits per local: 'C' = the value / the contents of the container depend on input content,
'L' = the *length* of the container depends on input content.  Window lengths are not content.
"""
from collections import defaultdict

from .common import *
from .mir import Body

C, L = "C", "L"
CL = frozenset((C, L))
FC = frozenset((C,))
NONE = frozenset()

READER = "circular_buffer::BufferReader"
WRITER = "circular_buffer::BufferWriter"

SRC_CONTENT = {  # callee q -> bits given to the destination
    READER + "::slice": FC,
    READER + "::iter": FC,
    "<%s as std::ops::Index>::index" % READER: FC,
    "stream::NCReadStream::pop": CL,
    "stream::NCReadStream::peek_size": FC,
    "stream::Tag::pos": FC, "stream::Tag::key": FC, "stream::Tag::val": FC,   # tags are upstream content
    "serde_json::from_str": CL, "serde_json::from_reader": CL, "serde_json::from_slice": CL,
    "std::fs::Metadata::len": FC,
    "std::fs::read_to_string": CL, "std::fs::read": CL,
}
READ_INTO = {"read": False, "read_exact": False, "read_to_end": True, "read_to_string": True, "read_line": True, "read_buf": False}
CLEAN_ALWAYS = {READER + "::len", READER + "::is_empty", WRITER + "::len", WRITER + "::is_empty", WRITER + "::slice",
                "stream::WriteStream::write_buf", "stream::WriteStream::free", "stream::ReadStream::total_size",
                "std::mem::size_of", "std::mem::size_of_val", "std::mem::align_of", "Sample::size"}
LEN_NAMES = {"len", "is_empty", "count"}
LEN_FROM_CONTENT = {"filter", "take_while", "skip_while", "partition", "filter_map", "flat_map", "dedup", "dedup_by", "dedup_by_key",
                    "split", "splitn", "rsplit", "split_whitespace", "lines", "chunk_by", "retain", "map_while", "position", "find",
                    "max_by", "min_by", "max_by_key", "min_by_key", "rposition", "find_map", "skip", "take", "step_by", "group_by",
                    "trim", "trim_start", "trim_end", "strip_prefix", "strip_suffix", "parse"}
LEN_FROM_ARG = {"resize", "truncate", "with_capacity", "drain", "split_off", "split_at", "repeat", "take", "skip", "reserve", "set_len"}
PARSER_PARAMS = {  # function q -> {param index: bits}
    "sigmf::parse_meta": {1: CL},
}


def _fld_ok(pr):
    """named field of a crate-local ADT (std internals such as Box.0.pointer would merge every Box in the program)"""
    return isinstance(pr, dict) and pr.get("n") is not None and pr.get("o") and not pr["o"].startswith(("std::", "core::", "alloc::", "closure:"))


class Taint:
    def __init__(self, facts, entry_param_taint=None):
        self.facts = facts
        self.T = defaultdict(lambda: defaultdict(set))   # body.path -> local -> bits
        self.F = defaultdict(set)                        # (adt, field) -> bits
        self.R = defaultdict(set)                        # body.path -> bits of return
        self.closure_env = {}                            # closure path -> (parent body, [operands])
        self.closure_args = defaultdict(set)             # closure path -> bits for its item params
        self.entry = dict(PARSER_PARAMS)
        if entry_param_taint:
            self.entry.update(entry_param_taint)
        self._prepare()
        self._run()

    # -----------------------------------------------------------------------------------
    def _prepare(self):
        f = self.facts
        for b in f.bodies:
            for blk in b.blocks:
                for s in blk["stmts"]:
                    if s["k"] == "assign" and s["rv"]["k"] == "agg" and s["rv"].get("ak") == "closure":
                        self.closure_env[s["rv"]["closure"]] = (b, s["rv"]["ops"])
        # Sample::parse(data) and il2p Header::parse: data is content
        for b in f.bodies:
            if b.name == "parse" and (b.trait == "Sample" or (b.self_adt or "").startswith("il2p_deframer::")):
                self.entry.setdefault(b.q, {1: CL})

    def bits_place(self, b, p, for_len=False):
        bits = set(self.T[b.path][p["l"]])
        # field reads through self: field-based global taint
        projs = p["p"]
        for pr in projs:
            if _fld_ok(pr):
                bits |= self.F[(pr["o"], pr["n"])]
        if b.kind == "closure" and p["l"] == 1:
            # upvar read: (*_1).i  or _1.i
            env = self.closure_env.get(b.path)
            for pr in projs:
                if isinstance(pr, dict) and "f" in pr and pr.get("o", "").startswith("closure:") and env:
                    pb, ops = env
                    if pr["f"] < len(ops):
                        bits |= self.bits_op(pb, ops[pr["f"]])
                    break
        return bits

    def bits_op(self, b, op):
        p = op.get("c") or op.get("m")
        if p is not None:
            return self.bits_place(b, p)
        return set()

    def _root(self, b, l, depth=0):
        """Follow `_x = &mut _y` / `&_y` / copies to the local whose storage is referenced."""
        seen = set()
        cur = l
        via_self_field = None
        while depth < 12 and cur not in seen:
            seen.add(cur)
            depth += 1
            ds = b.defs().get(cur, [])
            if len(ds) != 1:
                break
            _, _, kind, payload = ds[0]
            if kind != "rv":
                # DerefMut::deref_mut(&mut v) / index_mut / as_mut ...: follow first arg
                t = payload
                nm = t["f"].get("name")
                if nm in ("deref_mut", "deref", "as_mut", "as_mut_slice", "index_mut", "as_mut_ptr", "borrow_mut", "iter_mut", "by_ref") and t["args"]:
                    p = t["args"][0].get("c") or t["args"][0].get("m")
                    if p is None:
                        break
                    cur = p["l"]
                    continue
                break
            rv = payload
            if rv["k"] in ("ref", "rawptr"):
                p = rv["p"]
                fld = [pr for pr in p["p"] if _fld_ok(pr)]
                if fld:
                    via_self_field = (fld[-1]["o"], fld[-1]["n"])
                cur = p["l"]
                if via_self_field:
                    break
            elif rv["k"] in ("use", "cast"):
                p = rv["a"].get("c") or rv["a"].get("m")
                if p is None:
                    break
                fld = [pr for pr in p["p"] if _fld_ok(pr)]
                if fld:
                    via_self_field = (fld[-1]["o"], fld[-1]["n"])
                    cur = p["l"]
                    break
                cur = p["l"]
            else:
                break
        return cur, via_self_field

    def _trace(self, what, b, extra=""):
        import os
        tr = os.environ.get("RR_TAINT_TRACE")
        if tr and tr in what:
            print("TAINT-TRACE %s in %s %s" % (what, b.q, extra))

    def _add(self, b, l, bits):
        if not bits:
            return False
        cur = self.T[b.path][l]
        if bits <= cur:
            return False
        cur |= bits
        self._trace("local:%s:_%d" % (b.q, l), b, "bits %s" % sorted(bits))
        return True

    def _add_through(self, b, l, bits):
        """taint the storage a reference local points to (and the local itself)"""
        ch = self._add(b, l, bits)
        root, fld = self._root(b, l)
        if root != l:
            ch |= self._add(b, root, bits)
        if fld and not (bits <= self.F[fld]):
            self.F[fld] |= bits
            self._trace("%s.%s" % fld, b, "via reference local _%d" % l)
            ch = True
        return ch

    # -----------------------------------------------------------------------------------
    def _run(self):
        f = self.facts
        for q, params in self.entry.items():
            for b in f.by_q.get(q, []):
                for i, bits in params.items():
                    self.T[b.path][i] |= bits
        changed = True
        rounds = 0
        while changed and rounds < 400:
            changed = False
            rounds += 1
            for b in f.bodies:
                changed |= self._body(b)
        self.rounds = rounds

    def _controlled_blocks(self, b):
        """Blocks whose execution is decided by a content-tainted branch (limited implicit flow)."""
        out = set()
        for s in b.reachable(0):
            t = b.term(s)
            if t["k"] != "switch":
                continue
            if C not in self.bits_op(b, t["d"]):
                continue
            succs = set(b.succ[s])
            if len(succs) < 2:
                continue
            for x in succs:
                if len(b.pred[x]) == 1:
                    for y in b.reachable(0):
                        if b.dominates(x, y):
                            out.add(y)
        return out

    def _body(self, b):
        ch = False
        ctrl = self._controlled_blocks(b)
        ACC = ("push", "push_back", "push_front", "insert", "extend", "extend_from_slice", "append", "pop", "pop_front", "pop_back",
               "truncate", "clear", "drain", "remove", "swap_remove", "push_str")
        for bi in ctrl:
            t = b.blocks[bi]["term"]
            if t["k"] == "call" and (t["f"].get("name") in ACC) and t["args"]:
                ty0 = (t.get("argtys") or [""])[0]
                if ty0.startswith("&mut"):
                    p = t["args"][0].get("c") or t["args"][0].get("m")
                    if p is not None:
                        ch |= self._add_through(b, p["l"], {C, L})
        # second implicit flow: a scalar state field of the block assigned in a content-controlled block (`if sign != self.last_sign
        # { self.last_boundary = self.pos; }`) holds a value that depends on the content (when it was last assigned)
        if True:
            for bi in ctrl:
                for s in b.blocks[bi]["stmts"]:
                    if s["k"] != "assign":
                        continue
                    d = s["dst"]
                    if d["l"] == 1 and d["p"] and d["p"][0] == "*":
                        fld = [pr for pr in d["p"] if _fld_ok(pr)]
                        if fld and C not in self.F[(fld[-1]["o"], fld[-1]["n"])]:
                            self.F[(fld[-1]["o"], fld[-1]["n"])] |= {C}
                            self._trace("%s.%s" % (fld[-1]["o"], fld[-1]["n"]), b, "implicit: assigned under content control L%s" % s["sp"]["l"])
                            ch = True
        # closure item params
        if b.kind == "closure":
            bits = self.closure_args.get(b.path)
            if bits:
                for i in range(2, b.argc + 1):
                    ch |= self._add(b, i, bits)
        for blk in b.blocks:
            for s in blk["stmts"]:
                if s["k"] != "assign":
                    continue
                rv = s["rv"]
                k = rv["k"]
                bits = set()
                if k in ("use", "cast", "un", "repeat"):
                    bits = self.bits_op(b, rv["a"])
                    if k == "un" and rv.get("op") == "PtrMetadata":
                        bits = {C} if L in bits else set()
                elif k == "bin":
                    bits = self.bits_op(b, rv["a"]) | self.bits_op(b, rv["b"])
                    bits = {C} if C in bits else set()
                elif k == "agg":
                    for o in rv["ops"]:
                        bits |= self.bits_op(b, o)
                elif k in ("ref", "rawptr", "discr"):
                    bits = self.bits_place(b, rv["p"])
                    if k == "discr":
                        bits = {C} if bits else set()
                d = s["dst"]
                if not bits:
                    continue
                if d["p"] and d["p"][0] == "*":
                    fld = [pr for pr in d["p"] if _fld_ok(pr)]
                    if fld:
                        # a write to a named field through a reference taints that field (field-based), not the
                        # whole object behind the reference
                        if not (bits <= self.F[(fld[-1]["o"], fld[-1]["n"])]):
                            self.F[(fld[-1]["o"], fld[-1]["n"])] |= bits
                            self._trace("%s.%s" % (fld[-1]["o"], fld[-1]["n"]), b, "assignment L%s" % s["sp"]["l"])
                            ch = True
                    else:
                        ch |= self._add_through(b, d["l"], bits)
                else:
                    ch |= self._add(b, d["l"], bits)
                    fld = [pr for pr in d["p"] if _fld_ok(pr)]
                    if fld and d["l"] == 1 and not (bits <= self.F[(fld[-1]["o"], fld[-1]["n"])]):
                        self.F[(fld[-1]["o"], fld[-1]["n"])] |= bits
                        ch = True
            t = blk["term"]
            if t["k"] == "call":
                ch |= self._call(b, t)
        # return value
        rb = set(self.T[b.path][0])
        if not (rb <= self.R[b.path]):
            self.R[b.path] |= rb
            ch = True
        return ch

    def _call(self, b, t):
        ch = False
        fdesc = t["f"]
        qs = Body.callee_qs(t)
        name = fdesc.get("name") or ""
        args = t["args"]
        abits = [self.bits_op(b, a) for a in args]
        anyC = any(C in x for x in abits)
        anyL = any(L in x for x in abits)
        dst = t["dst"]
        out = set()
        handled = False
        # 1. explicit sources / clean
        for q in qs:
            if q in CLEAN_ALWAYS:
                return False
            if q in SRC_CONTENT:
                out |= SRC_CONTENT[q]
                handled = True
        # Read::read* family: buffer argument gets content
        if fdesc.get("trait") == "std::io::Read" or (fdesc.get("resolved") or {}).get("trait") == "std::io::Read":
            if name in READ_INTO and len(args) >= 2:
                p = args[1].get("c") or args[1].get("m")
                if p is not None:
                    ch |= self._add_through(b, p["l"], CL if READ_INTO[name] else FC)
                out |= FC
                handled = True
        # 2. local callees
        local = [q for q in qs if q in self.facts.by_q]
        if local and not handled:
            for q in local:
                for cb in self.facts.by_q[q]:
                    for i, bits in enumerate(abits):
                        if bits and i + 1 <= cb.argc:
                            if not (bits <= self.T[cb.path][i + 1]):
                                self.T[cb.path][i + 1] |= bits
                                ch = True
                    out |= self.R[cb.path]
                    # callee may store tainted data into self fields (field-based F handles it) or through &mut args
                    for i, a in enumerate(args):
                        ty = (t.get("argtys") or [""] * len(args))[i]
                        if ty.startswith("&mut") and i + 1 <= cb.argc:
                            # what the callee did to its param local flows back
                            back = set(self.T[cb.path][i + 1]) - abits[i]
                            if back:
                                p = a.get("c") or a.get("m")
                                if p is not None:
                                    ch |= self._add_through(b, p["l"], back)
            handled = True
        # 3. closures passed as arguments: their item params see the other arguments' content
        for i, a in enumerate(args):
            ty = (t.get("argtys") or [""] * len(args))[i]
            if "{closure@" in ty:
                cpath = self._closure_path(b, a)
                if cpath:
                    others = set()
                    for j, x in enumerate(abits):
                        if j != i and C in x:
                            others.add(C)
                    if others and not (others <= self.closure_args[cpath]):
                        self.closure_args[cpath] |= others
                        ch = True
                    for cb in [x for x in self.facts.bodies if x.path == cpath]:
                        if self.R[cb.path]:
                            out |= {C}
        if not handled and any(q in ("std::mem::swap", "std::mem::replace", "std::mem::take") for q in qs):
            allb = set()
            for x in abits:
                allb |= x
            for a in args:
                p = a.get("c") or a.get("m")
                if p is not None and allb:
                    ch |= self._add_through(b, p["l"], allb)
            out |= allb
            handled = True
        if not handled:
            # 4. generic external call
            if name in LEN_NAMES and args:
                out |= {C} if L in abits[0] else set()
            else:
                if anyC:
                    out.add(C)
                if anyL:
                    out.add(L)
                if name in LEN_FROM_CONTENT and anyC:
                    out |= {C, L}
                if name in LEN_FROM_ARG and len(abits) >= 2 and any(C in x for x in abits[1:]):
                    out.add(L)
                # a sub-slice cut at a number out of the input (`&window[..header_len]`): how long it is was decided by content
                if name in ("index", "index_mut", "get", "get_mut") and len(abits) >= 2 and C in abits[1] \
                        and "Range" in ((t.get("argtys") or ["", ""])[1] if len(t.get("argtys") or []) > 1 else ""):
                    out.add(L)
            # &mut receiver mutated by the other arguments (push/extend/copy_from_slice/read/...)
            if args:
                ty0 = (t.get("argtys") or [""])[0]
                if ty0.startswith("&mut"):
                    add = set()
                    if any(C in x for x in abits[1:]):
                        add.add(C)
                    if any(L in x for x in abits[1:]) and name in ("extend", "extend_from_slice", "append", "push_str", "extend_from_within", "clone_from"):
                        add.add(L)
                    if name in LEN_FROM_ARG and any(C in x for x in abits[1:]):
                        add.add(L)
                    if name == "retain" and C in abits[0]:
                        add.add(L)
                    if name in ("push", "push_back", "push_front", "insert", "extend", "extend_from_slice", "append", "push_str") and any(C in x for x in abits[1:]):
                        # an accumulator fed with content: how much it holds is decided by the input as well
                        add.add(L)
                    if name == "swap" and len(args) == 2:
                        pass
                    if add:
                        p = args[0].get("c") or args[0].get("m")
                        if p is not None:
                            ch |= self._add_through(b, p["l"], add)
        if out:
            if dst["p"] and dst["p"][0] == "*":
                ch |= self._add_through(b, dst["l"], out)
            else:
                ch |= self._add(b, dst["l"], out)
        return ch

    def _closure_path(self, b, op):
        p = op.get("c") or op.get("m")
        if p is None:
            return None
        l = p["l"]
        for _ in range(4):
            ds = b.defs().get(l, [])
            if len(ds) != 1 or ds[0][2] != "rv":
                return None
            rv = ds[0][3]
            if rv["k"] == "agg" and rv.get("ak") == "closure":
                return rv["closure"]
            if rv["k"] in ("use",):
                q = rv["a"].get("c") or rv["a"].get("m")
                if q is None:
                    return None
                l = q["l"]
            else:
                return None
        return None

    # -----------------------------------------------------------------------------------
    def op_bits(self, b, op):
        return self.bits_op(b, op)
