"""E5: run a rule on the positive-control crate and require it to fire on its control."""


class Collector:
    def __init__(self):
        self.bads = []
        self.oks = []

    def ok(self, rule, key, where="", detail=""):
        self.oks.append((rule, key))

    def bad(self, rule, key, where="", msg="", detail=None):
        self.bads.append((rule, key, msg))

    def silent(self, *a, **k):
        pass

    def anchor(self, *a, **k):
        return True


def expect(ctx, rule_id, fn, needle, what, *args, **kw):
    """Run fn(positive_facts, collector, *args) and record a positive control for rule_id: some violation of that
    rule whose key contains `needle` must be produced."""
    pos = ctx.facts("positive")
    col = Collector()
    fn(pos, col, *args, **kw)
    fired = [k for r, k, m in col.bads if r == rule_id and needle in k]
    ctx.control(rule_id, bool(fired), "%s -> %s" % (what, fired[0] if fired else "NOT FIRED (got %s)" % [k for r, k, m in col.bads][:4]))
    return bool(fired)
