"""Analysis E: effect summaries of Block::work bodies (stream effects, state effects, verdicts)."""
from .common import *
from .mir import peel, walk, show, Body

CONSUME = "circular_buffer::BufferReader::consume"
PRODUCE = "circular_buffer::BufferWriter::produce"
PUSH = "stream::NCWriteStream::push"
POP = "stream::NCReadStream::pop"
DIRECT_EFFECTS = {CONSUME, PRODUCE, PUSH}
SETTLED = ("WaitForStream", "WaitForFunc", "EOF")

INTERIOR_PREFIXES = ("std::sync::Mutex", "std::sync::RwLock", "std::cell::RefCell", "std::cell::Cell",
                     "std::sync::atomic", "std::sync::mpsc", "std::sync::Condvar")

STREAM_FILES = ("src/stream.rs", "src/circular_buffer.rs")

_cache = {}


def _cg(facts):
    k = id(facts)
    if k not in _cache:
        cg = CallGraph(facts)
        # local functions that transitively contain a direct stream effect (or a pop)
        eff = set()
        for q, outs in cg.out.items():
            if outs & (DIRECT_EFFECTS | {POP}):
                eff.add(q)
        changed = True
        while changed:
            changed = False
            for q, outs in cg.out.items():
                if q not in eff and outs & eff:
                    eff.add(q)
                    changed = True
        interior = set()
        for q, outs in cg.out.items():
            if any(o.startswith(INTERIOR_PREFIXES) for o in outs):
                interior.add(q)
        changed = True
        while changed:
            changed = False
            for q, outs in cg.out.items():
                if q not in interior and outs & interior:
                    interior.add(q)
                    changed = True
        _cache[k] = (cg, eff, interior)
    return _cache[k]


def root_is_self(e):
    n = 0
    while e is not None and n < 40:
        n += 1
        if e.k in ("field", "index", "deref", "downcast", "ref", "cast"):
            e = e.a
        elif e.k == "param":
            return e.idx == 1
        elif e.k == "call" and e.q in ("std::ops::Deref::deref", "std::ops::DerefMut::deref_mut",
                                       "std::ops::Index::index", "std::ops::IndexMut::index_mut",
                                       "std::convert::AsMut::as_mut", "std::convert::AsRef::as_ref") and e.args:
            e = e.args[0]
        else:
            return False
    return False


def is_self_mut_ref(body, e):
    if e is None:
        return False
    if e.k == "ref" and e.mut and root_is_self(e.a):
        return True
    if e.k == "param" and e.idx == 1 and body.locals[1]["ty"].startswith("&mut"):
        return True
    if e.k == "call" and e.q in ("std::ops::DerefMut::deref_mut", "std::ops::IndexMut::index_mut",
                                 "std::convert::AsMut::as_mut") and e.args:
        return is_self_mut_ref(body, e.args[0]) or (e.args[0].k == "ref" and root_is_self(e.args[0]))
    if e.k == "cast":
        return is_self_mut_ref(body, e.a)
    return False


def is_self_shared_ref(body, e):
    if e is None:
        return False
    if e.k == "ref" and root_is_self(e.a):
        return True
    if e.k == "param" and e.idx == 1:
        return True
    if e.k == "cast":
        return is_self_shared_ref(body, e.a)
    return False


def count_is_const_zero(body, t):
    if len(t["args"]) >= 2:
        e = peel(body.operand_expr(t["args"][1]))
        return e.k == "const" and e.v == 0
    return False


def pop_some_targets(body):
    """{pop call bb: some-target bb or None (when the result is not branched on directly)}"""
    out = {}
    for bb, t in body.calls_to(POP):
        out[bb] = None
    if not out:
        return out
    for s in sorted(body.reachable(0)):
        t = body.term(s)
        if t["k"] != "switch":
            continue
        e = switch_discr_expr(body, s)
        if e.k != "discr":
            continue
        x = e.a
        while x is not None and x.k in ("ref", "deref"):
            x = x.a
        if x is not None and x.k == "call" and x.q == POP and x.bb in out:
            out[x.bb] = variant_target(body, s, 1, 2)
    return out


class Effects:
    """Per-body effect points.
    stream_points: blocks at (the end of) which stream data possibly moves (definite candidates)
    progress_blocks: blocks containing any possible observable change (over-approximation)"""

    def __init__(self, facts, body):
        cg, eff_fns, interior_fns = _cg(facts)
        self.body = body
        self.stream_points = {}   # bb -> description
        self.progress = {}        # bb -> description
        pops = pop_some_targets(body)
        for bb, t in body.calls():
            qs = Body.callee_qs(t)
            f = t["f"]
            if any(q in DIRECT_EFFECTS for q in qs):
                name = f.get("name")
                if name in ("consume", "produce") and count_is_const_zero(body, t):
                    continue
                self.stream_points[bb] = "%s at %s" % (name, body.where(bb))
                self.progress[bb] = self.stream_points[bb]
                continue
            if POP in qs:
                tgt = pops.get(bb)
                if tgt is None:
                    self.stream_points[bb] = "pop at %s" % body.where(bb)
                    self.progress[bb] = self.stream_points[bb]
                else:
                    self.stream_points[("edge", bb, tgt)] = "pop()==Some at %s" % body.where(bb)
                    self.progress[tgt] = "pop()==Some at %s" % body.where(bb)
                continue
            loc = [q for q in qs if q in facts.by_q]
            if any(q in eff_fns for q in loc):
                self.stream_points[bb] = "call %s (moves stream data) at %s" % (loc[0], body.where(bb))
                self.progress[bb] = self.stream_points[bb]
                continue
            # state effects
            argexprs = [body.operand_expr(a) for a in t["args"]]
            if any(is_self_mut_ref(body, e) for e in argexprs):
                self.progress[bb] = "call %s with &mut self state at %s" % (f.get("q"), body.where(bb))
                continue
            if any(is_self_shared_ref(body, e) for e in argexprs):
                # stream/buffer accessors lock internally but change nothing observable
                if loc and all(facts.body(q).file in STREAM_FILES for q in loc):
                    continue
                if any(q in interior_fns for q in loc) or any(q.startswith(INTERIOR_PREFIXES) for q in qs):
                    self.progress[bb] = "call %s (interior mutability) at %s" % (f.get("q"), body.where(bb))
                    continue
            if "q" not in f:
                # indirect call (closure / fn pointer): may do anything
                self.progress[bb] = "indirect call at %s" % body.where(bb)
        for bb, blk in enumerate(body.blocks):
            for s in blk["stmts"]:
                if s["k"] == "assign":
                    d = s["dst"]
                    if d["p"] and d["p"][0] == "*" and root_is_self(body.place_expr(d)):
                        self.progress.setdefault(bb, "assignment to self state at %s:%d" % (s["sp"]["f"], s["sp"]["l"]))
                    rv = s["rv"]
                    if rv["k"] == "agg" and rv.get("ak") == "closure":
                        for o in rv["ops"]:
                            if is_self_mut_ref(body, body.operand_expr(o)):
                                self.progress.setdefault(bb, "closure capturing &mut self at %s:%d" % (s["sp"]["f"], s["sp"]["l"]))


_FACTS_FOR_VERDICTS = {}


def register_facts(facts):
    """lets verdict_defs() follow `return self.helper()` into crate-local helpers returning Result<BlockRet>"""
    for b in facts.bodies:
        _FACTS_FOR_VERDICTS[id(b)] = facts


def _helper_verdicts(body, e, bb, depth=0):
    """verdicts of a tail call `self.helper(..)` whose callee returns Result<BlockRet>: the callee's verdicts, located at
    the call site"""
    facts = _FACTS_FOR_VERDICTS.get(id(body))
    if facts is None or depth > 2 or e is None or e.k != "call":
        return None
    for q in (e.rq, e.q):
        cbs = facts.by_q.get(q, []) if q else []
        if len(cbs) == 1 and cbs[0].kind != "closure" and cbs[0] is not body:
            sub = verdict_defs(cbs[0], depth + 1)
            if sub and all(v != "?" for _, v, _ in sub):
                return [(bb, v, x) for _, v, x in sub]
    return None


def verdict_defs(body, depth=0):
    """[(bb, verdict, inner_expr)] for every definition of the return value of a work() body.
    verdict in BlockRet variants, 'Err', or '?'."""
    out = []
    reach = body.reachable(0)
    for bb, si, e in assigns_to_return(body):
        if bb not in reach:
            continue
        if e.k == "agg" and e.adt == "std::result::Result":
            if e.variant == "Err":
                out.append((bb, "Err", e))
                continue
            inner = e.args[0] if e.args else None
            p = inner
            n = 0
            while p is not None and p.k in ("multi",) and p.alts and len(p.alts) == 1 and n < 5:
                p = p.alts[0]
                n += 1
            if p is not None and p.k == "agg" and p.adt == BLOCKRET:
                out.append((bb, p.variant, p))
            elif p is not None and p.k == "multi" and p.alts and all(a.k == "agg" and a.adt == BLOCKRET for a in p.alts):
                # one verdict per arm of the `if`/`match` that produced the value: located where that arm builds it, so that the
                # guards of the arm (not only those of the join) are seen by the callers
                defs = [d for d in body.defs().get(p.local, []) if d[2] == "rv" and d[0] in reach]
                arms = []
                for dbb, dsi, kind, payload in defs:
                    ae = body.rvalue_expr(payload)
                    n2 = 0
                    while ae is not None and ae.k == "multi" and ae.alts and len(ae.alts) == 1 and n2 < 5:
                        ae = ae.alts[0]
                        n2 += 1
                    if ae is not None and ae.k == "agg" and ae.adt == BLOCKRET:
                        arms.append((dbb, ae.variant, ae))
                if len(arms) == len(p.alts):
                    out.extend(arms)
                else:
                    for a in p.alts:
                        out.append((bb, a.variant, a))
            elif p is not None and p.k == "multi" and p.alts and any(a.k == "agg" and a.adt == BLOCKRET for a in p.alts):
                # some arms build a verdict here, others pass one through (`other => other`): the visible ones are judged
                for a in p.alts:
                    if a.k == "agg" and a.adt == BLOCKRET:
                        out.append((bb, a.variant, a))
                    else:
                        out.append((bb, "?", a))
            else:
                out.append((bb, "?", inner))
        elif e.k == "call" and e.q and e.q.endswith("from_residual"):
            out.append((bb, "Err", e))
        else:
            hv = _helper_verdicts(body, e, bb, depth)
            if hv:
                out.extend(hv)
            else:
                out.append((bb, "?", e))
    return out


_view_cache = {}


def work_view(facts, body, methods=False):
    """the body with the crate-local helpers that move stream data substituted in (inline.py): `let Some(x) = take_u32(i) else
    { return wait }` consumes in the helper and decides in the caller - one path question, answered on one body.  With
    methods=True also the block's own (pure) methods: `match self.consumable(input.len()) { Ok(n) => n, Err(m) => return ..}`.
    The same body when there is nothing to inline."""
    k = (id(facts), body.path, methods)
    if k in _view_cache:
        return _view_cache[k]
    from . import inline
    cg, eff_fns, interior = _cg(facts)
    def takes_window(hb):
        return any("circular_buffer::BufferWriter<" in hb.locals[i]["ty"] or "circular_buffer::BufferReader<" in hb.locals[i]["ty"]
                   for i in range(1, min(hb.argc, len(hb.locals) - 1) + 1))

    # ... and, with the block's methods, the crate's free functions that do its reading (`self.refill()` -> `read_data(&mut
    # self.file, ..)`): the rules about read() sites (C14.R9-R13, C16.R5-R15) look for them in work()
    io_fns = cg.transitive({"std::io::Read::read"}, depth=2) if methods else set()
    nb, inl = inline.inline_body(facts, body, lambda hb: hb.kind != "closure" and hb.file not in STREAM_FILES and (
        hb.q in eff_fns or takes_window(hb) or (methods and body.self_adt and hb.self_adt == body.self_adt and hb.kind != "traitimpl")
        or (methods and hb.q in io_fns and hb.self_adt is None and hb.kind != "traitimpl" and hb.file == body.file)))
    if inl:
        _FACTS_FOR_VERDICTS[id(nb)] = facts
    _view_cache[k] = nb
    return nb


def settled_after_effect(facts, body):
    """{verdict: info} for settled verdicts of this body: is there a CFG path
    entry -> possibly-effective stream effect -> return of that verdict ?"""
    body = work_view(facts, body)
    eff = Effects(facts, body)
    res = {}
    after = set()   # blocks reachable after a stream effect
    desc = {}
    from .common import flag_search
    for pt, d in eff.stream_points.items():
        if isinstance(pt, tuple):
            starts = [pt[2]]
        else:
            starts = body.succ[pt]
        # feasible for the Option/Result/enum values known on the way (a helper's `None` result means "nothing consumed")
        r, _ = flag_search(body, list(starts), track_bools=False)
        for b in r:
            if b not in after:
                after.add(b)
                desc[b] = d
    for bb, verdict, e in verdict_defs(body):
        if verdict not in SETTLED:
            continue
        viol = bb in after
        label = verdict
        if verdict == "WaitForStream" and e is not None and e.k == "agg" and e.args:
            from .mir import self_field_path
            fp = self_field_path(e.args[0])
            if fp:
                label = "WaitForStream(%s)" % ".".join(fp)     # which stream the block says it waits for is part of the identity
        cur = res.get(label)
        if cur is None or (viol and not cur["violating"]):
            res[label] = dict(violating=viol, ret_bb=bb, effect=desc.get(bb, ""), effect_where=desc.get(bb))
    return res


def maybe_zero_moves(facts, body, eff):
    """consume/produce sites whose count is `min(len(W1), len(W2), ..)` / `len(W)` with some window NOT established non-empty
    by a dominating guard: on the run where that window is empty they move nothing, so they do not count as progress for
    the idle-Again question (sites with any other count expression are left as progress)"""
    from .rules import c09
    out = set()
    for bb, t in body.calls():
        qs = Body.callee_qs(t)
        if not any(q in (CONSUME, PRODUCE) for q in qs) or len(t["args"]) < 2 or bb not in eff.progress:
            continue
        cnt = peel(body.operand_expr(t["args"][1]), through_try=False)
        wins = []
        if cnt.k == "call" and (cnt.q in MIN_CALLS or cnt.rq in MIN_CALLS):
            ok = True
            for a in cnt.args:
                w = c09.len_of_window(a)
                if w:
                    wins.append(w[0])
                else:
                    ok = False
            if not ok:
                continue
        else:
            w = c09.len_of_window(cnt)
            if not w:
                continue
            wins.append(w[0])
        lbs = c09.window_lower_bounds(body, bb, facts)
        if any(lbs.get(w, 0) < 1 for w in wins):
            out.add(bb)
    return out


def idle_again_paths(facts, body):
    """[(ret_bb, path_desc)] for `return Ok(Again)` definitions reachable from entry on a path with no
    possible progress at all."""
    eff = Effects(facts, body)
    out = []
    prog = set(eff.progress) - maybe_zero_moves(facts, body, eff)
    for bb, verdict, e in verdict_defs(body):
        if verdict != "Again":
            continue
        if bb in prog:
            continue
        r = body.reachable(0, avoid=prog) if 0 not in prog else set()
        if bb in r:
            out.append(bb)
    return out, eff


# ---- judge on the work view when the body as compiled raises an alarm ------------------------------------------------
class _Rec:
    def __init__(self):
        self.ev = []

    def ok(self, *a, **k):
        self.ev.append(("ok", a, k))

    def bad(self, *a, **k):
        self.ev.append(("bad", a, k))

    def silent(self, *a, **k):
        self.ev.append(("silent", a, k))


class _FactsView:
    """facts whose Block::work bodies are replaced by the given views (everything else delegated)"""

    def __init__(self, facts, views):
        self._f = facts
        self._views = views

    def __getattr__(self, name):
        return getattr(self._f, name)

    def impl_bodies(self, trait, method, raw=False):
        if trait == "block::Block" and method == "work":
            return list(self._views)
        return self._f.impl_bodies(trait, method, raw)


def _key_of_body(key, q):
    return key == q or key.startswith(q + ":") or key.startswith(q + "|") or (":" + q + ":") in key or key.endswith(":" + q)


def view_fallback(rule_fn, trust_view=False, site_retry=False):
    """trust_view: the rule's own path questions are value-sensitive (or it asks none), so an alarm that exists only on the view
    of a body the rule had nothing to say about as compiled is reported too (its anchor moved into a helper together with the
    defect).

    wrap a rule over Block::work bodies: bodies are judged as compiled; a body that raises an alarm is judged again on its
    work view (helpers that move stream data / take a window / are methods of the block substituted in, value-sensitive
    searches see across the former call boundary) and the view's verdict stands if it is clean.  Inlining preserves
    behaviour, so an alarm that disappears on the view was an artefact of judging the pieces separately; an alarm that stays is
    reported as before (same key)."""
    def wrapped(facts, col, *a, **k):
        rec = _Rec()
        rule_fn(facts, rec, *a, **k)
        badq = []
        works = {b.q: b for b in facts.impl_bodies("block::Block", "work", raw=True) if not b.from_derive}
        for kind, args, kw in rec.ev:
            if kind == "bad" and len(args) >= 2:
                for q in works:
                    if _key_of_body(args[1], q):
                        if q not in badq:
                            badq.append(q)
        replaced = {}
        for q in badq:
            vb = work_view(facts, works[q], methods=True)
            if vb is works[q]:
                continue
            rec2 = _Rec()
            try:
                rule_fn(_FactsView(facts, [vb]), rec2, *a, **k)
            except Exception:
                continue
            mine = [e for e in rec2.ev if len(e[1]) >= 2 and _key_of_body(e[1][1], q)]
            if mine and not any(e[0] == "bad" for e in mine):
                replaced[q] = mine
        # bodies the rule said nothing about as compiled (its anchors may have moved into a helper): the view's instances count
        def _mine(ev, q):
            return [e for e in ev if len(e[1]) >= 2 and _key_of_body(e[1][1], q)]
        quiet = [q for q in works if not [e for e in _mine(rec.ev, q) if e[0] != "silent"]]
        extra = []
        if quiet:
            views = []
            for q in quiet:
                vb = work_view(facts, works[q], methods=True)
                if vb is not works[q]:
                    views.append((q, vb))
            if views:
                rec3 = _Rec()
                try:
                    rule_fn(_FactsView(facts, [vb for _, vb in views]), rec3, *a, **k)
                    for q, vb in views:
                        m_ = _mine(rec3.ev, q)
                        # instances the view provides are taken only when they are clean: the rules use plain reachability inside
                        # a body, which on a view crosses former call boundaries path-insensitively - an alarm that exists only
                        # there is not reported (the rule stays as silent on this body as it was)
                        if m_ and (trust_view or not any(e[0] == "bad" for e in m_)):
                            extra += m_
                except Exception:
                    extra = []
        done = set()
        for kind, args, kw in rec.ev:
            q = None
            if len(args) >= 2:
                for q_ in replaced:
                    if _key_of_body(args[1], q_):
                        q = q_
            if q is not None:
                if q not in done:
                    done.add(q)
                    for k2, a2, kw2 in replaced[q]:
                        getattr(col, k2)(*a2, **kw2)
                continue
            getattr(col, kind)(*args, **kw)
        for kind, args, kw in extra:
            if kind != "silent":
                getattr(col, kind)(*args, **kw)
        # sites the rule could not decide as compiled (a `silent` at a source line) although it decided others in the same body:
        # the controlling test may live in a helper (`match self.consumable(have) { Err(min) => return wait(src, min), .. }`).
        # The view's verdict for the same source line is taken - a clean one always, an alarm only from rules whose path
        # questions are value-sensitive (trust_view)
        if site_retry:
            have = {(args[0], args[1]) for kind, args, kw in rec.ev if kind != "silent" and len(args) >= 2}
            have |= {(a2[0], a2[1]) for k2, a2, kw2 in extra if len(a2) >= 2}
            for evs in replaced.values():
                have |= {(a2[0], a2[1]) for k2, a2, kw2 in evs if len(a2) >= 2}
            sil = {}
            for kind, args, kw in rec.ev:
                if kind == "silent" and len(args) >= 3 and args[2]:
                    for q in works:
                        if _key_of_body(args[1], q) and q not in replaced and q not in quiet:
                            sil.setdefault(q, set()).add(args[2])
            for q, wheres in sil.items():
                vb = work_view(facts, works[q], methods=True)
                if vb is works[q]:
                    continue
                rec4 = _Rec()
                try:
                    rule_fn(_FactsView(facts, [vb]), rec4, *a, **k)
                except Exception:
                    continue
                for kind, args, kw in rec4.ev:
                    if kind == "silent" or len(args) < 3 or args[2] not in wheres or (args[0], args[1]) in have:
                        continue
                    if not _key_of_body(args[1], q):
                        continue
                    if kind == "bad" and not trust_view:
                        continue
                    have.add((args[0], args[1]))
                    getattr(col, kind)(*args, **kw)
    wrapped.__name__ = getattr(rule_fn, "__name__", "rule")
    wrapped.__doc__ = rule_fn.__doc__
    return wrapped
