"""./check selftest [--jobs N] [--with-tests] [name-substring ...]

Both-ways test of the checker (DESIGN §2.5): every mutant (a small edit of /repo that still compiles) must make
the named rule fire with the expected key; every neutral (behaviour-preserving) edit must leave the listed
checks silent.  Each case runs on a scratch copy under /tmp that is removed immediately afterwards.
"""
import concurrent.futures
import json
import os
import re
import shutil
import subprocess
import sys
import tempfile
import time

VERIF = os.path.dirname(os.path.dirname(os.path.abspath(__file__)))
REPO = "/repo"
sys.path.insert(0, os.path.join(VERIF, "selftest"))


def load_cases():
    import importlib.util
    spec = importlib.util.spec_from_file_location("cases", os.path.join(VERIF, "selftest", "cases.py"))
    m = importlib.util.module_from_spec(spec)
    spec.loader.exec_module(m)
    return m.MUTANTS, m.NEUTRAL


ALL_PROPS = ["C01", "C02", "C03", "C04", "C05", "C06", "C07", "C08", "C09", "C12", "C13", "C14", "C15", "C16", "C17", "C18", "C19"]


def load_patch_cases():
    """the independently seeded changes (seeded/<id>: must fire a rule of meta.detected_by under the seed's property or the
    property the rule belongs to) and behaviour-preserving refactors (neutral_seeded/<id>: every check silent)"""
    mut, neu = [], []
    sd = os.path.join(VERIF, "seeded")
    for n in sorted(os.listdir(sd)) if os.path.isdir(sd) else []:
        mp = os.path.join(sd, n, "meta.json")
        pp = os.path.join(sd, n, "patch.diff")
        if not (os.path.exists(mp) and os.path.exists(pp)):
            continue
        meta = json.load(open(mp))
        det = [d for d in meta.get("detected_by", []) if re.match(r"C\d\d\.", d)]
        if not det:
            continue      # recorded as missed
        own = [d for d in det if d.startswith(meta.get("property", "?") + ".")]
        first = (own or det)[0]
        mut.append(dict(name="seed:" + n, prop=first.split(".")[0], expect=first.split("(")[0].split(":")[0] + ":", patch=pp, edits=[]))
    nd = os.path.join(VERIF, "neutral_seeded")
    for n in sorted(os.listdir(nd)) if os.path.isdir(nd) else []:
        pp = os.path.join(nd, n, "patch.diff")
        if os.path.exists(pp):
            c = dict(name="neutral:" + n, props=ALL_PROPS, patch=pp, edits=[])
            mp = os.path.join(nd, n, "meta.json")
            if os.path.exists(mp):
                # a refactor on which a DOCUMENTED false alarm remains (DESIGN Appendix D): exactly those keys may fire, so that
                # the case keeps guarding everything else
                c["documented_false_alarms"] = json.load(open(mp)).get("documented_false_alarms", [])
            neu.append(c)
    return mut, neu


def make_scratch(edits, patch=None, post_edits=()):
    d = tempfile.mkdtemp(prefix="rr-selftest-")
    for item in ("src", "rustradio_macros", "Cargo.toml", "Cargo.lock", "examples", "benches", "tests", "testdata",
                 "extra", "README.md", "doc"):
        s = os.path.join(REPO, item)
        if os.path.isdir(s):
            shutil.copytree(s, os.path.join(d, item), ignore=shutil.ignore_patterns("target"))
        elif os.path.exists(s):
            shutil.copy(s, os.path.join(d, item))
    for e in edits:
        p = os.path.join(d, e["file"])
        txt = open(p).read()
        cnt = txt.count(e["old"])
        if cnt != e.get("count", 1):
            shutil.rmtree(d, ignore_errors=True)
            raise RuntimeError("edit anchor found %d times (want %d) in %s: %r" % (cnt, e.get("count", 1), e["file"], e["old"][:60]))
        txt = txt.replace(e["old"], e["new"])
        open(p, "w").write(txt)
    if patch:
        r = subprocess.run(["patch", "-p1", "-s", "-i", patch], cwd=d, stdout=subprocess.PIPE, stderr=subprocess.STDOUT, text=True)
        if r.returncode != 0:
            shutil.rmtree(d, ignore_errors=True)
            raise RuntimeError("patch does not apply: %s" % r.stdout[-300:])
    for e in post_edits:          # a mutation of the refactored code
        p = os.path.join(d, e["file"])
        txt = open(p).read()
        cnt = txt.count(e["old"])
        if cnt != e.get("count", 1):
            shutil.rmtree(d, ignore_errors=True)
            raise RuntimeError("post-edit anchor found %d times (want %d) in %s: %r" % (cnt, e.get("count", 1), e["file"], e["old"][:60]))
        open(p, "w").write(txt.replace(e["old"], e["new"]))
    return d


def run_check(prop, scratch, worker):
    env = dict(os.environ, RR_REPO=scratch, RR_TARGET_SUFFIX="-st%d" % worker, RR_EVIDENCE_DIR=os.path.join(scratch, "_evidence"),
               RR_REPORT_DIR=os.path.join(scratch, "_reports"))
    r = subprocess.run([os.path.join(VERIF, "check"), prop], env=env, stdout=subprocess.PIPE, stderr=subprocess.STDOUT, text=True)
    keys = re.findall(r"^  rule=\S+ key=(.*)$", r.stdout, re.M)
    return r.returncode, keys, r.stdout


def run_tests(scratch, worker):
    env = dict(os.environ, CARGO_NET_OFFLINE="true", CARGO_TARGET_DIR=os.path.join(VERIF, ".cache", "target-tests-st%d" % worker))
    r = subprocess.run(["cargo", "test", "--offline", "--lib", "-q"], cwd=scratch, env=env, stdout=subprocess.PIPE,
                       stderr=subprocess.STDOUT, text=True)
    return r.returncode == 0, r.stdout[-1500:]


def one_case(kind, case, worker, with_tests):
    t0 = time.time()
    try:
        scratch = make_scratch(case["edits"], case.get("patch"), case.get("post_edits", ()))
    except RuntimeError as e:
        return dict(name=case["name"], kind=kind, ok=False, why="stale edit: %s" % e, secs=0)
    try:
        res = dict(name=case["name"], kind=kind, ok=True, why="", secs=0)
        if kind == "mutant":
            rc, keys, out = run_check(case["prop"], scratch, worker)
            exp = case["expect"]
            hit = [k for k in keys if exp in k]
            if "extract:" in " ".join(keys) and "extract:" not in exp:
                res.update(ok=False, why="mutant does not compile:\n" + out[-800:])
            elif not hit:
                res.update(ok=False, why="expected a violation key containing %r, got %r" % (exp, keys))
            else:
                res["why"] = "fired: %s" % hit[0]
            extra = [k for k in keys if exp not in k and not any(a in k for a in case.get("also", []))]
            if res["ok"] and extra:
                res["why"] += "  (also: %s)" % extra[:3]
            for other in case.get("silent_on", []):
                rc2, keys2, _ = run_check(other, scratch, worker)
                if keys2:
                    res.update(ok=False, why="unrelated check %s changed verdict: %r" % (other, keys2[:3]))
        else:
            for prop in case["props"]:
                rc, keys, out = run_check(prop, scratch, worker)
                doc = [k for k in keys if any(k.startswith(d) for d in case.get("documented_false_alarms", []))]
                rest = [k for k in keys if k not in doc]
                if doc and not rest:
                    res["why"] = (res.get("why", "") + "  [documented false alarm: %s]" % doc[0][:60]).strip()
                    continue
                if rc != 0 or keys:
                    res.update(ok=False, why="neutral edit raised %s: %r" % (prop, rest[:3] or keys[:3]))
                    break
        if with_tests and res["ok"]:
            okt, log = run_tests(scratch, worker)
            res["tests_pass"] = okt
            if not okt and case.get("tests_must_pass", True):
                res["why"] += "  [note: repo unit tests FAIL with this edit]"
        res["secs"] = round(time.time() - t0, 1)
        return res
    finally:
        shutil.rmtree(scratch, ignore_errors=True)


def main(argv):
    jobs = 6
    with_tests = False
    filt = []
    i = 0
    while i < len(argv):
        if argv[i] == "--jobs":
            jobs = int(argv[i + 1])
            i += 2
        elif argv[i] == "--with-tests":
            with_tests = True
            i += 1
        else:
            filt.append(argv[i])
            i += 1
    mutants, neutral = load_cases()
    pm, pn = load_patch_cases()
    mutants, neutral = mutants + pm, neutral + pn
    cases = [("mutant", c) for c in mutants] + [("neutral", c) for c in neutral]
    if filt:
        cases = [(k, c) for k, c in cases if any(f in c["name"] or f == c.get("prop") for f in filt)]
    results = []
    # worker-affine scheduling so that each worker keeps its own warm cargo target dir
    import queue
    q = queue.Queue()
    for item in cases:
        q.put(item)

    def worker(w):
        out = []
        while True:
            try:
                kind, case = q.get_nowait()
            except queue.Empty:
                return out
            r = one_case(kind, case, w, with_tests)
            print("%-8s %-52s %s  %5.1fs  %s" % (kind, case["name"], "ok  " if r["ok"] else "FAIL", r["secs"], r["why"][:230]))
            sys.stdout.flush()
            out.append(r)

    with concurrent.futures.ThreadPoolExecutor(max_workers=jobs) as ex:
        for lst in ex.map(worker, range(jobs)):
            results.extend(lst)
    bad = [r for r in results if not r["ok"]]
    print("selftest: %d cases, %d failed" % (len(results), len(bad)))
    os.makedirs(os.path.join(VERIF, "selftest"), exist_ok=True)
    with open(os.path.join(VERIF, "selftest", "last_run.json"), "w") as f:
        json.dump(results, f, indent=1)
    return 1 if bad else 0
