"""python3 -m rrlint.dump <config> <substring of q> : readable MIR listing (debug aid)."""
import sys
from . import facts as F
from .mir import show


def pplace(p):
    s = "_%d" % p["l"]
    for pr in p["p"]:
        if pr == "*":
            s = "(*%s)" % s
        elif isinstance(pr, dict):
            if "f" in pr:
                s += ".%s" % (pr.get("n") if pr.get("n") is not None else pr["f"])
            elif "d" in pr:
                s = "(%s as %s)" % (s, pr["d"])
            elif "ix" in pr:
                s += "[_%d]" % pr["ix"]
            else:
                s += str(pr)
    return s


def pop(o):
    if "c" in o:
        return pplace(o["c"])
    if "m" in o:
        return "move " + pplace(o["m"])
    if "k" in o:
        k = o["k"]
        if "fn" in k:
            return "fn " + k["fn"]["q"]
        return "const %s" % (k.get("v") if k.get("v") is not None else k.get("s"))
    return str(o)


def prv(rv):
    k = rv["k"]
    if k == "use":
        return pop(rv["a"])
    if k in ("ref", "rawptr"):
        return ("&mut " if rv.get("mut") else "&") + pplace(rv["p"])
    if k == "bin":
        return "%s(%s, %s)" % (rv["op"], pop(rv["a"]), pop(rv["b"]))
    if k == "un":
        return "%s(%s)" % (rv["op"], pop(rv["a"]))
    if k == "cast":
        return "%s as %s" % (pop(rv["a"]), rv["ty"])
    if k == "discr":
        return "discr(%s)" % pplace(rv["p"])
    if k == "agg":
        return "%s%s{%s}" % (rv.get("adt") or rv.get("closure") or rv["ak"], ("::" + rv["variant"]) if rv.get("variant") else "", ", ".join(pop(o) for o in rv["ops"]))
    return str(rv)


def dump(b):
    print("=== %s  [%s]  %s:%d  argc=%d" % (b.q, b.path, b.file, b.span["l"], b.argc))
    for i, l in enumerate(b.locals):
        n = b.var_name_of_local(i)
        print("   let _%d: %s%s" % (i, l["ty"], ("  // " + n) if n else ""))
    for i, blk in enumerate(b.blocks):
        print(" bb%d%s:" % (i, " (cleanup)" if blk["cleanup"] else ""))
        for s in blk["stmts"]:
            if s["k"] == "assign":
                x = s["sp"].get("x")
                print("    %s = %s   // L%d%s" % (pplace(s["dst"]), prv(s["rv"]), s["sp"]["l"], (" " + ">".join(x)) if x else ""))
            else:
                print("    %s" % s)
        t = blk["term"]
        k = t["k"]
        sp = t.get("sp") or {}
        x = sp.get("x")
        tail = "   // L%s%s" % (sp.get("l"), (" " + ">".join(x)) if x else "")
        if k == "call":
            f = t["f"]
            name = f.get("q") or ("(" + pop(f["op"]) + ")")
            if f.get("resolved"):
                name += " => " + f["resolved"]["q"]
            print("    %s = %s(%s) -> bb%s u%s%s" % (pplace(t["dst"]), name, ", ".join(pop(a) for a in t["args"]), t["t"], t["u"], tail))
        elif k == "switch":
            print("    switch %s [%s] else bb%s%s" % (pop(t["d"]), ", ".join("%s->bb%s" % (v, b2) for v, b2 in t["targets"]), t["else"], tail))
        elif k == "assert":
            m = t["msg"]
            print("    assert(%s == %s) %s -> bb%s%s" % (pop(t["cond"]), t["exp"], m["kind"] + (":" + m["op"] if "op" in m else ""), t["t"], tail))
        elif k == "drop":
            print("    drop(%s) -> bb%s u%s%s" % (pplace(t["p"]), t["t"], t["u"], tail))
        elif k == "goto":
            print("    goto bb%s" % t["t"])
        else:
            print("    %s%s" % (k, tail))


if __name__ == "__main__":
    f = F.load(sys.argv[1])
    for b in f.bodies:
        if sys.argv[2] in b.q or sys.argv[2] in b.path:
            dump(b)
