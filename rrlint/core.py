"""Check runner: rule-instance bookkeeping, fail-closed floors, reports, evidence, known findings."""
import hashlib
import json
import os
import re
import sys
import time
import traceback

from . import facts as factsmod

VERIF = factsmod.VERIF
KNOWN_FILE = os.path.join(VERIF, "known_findings.txt")


def load_known():
    """known_findings.txt: lines `known: property=<ID> key=<key> :: <text>` suppress exactly that key.
    `fixed:` lines are documentation and suppress nothing."""
    known = {}
    if not os.path.exists(KNOWN_FILE):
        return known
    for line in open(KNOWN_FILE):
        line = line.strip()
        if not line.startswith("known:"):
            continue
        m = re.match(r"known:\s+property=(\S+)\s+key=(.*?)(?:\s+::\s+(.*))?$", line)
        if m:
            known.setdefault(m.group(1), {})[m.group(2)] = m.group(3) or ""
    return known


class Ctx:
    def __init__(self, prop, tier):
        self.prop = prop
        self.tier = tier
        self.t0 = time.time()
        self.instances = []      # dicts: rule,key,ok,where,detail
        self.violations = []     # dicts
        self.notes = []
        self.configs = {}
        self.rule_counts = {}
        self.floors = {}
        self.controls = {}
        self.assumptions = []
        self.explanations = []
        self.na_counts = {}
        self.override = None     # thorough tier: analyse another build configuration with the same rules
        self.suffix = ""

    # -- facts -----------------------------------------------------------------------
    def facts(self, config="default"):
        if config == "default" and self.override:
            config = self.override
        f = factsmod.load(config, verbose=bool(os.environ.get("RR_VERBOSE")))
        self.configs[config] = {"bodies": len(f.bodies), "adts": len(f.adts), "file": os.path.basename(f.path)}
        return f

    # -- bookkeeping -------------------------------------------------------------------
    def ok(self, rule, key, where="", detail=""):
        self.instances.append(dict(rule=rule, key=key + self.suffix, ok=True, where=where, detail=detail))
        self.rule_counts[rule] = self.rule_counts.get(rule, 0) + 1

    def silent(self, rule, key, where="", why=""):
        """Instance on which the rule has no opinion (imprecision => silence, never an alarm)."""
        self.na_counts[rule] = self.na_counts.get(rule, 0) + 1
        if not hasattr(self, "na_samples"):
            self.na_samples = []
        if len(self.na_samples) < 400:
            self.na_samples.append(dict(rule=rule, instance=key + getattr(self, "suffix", ""), where=where, why=why))

    def bad(self, rule, key, where, msg, detail=None):
        self.instances.append(dict(rule=rule, key=key + self.suffix, ok=False, where=where, detail=msg))
        self.rule_counts[rule] = self.rule_counts.get(rule, 0) + 1
        self.violations.append(dict(rule=rule, key="%s:%s" % (rule, key), where=where, msg=msg, detail=detail or {}))

    def floor(self, rule, minimum, what=""):
        """Fail closed: the rule must have evaluated at least `minimum` instances."""
        if self.override:
            return  # floors are counted on the default configuration
        n = self.rule_counts.get(rule, 0)
        self.floors[rule] = dict(floor=minimum, counted=n, what=what)
        if n < minimum:
            self.violations.append(dict(
                rule=rule, key="%s:floor" % rule, where="",
                msg="rule %s evaluated %d instances, fewer than the %d confirmed by hand (%s): anchor lost, "
                    "the property cannot be shown to hold" % (rule, n, minimum, what), detail={}))

    def anchor(self, rule, cond, what):
        """Fail closed when a def-path / role the rule needs cannot be found."""
        if not cond:
            self.violations.append(dict(rule=rule, key="%s:anchor:%s" % (rule, re.sub(r"\W+", "_", what)[:60]),
                                        where="", msg="anchor not found: %s" % what, detail={}))
        return bool(cond)

    def control(self, rule, fired, what=""):
        """Positive control (E5): the rule must fire on its deliberately wrong twin."""
        if self.override:
            return
        self.controls[rule] = dict(fired=bool(fired), what=what)
        if not fired:
            self.violations.append(dict(rule=rule, key="%s:control" % rule, where="",
                                        msg="positive control did not fire (%s): rule would pass vacuously" % what,
                                        detail={}))

    def explain(self, text):
        self.explanations.append(text)

    def assume(self, text):
        self.assumptions.append(text)


def sanitize(key):
    s = re.sub(r"[^A-Za-z0-9_.-]+", "_", key)
    if len(s) > 120:
        s = s[:100] + "_" + hashlib.sha1(key.encode()).hexdigest()[:12]
    return s


def finish(ctx, level="other"):
    """Write evidence + reports, print verdict lines, return exit code."""
    prop = ctx.prop
    known = load_known().get(prop, {})
    evdir = os.environ.get("RR_EVIDENCE_DIR") or os.path.join(VERIF, "evidence")
    os.makedirs(evdir, exist_ok=True)
    repdir = os.path.join(os.environ.get("RR_REPORT_DIR") or os.path.join(VERIF, "reports"), prop)
    os.makedirs(repdir, exist_ok=True)
    new = []
    knownhits = []
    seen = set()
    for v in ctx.violations:
        if v["key"] in seen:
            continue
        seen.add(v["key"])
        if v["key"] in known:
            knownhits.append(v)
        else:
            new.append(v)
    for v in knownhits:
        print("KNOWN-FINDING: property=%s %s %s -- %s" % (prop, v["key"], v["where"], v["msg"]))
    for v in new:
        path = os.path.join(repdir, sanitize(v["key"]) + ".json")
        with open(path, "w") as f:
            json.dump(dict(property=prop, tier=ctx.tier, **v), f, indent=1, default=str)
        print("VIOLATION property=%s replay=%s" % (prop, path))
        print("  rule=%s key=%s" % (v["rule"], v["key"]))
        print("  at %s: %s" % (v["where"], v["msg"]))
    insts = ctx.instances
    if os.environ.get("RR_DUMP_INSTANCES"):      # triage aid: every instance (rule, key, holds), one per line
        with open(os.environ["RR_DUMP_INSTANCES"], "a") as f:
            for i in insts:
                f.write("%s\t%s\t%s\t%s\n" % (i["rule"], i["key"], i["ok"], str(i.get("detail"))[:300]))
    distinct = len({(i["rule"], i["key"]) for i in insts})
    samples = []
    per_rule_seen = {}
    for i in insts:
        c = per_rule_seen.get(i["rule"], 0)
        if c < 3:
            per_rule_seen[i["rule"]] = c + 1
            samples.append(dict(rule=i["rule"], instance=i["key"], holds=i["ok"], where=i["where"], fact=i["detail"]))
    ev = dict(
        property_id=prop,
        tier=ctx.tier,
        seed=int(os.environ.get("VERIF_SEED", "0") or 0),
        level=level,
        coverage=dict(
            evaluations=len(insts),
            distinct_nontrivial=distinct,
            rule="one evaluation = one rule instance (function / call site / path / type) found in the "
                 "type-checked MIR of /repo's current working tree; distinct = distinct (rule, instance key); "
                 "instances on which a rule is silent (imprecise origin) are counted separately in "
                 "'silent' and never as holding",
            samples=samples[:40],
            explanation=" ".join(ctx.explanations),
            per_rule=ctx.rule_counts,
            silent=ctx.na_counts,
            silent_samples=getattr(ctx, "na_samples", [])[:60],
            floors=ctx.floors,
            positive_controls=ctx.controls,
            configs=ctx.configs,
            not_analysed=["feature audio (cpal system libs absent)", "feature soapysdr (system libs absent)"],
            known_findings=[v["key"] for v in knownhits],
            exhaustive=True,
        ),
        assumptions=ctx.assumptions,
        wall_s=round(time.time() - ctx.t0, 2),
        violations=len(new),
    )
    with open(os.path.join(evdir, prop + ".json"), "w") as f:
        json.dump(ev, f, indent=1, default=str)
    print("%s %s: %d rule instances (%d distinct), %d known findings, %d violations, %.1fs" % (
        prop, ctx.tier, len(insts), distinct, len(knownhits), len(new), time.time() - ctx.t0))
    return 1 if new else 0


THOROUGH_CONFIGS = ["simd", "avx", "fftw", "fastmath", "rtlsdr"]


def run_property(prop, tier, fn):
    ctx = Ctx(prop, tier)
    try:
        fn(ctx)
        if tier == "thorough":
            for cfg in THOROUGH_CONFIGS:
                ctx.override = cfg
                ctx.suffix = "@" + cfg
                saved = list(ctx.explanations), list(ctx.assumptions)
                fn(ctx)
                ctx.explanations, ctx.assumptions = saved
            ctx.override = None
            ctx.suffix = ""
            ctx.explain("THOROUGH: the same rules were also evaluated on the lib built with each of: %s "
                        "(floors and positive controls are counted on the default configuration only)." % ", ".join(THOROUGH_CONFIGS))
    except factsmod.ExtractionError as e:
        ctx.violations.append(dict(rule="extract", key="extract:%s" % e.config, where="",
                                   msg="fact extraction failed for config %s (does /repo still build?)" % e.config,
                                   detail={"log": e.log}))
        sys.stderr.write(e.log[-3000:] + "\n")
    except Exception as e:  # fail closed, but say why
        tb = traceback.format_exc()
        sys.stderr.write(tb)
        ctx.violations.append(dict(rule="internal", key="internal:%s" % type(e).__name__, where="",
                                   msg="checker error: %s" % e, detail={"traceback": tb}))
    return finish(ctx)
