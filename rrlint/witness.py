"""E3: run the compile-time witnesses (compile_fail doctests + compiling twins) against /repo's tree."""
import fcntl
import glob
import hashlib
import json
import os
import re
import shutil
import subprocess

from . import facts as F

_result_cache = {}


def run_witnesses():
    """Return {witness_name: 'ok' | 'FAILED' | 'missing'} plus raw log. Cached per tree state."""
    suffix = os.environ.get("RR_TARGET_SUFFIX", "")
    src = os.path.join(F.VERIF, "witness")
    key = hashlib.sha256((F._hash_tree(F.REPO, F.REPO_TRACKED) + F._hash_tree(src, ["src", "Cargo.toml.in"])).encode()).hexdigest()[:24]
    if key in _result_cache:
        return _result_cache[key]
    cdir = os.path.join(F.CACHE, "witness" + suffix)
    os.makedirs(cdir, exist_ok=True)
    lockf = open(os.path.join(cdir, "lock"), "w")
    fcntl.flock(lockf, fcntl.LOCK_EX)
    try:
        resfile = os.path.join(cdir, key + ".json")
        if os.path.exists(resfile):
            r = json.load(open(resfile))
            _result_cache[key] = r
            return r
        build = os.path.join(cdir, "crate")
        shutil.rmtree(build, ignore_errors=True)
        os.makedirs(os.path.join(build, "src"))
        shutil.copyfile(os.path.join(src, "src", "lib.rs"), os.path.join(build, "src", "lib.rs"))
        toml = open(os.path.join(src, "Cargo.toml.in")).read().replace("@REPO@", F.REPO)
        open(os.path.join(build, "Cargo.toml"), "w").write(toml)
        shutil.copyfile(os.path.join(F.REPO, "Cargo.lock"), os.path.join(build, "Cargo.lock"))
        target = os.path.join(F.CACHE, "target-witness" + suffix)
        for crate in ("rustradio", "rustradio_macros", "rr_witness"):
            for fp in glob.glob(os.path.join(target, "debug", ".fingerprint", crate + "-*")):
                shutil.rmtree(fp, ignore_errors=True)
        env = dict(os.environ, CARGO_NET_OFFLINE="true", CARGO_INCREMENTAL="0", CARGO_TARGET_DIR=target,
                   RUSTFLAGS="-Awarnings", RUSTDOCFLAGS="-Awarnings")
        for k in ("RUSTC_WORKSPACE_WRAPPER", "RUSTC_WRAPPER"):
            env.pop(k, None)
        p = subprocess.run(["cargo", "+nightly", "test", "--doc", "--offline", "--", "--test-threads", "16"],
                           cwd=build, env=env, stdout=subprocess.PIPE, stderr=subprocess.STDOUT, text=True)
        out = p.stdout
        res = {}
        for m in re.finditer(r"^test src/lib\.rs - (\w+) \(line \d+\)(?: - [\w ]+)? \.\.\. (\w+)", out, re.M):
            res[m.group(1)] = m.group(2)
        names = re.findall(r"^pub fn (w_\w+)\(\)", open(os.path.join(src, "src", "lib.rs")).read(), re.M)
        r = dict(results={n: res.get(n, "missing") for n in names}, log=out[-4000:], rc=p.returncode,
                 built="test result:" in out)
        with open(resfile, "w") as f:
            json.dump(r, f)
        def _mt(x):
            try:
                return os.path.getmtime(x)
            except OSError:
                return 0
        for old in sorted(glob.glob(os.path.join(cdir, "*.json")), key=_mt)[:-12]:
            try:
                os.remove(old)
            except OSError:
                pass
        _result_cache[key] = r
        return r
    finally:
        fcntl.flock(lockf, fcntl.LOCK_UN)
        lockf.close()


def report(ctx, rule, prefix):
    """Record the witnesses whose name starts with `prefix` as instances of `rule`."""
    r = run_witnesses()
    if not r["built"]:
        ctx.bad(rule, "witness:build", "", "the witness crate could not be built against /repo (does the public API "
                "still exist?)", {"log": r["log"]})
        return 0
    n = 0
    res = r["results"]
    for name, st in sorted(res.items()):
        if not name.startswith(prefix):
            continue
        n += 1
        twin = name.endswith("_twin")
        if st == "ok":
            ctx.ok(rule, "witness:" + name, "witness/src/lib.rs",
                   "twin compiles" if twin else "violating program is rejected by the compiler with the expected error code")
        elif twin:
            ctx.bad(rule, "witness:" + name, "witness/src/lib.rs",
                    "the compiling twin of a witness no longer compiles (%s): the public API the witness relies on changed, "
                    "so the compile-fail witness proves nothing" % st, {})
        else:
            ctx.bad(rule, "witness:" + name, "witness/src/lib.rs",
                    "a program that violates the typestate discipline now COMPILES (or fails for another reason): %s" % _doc(name), {})
    return n


def _doc(name):
    src = open(os.path.join(F.VERIF, "witness", "src", "lib.rs")).read()
    i = src.find("pub fn %s()" % name)
    if i < 0:
        return name
    head = src[:i].rstrip().split("\n")
    doc = []
    for line in reversed(head):
        if line.startswith("///"):
            doc.append(line[3:].strip())
        else:
            break
    doc.reverse()
    return " ".join(d for d in doc if not d.startswith("```"))[:300]
