"""MIR-level inlining on the fact files' JSON bodies (analysis I).

`extract method` is the commonest refactoring there is, and most path rules here are intra-procedural.  Instead of teaching
every rule to follow helpers, a rule that does not find its anchors in a body can ask for the body with its crate-local
helpers substituted in: the callee's locals and blocks are appended (renumbered), parameters become assignments from the
argument operands, `return` becomes an assignment of the callee's return place to the call's destination followed by a
jump to the call's continuation.  The result is an ordinary `Body` (same `q`/`path` as the caller, so violation keys do not
change) on which origin expressions, facts and searches work unchanged.

Not inlined: closures, recursive calls, trait-object calls (no unique body), bodies from other crates.
"""
import copy

from .mir import Body


def _shift_place(p, loff):
    p["l"] += loff
    for e in p["p"]:
        if isinstance(e, dict) and "ix" in e and isinstance(e["ix"], int):
            e["ix"] += loff


def _walk_places(x, fn):
    """apply fn to every place dict ({'l': int, 'p': list}) inside x, skipping spans and callee descriptions"""
    if isinstance(x, dict):
        if "l" in x and "p" in x and isinstance(x.get("p"), list) and isinstance(x.get("l"), int):
            fn(x)
            return
        for k, v in x.items():
            if k in ("sp", "f", "argtys"):
                continue
            _walk_places(v, fn)
    elif isinstance(x, list):
        for v in x:
            _walk_places(v, fn)


def _shift_promoted(x, poff):
    if isinstance(x, dict):
        if "promoted" in x and isinstance(x["promoted"], int):
            x["promoted"] += poff
        for k, v in x.items():
            if k not in ("sp", "f"):
                _shift_promoted(v, poff)
    elif isinstance(x, list):
        for v in x:
            _shift_promoted(v, poff)


CLOSURE_CALLS = {"std::ops::Fn::call", "std::ops::FnMut::call_mut", "std::ops::FnOnce::call_once"}


def _closure_callee(facts, body, t):
    """`f(x, y)` where f is a closure built in this body: (closure Body, True)"""
    if t["k"] != "call" or t["f"].get("q") not in CLOSURE_CALLS or len(t["args"]) != 2:
        return None
    from .mir import walk, peel
    e = peel(body.operand_expr(t["args"][0]), through_try=False)
    n = 0
    while e is not None and e.k in ("ref", "deref") and n < 4:
        e = peel(e.a, through_try=False)
        n += 1
    if e is not None and e.k == "agg" and e.ak == "closure" and e.q:
        cb = facts.by_path.get(e.q)
        if cb is not None and cb.parent and cb.parent.get("path") == body.path:
            return cb
    if e is not None and e.k == "const" and e.q and e.f:
        # a function item used as the callable (`self.with_state(BufferState::write_range)`)
        cands = [hb for hb in facts.by_q.get(e.q, []) if hb.kind != "closure"]
        if len(cands) == 1 and cands[0].path != body.path:
            return cands[0]
    return None


def _unique_callee(facts, body, t):
    if t["k"] != "call" or "q" not in t["f"]:
        return None
    if t["f"].get("kind") == "traitdecl" and not t["f"].get("resolved"):
        return None
    cands = []
    for q in Body.callee_qs(t):
        for hb in facts.by_q.get(q, []):
            if hb.kind != "closure" and hb not in cands:
                cands.append(hb)
    if len(cands) != 1 or cands[0].path == body.path:
        return None
    return cands[0]


def inline_body(facts, body, pick, depth=2, closures=False):
    """body with every call to a crate-local function hb for which pick(hb) is true substituted in (callee chains up to
    `depth`).  Returns (new Body, [inlined callee q, ..]); the original when nothing was inlined."""
    j = copy.deepcopy(body.j)
    inlined = []
    stack_guard = {body.path}
    for _round in range(depth):
        todo = []
        via_fn_trait = {}
        tmp = Body(j, body.crate)
        reach = tmp.reachable(0)
        for bb in sorted(reach):
            t = j["blocks"][bb]["term"]
            hb = _unique_callee(facts, tmp, t)
            if hb is None and closures:
                cb = _closure_callee(facts, tmp, t)
                if cb is not None and (pick(cb) or cb.kind != "closure"):
                    if cb.kind != "closure":
                        via_fn_trait[bb] = True
                    todo.append((bb, cb))
                continue
            if hb is None or hb.path in stack_guard or not pick(hb) or len(t["args"]) != hb.argc:
                continue
            todo.append((bb, hb))
        if not todo:
            break
        for bb, hb in todo:
            t = j["blocks"][bb]["term"]
            if via_fn_trait.get(bb):
                # `FnOnce::call_once(fn_item, (a1, a2, ..))` becomes the direct call `fn_item(a1, a2, ..)`: the callee stays a
                # call (rules know the ring's accessors by name), only the indirection through the Fn trait goes away
                fe = None
                from .mir import peel as _peel
                e = _peel(tmp.operand_expr(t["args"][0]), through_try=False)
                n_ = 0
                while e is not None and e.k in ("ref", "deref") and n_ < 4:
                    e = _peel(e.a, through_try=False)
                    n_ += 1
                tup = t["args"][1].get("m") or t["args"][1].get("c")
                if e is not None and e.k == "const" and e.f and tup is not None:
                    t["f"] = dict(e.f)
                    t["args"] = [{"c": {"l": tup["l"], "p": list(tup["p"]) + [{"f": i, "n": None, "o": None, "v": None}]}} for i in range(hb.argc)]
                    t["argtys"] = []
                    inlined.append("call:" + hb.q)
                continue
            loff = len(j["locals"])
            boff = len(j["blocks"])
            poff = len(j.get("promoted") or [])
            hj = copy.deepcopy(hb.j)
            j["locals"].extend(hj["locals"])
            if hj.get("promoted"):
                j.setdefault("promoted", [])
                pr = hj["promoted"]
                _walk_places(pr, lambda p: None)     # promoted bodies have their own local numbering: untouched
                j["promoted"].extend(pr)
            for v in hj.get("vars", []):
                v2 = copy.deepcopy(v)
                _walk_places(v2, lambda p: _shift_place(p, loff))
                v2["name"] = v2["name"] if v2["name"] != "self" else "self@" + hb.name
                j.setdefault("vars", []).append(v2)
            cont = t.get("t")
            unwind = t.get("u")
            dst = t["dst"]
            for hbb, hblk in enumerate(hj["blocks"]):
                _walk_places(hblk, lambda p: _shift_place(p, loff))
                if poff:
                    _shift_promoted(hblk, poff)
                ht = hblk["term"]
                k = ht["k"]
                if k == "goto":
                    ht["t"] += boff
                elif k == "switch":
                    ht["targets"] = [[v, b2 + boff] for v, b2 in ht["targets"]]
                    ht["else"] += boff
                elif k in ("call", "drop", "assert"):
                    if ht.get("t") is not None:
                        ht["t"] += boff
                    if ht.get("u") is not None:
                        ht["u"] += boff
                elif k == "return":
                    sp = ht.get("sp") or t.get("sp")
                    hblk["stmts"].append({"k": "assign", "dst": copy.deepcopy(dst),
                                          "rv": {"k": "use", "a": {"m": {"l": loff, "p": []}}}, "sp": sp, "inl": "ret"})
                    if cont is not None:
                        hblk["term"] = {"k": "goto", "t": cont}
                    else:
                        hblk["term"] = {"k": "unreachable"}
                elif k == "resume":
                    if unwind is not None:
                        hblk["term"] = {"k": "goto", "t": unwind}
                j["blocks"].append(hblk)
            # the call block: parameters := arguments, then enter the callee
            blk = j["blocks"][bb]
            if hb.kind == "closure":
                # rust-call ABI: the call passes (&closure, (a1, a2, ..)); the body takes (_1 = closure, _2 = a1, _3 = a2, ..)
                blk["stmts"].append({"k": "assign", "dst": {"l": loff + 1, "p": []}, "rv": {"k": "use", "a": copy.deepcopy(t["args"][0])},
                                     "sp": t.get("sp"), "inl": "arg"})
                tup = t["args"][1].get("m") or t["args"][1].get("c")
                for i in range(hb.argc - 1):
                    if tup is None:
                        break
                    pl = {"l": tup["l"], "p": list(tup["p"]) + [{"f": i, "n": None, "o": None, "v": None}]}
                    blk["stmts"].append({"k": "assign", "dst": {"l": loff + 2 + i, "p": []}, "rv": {"k": "use", "a": {"c": pl}},
                                         "sp": t.get("sp"), "inl": "arg"})
                blk["term"] = {"k": "goto", "t": boff, "sp": t.get("sp"), "inl_call": hb.q}
                inlined.append(hb.q)
                continue
            for i, a in enumerate(t["args"]):
                blk["stmts"].append({"k": "assign", "dst": {"l": loff + 1 + i, "p": []}, "rv": {"k": "use", "a": copy.deepcopy(a)},
                                     "sp": t.get("sp"), "inl": "arg"})
            blk["term"] = {"k": "goto", "t": boff, "sp": t.get("sp"), "inl_call": hb.q}
            inlined.append(hb.q)
            stack_guard.add(hb.path)
    if not inlined:
        return body, []
    nb = Body(j, body.crate)
    nb.inlined = inlined
    return nb, inlined
