"""Shared analyses used by several rule modules (DESIGN §3)."""
from collections import defaultdict, deque

from .mir import E, peel, walk, Body, show

# ---- repository roles (repo_model): names that cannot be inferred, each anchored ------------
READ_ENDS = ("stream::ReadStream", "stream::NCReadStream")
WRITE_ENDS = ("stream::WriteStream", "stream::NCWriteStream")
WINDOW_TYPES = ("circular_buffer::BufferReader", "circular_buffer::BufferWriter")
BLOCK_TRAIT = "block::Block"
BLOCKRET = "block::BlockRet"
ERROR_ADT = "Error"

STRONG_COUNT = "std::sync::Arc::strong_count"
MUTEX_LOCK = "std::sync::Mutex::lock"
CONDVAR_TIMED = {"std::sync::Condvar::wait_timeout_while", "std::sync::Condvar::wait_timeout",
                 "std::sync::Condvar::wait_timeout_ms"}
CONDVAR_UNTIMED = {"std::sync::Condvar::wait", "std::sync::Condvar::wait_while"}


# ---- call graph -----------------------------------------------------------------------
class CallGraph:
    def __init__(self, facts):
        self.facts = facts
        self.out = defaultdict(set)   # body path -> set(callee q)
        self.local_q = set(facts.by_q.keys())
        for b in facts.bodies:
            for i, t in b.calls():
                for q in Body.callee_qs(t):
                    self.out[b.q].add(q)
                # functions passed by name (`.map(parse_sample)`) are considered called
                for a in t["args"]:
                    fn = (a.get("k") or {}).get("fn")
                    if fn:
                        self.out[b.q].add(fn["q"])
                        if fn.get("resolved"):
                            self.out[b.q].add(fn["resolved"]["q"])
            for blk in b.blocks:
                for st in blk["stmts"]:
                    if st["k"] == "assign":
                        rv = st["rv"]
                        for o in ([rv["a"]] if rv["k"] in ("use", "cast") else rv.get("ops", []) if rv["k"] == "agg" else []):
                            fn = (o.get("k") or {}).get("fn")
                            if fn:
                                self.out[b.q].add(fn["q"])
            # closures defined in b are considered called by b
        for b in facts.bodies:
            if b.kind == "closure" and b.parent_q:
                self.out[b.parent_q].add(b.q)

    def transitive(self, seeds, depth=3):
        """Set of local body q's that (within `depth` call levels) call any q in `seeds`."""
        seeds = set(seeds)
        result = set()
        level = set(seeds)
        for _ in range(depth):
            nxt = set()
            for q, outs in self.out.items():
                if q in result:
                    continue
                if outs & (level | result):
                    nxt.add(q)
            nxt -= result
            if not nxt:
                break
            result |= nxt
            level = nxt
        return result

    def reachable_bodies(self, roots):
        """All local body q's reachable from roots through calls (and closures)."""
        seen = set()
        dq = deque(roots)
        while dq:
            q = dq.popleft()
            if q in seen:
                continue
            seen.add(q)
            for c in self.out.get(q, ()):
                if c in self.local_q and c not in seen:
                    dq.append(c)
        return seen


# ---- switch-edge facts (analysis C) --------------------------------------------------------
def switch_edges(body, bb):
    """For a switch terminator return list of (target_bb, value or None for otherwise)."""
    t = body.term(bb)
    if t["k"] != "switch":
        return []
    out = [(x[1], x[0]) for x in t["targets"]]
    out.append((t["else"], None))
    return out


def switch_discr_expr(body, bb):
    t = body.term(bb)
    return body.operand_expr(t["d"])


def bool_edge_targets(body, bb):
    """For a switch on a bool: return (true_target, false_target) or None."""
    t = body.term(bb)
    if t["k"] != "switch" or t.get("dty") != "bool":
        return None
    tgt = {v: b for b, v in switch_edges(body, bb) if v is not None}
    other = t["else"]
    if 0 in tgt:
        return (other, tgt[0])
    if 1 in tgt:
        return (tgt[1], other)
    return None


def reachable_without_edges(body, start, removed_edges, avoid=()):
    """Blocks reachable from start when the CFG edges in removed_edges (set of (a,b)) are cut."""
    return body.reachable(start, avoid=avoid, edge_filter=lambda a, b: (a, b) not in removed_edges)


def infeasible_edges(body):
    """CFG edges no execution takes: the false side of `0 <= x` / `x >= 0` and the true side of `x < 0` / `0 > x` for an
    unsigned x (a range pattern `0..=23` on a usize is compiled with both bounds tested)"""
    cached = getattr(body, "_infeasible", None)
    if cached is not None:
        return cached
    out = set()
    for s in sorted(body.reachable(0)):
        t = body.term(s)
        if t["k"] != "switch" or t.get("dty") != "bool":
            continue
        e = peel(switch_discr_expr(body, s), through_try=False)
        if e is None or e.k != "bin" or e.op not in ("Le", "Ge", "Lt", "Gt"):
            continue
        a, b = peel(e.a, through_try=False), peel(e.b, through_try=False)
        uns = lambda x: str(getattr(x, "ty", "") or "").startswith(("usize", "u8", "u16", "u32", "u64", "u128"))
        always = None
        if e.op == "Le" and a.k == "const" and a.v == 0 and uns(a):
            always = True
        elif e.op == "Ge" and b.k == "const" and b.v == 0 and uns(b):
            always = True
        elif e.op == "Lt" and b.k == "const" and b.v == 0 and uns(b):
            always = False
        elif e.op == "Gt" and a.k == "const" and a.v == 0 and uns(a):
            always = False
        if always is None:
            continue
        bt = bool_edge_targets(body, s)
        if not bt or bt[0] == bt[1]:
            continue
        tr, fa = bt
        out.add((s, fa if always else tr))
    body._infeasible = out
    return out


def must_pass_edge(body, target_bb, edge):
    """True iff every path entry->target_bb uses CFG edge `edge` (a,b).  Under `restricted_paths(body, avoid)` only paths that
    stay clear of the avoided blocks are considered."""
    if target_bb == 0:
        return False
    inf = infeasible_edges(body)
    cut = ({edge} | inf) if inf else {edge}
    av = getattr(body, "_avoid", None)
    if av:
        if 0 in av or target_bb in av or target_bb not in body.reachable(0, avoid=av):
            return False
        return target_bb not in reachable_without_edges(body, 0, cut, avoid=av)
    if target_bb not in reachable_without_edges(body, 0, cut):
        return True
    if getattr(body, "inlined", None):
        # an inlined view: a helper's result joins before the caller matches on it (`match self.fetch()? { Nothing => ..}`), so
        # the plain CFG loses the edge; ask the value-sensitive search (cached per edge)
        cache = getattr(body, "_vs_cut", None)
        if cache is None:
            cache = body._vs_cut = {}
        if edge not in cache:
            try:
                r, _ = flag_search(body, [0], cut_edges={edge}, track_bools=False, max_states=60000)
                cache[edge] = set(r) if r is not None else None
            except Exception:
                cache[edge] = None
        if cache[edge] is not None and target_bb not in cache[edge]:
            return True
    return False


class restricted_paths:
    """`with restricted_paths(body, avoid):` - inside, facts_at / facts_at_e / known_ge / must_pass_edge speak about the paths
    from entry that never enter a block of `avoid` (facts that hold on every such path, mutations only on such paths)"""

    def __init__(self, body, avoid):
        self.body, self.avoid = body, frozenset(avoid)

    def _clear(self):
        for a in ("_facts_at", "_facts_at_e"):
            if hasattr(self.body, a):
                delattr(self.body, a)

    def __enter__(self):
        self._clear()
        self.body._avoid = self.avoid
        return self

    def __exit__(self, *a):
        self.body._avoid = None
        self._clear()
        return False


def assigns_to_return(body):
    """Yield (bb, stmt_index|'term', expr) for each definition of _0."""
    for bb, si, kind, payload in body.defs().get(0, []):
        if kind == "rv":
            yield bb, si, body.rvalue_expr(payload)
        else:
            yield bb, si, body.call_expr(bb, payload)


def is_const(e, v):
    return e is not None and e.k == "const" and e.v is not None and e.v == v and (isinstance(e.v, bool) == isinstance(v, bool))


# ---- lock-guard liveness (must analysis) ---------------------------------------------------
GUARD_ADTS = ("std::sync::MutexGuard",)


def guard_locals(body):
    return {i for i, l in enumerate(body.locals) if any(a in GUARD_ADTS for a in l["adts"])
            and not l["ty"].startswith("&")}


def _operand_moves(op):
    if "m" in op:
        return op["m"]["l"]
    return None


def guards_held_at_entry(body):
    """Forward must-analysis: for each block, the set of guard-carrying locals that definitely hold
    a lock at block entry; also returns the set held just before each terminator."""
    gl = guard_locals(body)
    if not gl:
        return {}, {}
    n = body.n
    TOP = None
    inn = [TOP] * n
    before_term = {}
    inn[0] = frozenset()
    work = deque([0])
    while work:
        b = work.popleft()
        cur = set(inn[b])
        blk = body.blocks[b]
        for s in blk["stmts"]:
            if s["k"] != "assign":
                continue
            rv = s["rv"]
            # moves out
            for op in _rv_operands(rv):
                m = _operand_moves(op)
                if m in cur:
                    cur.discard(m)
            d = s["dst"]
            if not d["p"] and d["l"] in gl:
                cur.add(d["l"])
        t = blk["term"]
        before_term[b] = frozenset(cur)
        after = set(cur)
        if t["k"] == "call":
            for op in t["args"]:
                m = _operand_moves(op)
                if m in after:
                    after.discard(m)
            d = t["dst"]
            if not d["p"] and d["l"] in gl:
                after.add(d["l"])
        elif t["k"] == "drop":
            p = t["p"]
            if not p["p"] and p["l"] in after:
                after.discard(p["l"])
        for s in body.succ[b]:
            new = frozenset(after) if inn[s] is TOP else (inn[s] & frozenset(after))
            if new != inn[s]:
                inn[s] = new
                work.append(s)
    return inn, before_term


def _rv_operands(rv):
    k = rv["k"]
    if k in ("use", "un", "cast", "repeat"):
        return [rv["a"]]
    if k == "bin":
        return [rv["a"], rv["b"]]
    if k == "agg":
        return rv["ops"]
    return []


# ---- SCCs / loops -----------------------------------------------------------------------
def sccs(body, nodes=None, removed=()):
    """Tarjan SCCs over normal (non-unwind) edges restricted to `nodes` minus `removed`."""
    if nodes is None:
        nodes = body.reachable(0)
    nodes = set(nodes) - set(removed)
    index = {}
    low = {}
    onstack = set()
    stack = []
    out = []
    counter = [0]

    def strong(v):
        # iterative Tarjan
        work = [(v, iter([s for s in body.succ[v] if s in nodes]))]
        index[v] = low[v] = counter[0]
        counter[0] += 1
        stack.append(v)
        onstack.add(v)
        while work:
            node, it = work[-1]
            advanced = False
            for w in it:
                if w not in index:
                    index[w] = low[w] = counter[0]
                    counter[0] += 1
                    stack.append(w)
                    onstack.add(w)
                    work.append((w, iter([s for s in body.succ[w] if s in nodes])))
                    advanced = True
                    break
                elif w in onstack:
                    low[node] = min(low[node], index[w])
            if advanced:
                continue
            work.pop()
            if work:
                parent = work[-1][0]
                low[parent] = min(low[parent], low[node])
            if low[node] == index[node]:
                comp = set()
                while True:
                    w = stack.pop()
                    onstack.discard(w)
                    comp.add(w)
                    if w == node:
                        break
                out.append(comp)

    for v in sorted(nodes):
        if v not in index:
            strong(v)
    return out


def scc_of(body, bb, removed=()):
    """The non-trivial SCC (loop) containing bb, or None."""
    for c in sccs(body, removed=removed):
        if bb in c:
            if len(c) > 1 or bb in body.succ[bb]:
                return c
            return None
    return None


def loop_exits(body, comp):
    """Normal CFG edges leaving the component."""
    out = []
    for u in comp:
        for v in body.succ[u]:
            if v not in comp and body.term(v)["k"] != "unreachable":
                out.append((u, v))
    return out


# ---- flag-sensitive path search (analysis D) ----------------------------------------------
def _bool_locals(body):
    return {i for i, l in enumerate(body.locals) if l["ty"] == "bool"}


def _vkey(kv):
    return repr(kv[0])


def _bool_tuple_locals(body):
    """{local: arity} for locals of type (bool, bool, ..) and of crate structs whose fields are all bool (`PassSummary { done,
    all_idle }`)"""
    out = {}
    try:
        from .effects import _FACTS_FOR_VERDICTS
        facts = _FACTS_FOR_VERDICTS.get(id(body))
    except Exception:
        facts = None
    for i, l in enumerate(body.locals):
        ty = l["ty"].replace(" ", "")
        if ty.startswith("(bool") and ty.endswith(")") and set(ty[1:-1].split(",")) <= {"bool", ""}:
            out[i] = len([x for x in ty[1:-1].split(",") if x])
        elif facts is not None and l["ty"] in facts.adts:
            a = facts.adts[l["ty"]]
            if a["kind"] == "struct" and a["variants"] and a["variants"][0]["fields"] and \
                    all(f["ty"]["s"] == "bool" for f in a["variants"][0]["fields"]):
                out[i] = len(a["variants"][0]["fields"])
    return out


def _enum_locals(body):
    """locals whose type is a field-less enum of the crate under analysis (a small finite state: tracked like the bools),
    plus the integer temporaries that hold their discriminants"""
    try:
        from .effects import _FACTS_FOR_VERDICTS
        facts = _FACTS_FOR_VERDICTS.get(id(body))
    except Exception:
        facts = None
    if facts is None:
        return {}, set()
    plain = {}
    for path, a in facts.adts.items():
        if a["kind"] == "enum" and a["variants"] and all(not v["fields"] for v in a["variants"]):
            ordered = any(im.get("self_adt") == path and im.get("trait") == "std::cmp::Ord" and im.get("derived") for im in facts.impls)
            plain[path] = ordered
    out = {}
    carriers = {}      # local -> index of the "success" variant (Ok / Some / Continue); the payload is tracked when it is a plain enum
    for i, l in enumerate(body.locals):
        ty = l["ty"]
        if ty in plain:
            out[i] = plain[ty]
            continue
        if ty.startswith("std::result::Result<"):
            carriers[i] = 0
        elif ty.startswith("std::option::Option<"):
            carriers[i] = 1
        elif ty.startswith("std::ops::ControlFlow<"):
            carriers[i] = 0
    fel = set()        # locals of crate enums that have variants with fields: tracked as ("V", variant index, bool payloads)
    withf = {path for path, a in facts.adts.items() if a["kind"] == "enum" and a["variants"] and path not in plain
             and not path.startswith(("std::", "core::", "alloc::"))}
    for i, l in enumerate(body.locals):
        ty = l["ty"]
        base = ty.split("<", 1)[0]
        if base in withf and i not in carriers and i not in out:
            fel.add(i)
    body._fel = fel
    discr_tmps = set()
    for blk in body.blocks:
        for st in blk["stmts"]:
            if st["k"] == "assign" and st["rv"]["k"] == "discr" and not st["dst"]["p"]:
                pl = st["rv"]["p"]
                if not pl["p"] and (pl["l"] in out or pl["l"] in carriers or pl["l"] in fel):
                    discr_tmps.add(st["dst"]["l"])
                elif pl["l"] in carriers and _is_payload_proj(pl["p"]):
                    discr_tmps.add(st["dst"]["l"])
    body._carriers = carriers
    return out, discr_tmps


def _is_payload_proj(p):
    """projection `(x as Variant).0`"""
    return len(p) == 2 and isinstance(p[0], dict) and "d" in p[0] and isinstance(p[1], dict) and p[1].get("f") == 0


def flag_search(body, starts, init=None, stop=(), cut_edges=(), call_results=None, avoid=(), max_states=200000, on_state=None, stmt_results=None, track_bools=True):
    """Explicit-state reachability over (block, valuation of bool locals with known value).

    starts: iterable of blocks to start at (entered at their first statement)
    init:   dict local->bool, valuation at the starts
    stop:   blocks that are recorded as reached but not expanded
    avoid:  blocks never entered
    cut_edges: set of (a,b) CFG edges never taken
    call_results: {bb: bool}: the bool result of the call terminating bb is known
    Returns (reached_blocks, reached_edges).
    """
    bl = _bool_locals(body) if track_bools else set()
    btl = _bool_tuple_locals(body) if track_bools else {}
    el, discr_tmps = _enum_locals(body)
    carriers = getattr(body, "_carriers", None) or {}
    fel = getattr(body, "_fel", None) or set()
    init = dict(init or {})
    call_results = call_results or {}
    stop = set(stop)
    avoid = set(avoid)
    cut = set(cut_edges)
    seen = set()
    reached = set()
    edges = set()
    stack = [(s, tuple(sorted(init.items(), key=_vkey))) for s in starts]
    while stack:
        bb, val = stack.pop()
        if (bb, val) in seen:
            continue
        seen.add((bb, val))
        if len(seen) > max_states:
            # give up on precision: fall back to plain reachability (over-approximation)
            r = body.reachable(list(starts), avoid=avoid | stop, edge_filter=lambda a, b: (a, b) not in cut)
            for x in list(r):
                for s in body.succ[x]:
                    if s in stop:
                        r.add(s)
            return r, None
        reached.add(bb)
        if bb in stop:
            continue
        v = dict(val)
        blk = body.blocks[bb]
        if on_state is not None and blk["term"]["k"] == "return":
            # valuation at a return is the one after the block's statements: computed below, reported there
            pass
        for si_, s in enumerate(blk["stmts"]):
            if s["k"] != "assign":
                continue
            d = s["dst"]
            if d["p"]:
                if d["l"] in btl and len(d["p"]) == 1 and isinstance(d["p"][0], dict) and "f" in d["p"][0]:
                    # `pass.done = false;`
                    x_ = _op_bool(s["rv"]["a"], v) if s["rv"]["k"] == "use" else None
                    if x_ is None:
                        v.pop((d["l"], d["p"][0]["f"]), None)
                    else:
                        v[(d["l"], d["p"][0]["f"])] = x_
                continue
            l = d["l"]
            if l in btl:
                # a tuple of bools built to be matched on: `match (closed, available < need)`
                rv = s["rv"]
                for i_ in range(btl[l]):
                    v.pop((l, i_), None)
                if rv["k"] == "agg" and rv.get("ak") in ("tuple", "adt") and len(rv["ops"]) == btl[l]:
                    for i_, o_ in enumerate(rv["ops"]):
                        x_ = _op_bool(o_, v)
                        if x_ is not None:
                            v[(l, i_)] = x_
                elif rv["k"] == "use":
                    q = rv["a"].get("c") or rv["a"].get("m")
                    if q is not None and not q["p"] and q["l"] in btl:
                        for i_ in range(btl[l]):
                            if isinstance(v.get((q["l"], i_)), bool):
                                v[(l, i_)] = v[(q["l"], i_)]
                    elif q is not None and q["l"] in carriers and _is_payload_proj(q["p"]):
                        cv = v.get(q["l"])          # `let pass = self.run_pass(..)?;`
                        if isinstance(cv, tuple) and cv and cv[0] == "W" and isinstance(cv[1], tuple) and cv[1] and cv[1][0] == "B":
                            for i_, x_ in enumerate(cv[1][1][:btl[l]]):
                                if isinstance(x_, bool):
                                    v[(l, i_)] = x_
                continue
            if l in fel:
                rv = s["rv"]
                nv = None
                if rv["k"] == "agg" and rv.get("vi") is not None:
                    nv = ("V", int(rv["vi"]), tuple(_op_bool(o_, v) for o_ in rv["ops"]))
                elif rv["k"] == "use":
                    q = rv["a"].get("c") or rv["a"].get("m")
                    if q is not None and not q["p"] and q["l"] in fel and isinstance(v.get(q["l"]), tuple):
                        nv = v[q["l"]]
                    elif q is not None and q["l"] in carriers and _is_payload_proj(q["p"]):
                        cv = v.get(q["l"])          # `(result as Continue).0` of a helper that returned Ok(Enum::Variant(..))
                        if isinstance(cv, tuple) and cv and cv[0] == "W" and isinstance(cv[1], tuple) and cv[1] and cv[1][0] == "V":
                            nv = cv[1]
                if nv is None:
                    v.pop(l, None)
                else:
                    v[l] = nv
                continue
            if l in carriers:
                # Result<E,_> / Option<E> / ControlFlow<_,E> around a tracked enum E: ("W", variants) = the carrying variant
                # with that payload, ("X",) = the other variant
                rv = s["rv"]
                nv = None
                if rv["k"] == "agg" and rv.get("vi") is not None:
                    if int(rv["vi"]) == carriers[l]:
                        nv = ("W", None)
                        if len(rv["ops"]) == 1:
                            q = rv["ops"][0].get("c") or rv["ops"][0].get("m")
                            if q is not None and not q["p"] and isinstance(v.get(q["l"]), tuple) and v[q["l"]] and v[q["l"]][0] not in ("W", "X"):
                                nv = ("W", v[q["l"]])        # a plain-enum value (tuple of variant indices) or a ("V", ..) value
                            elif q is not None and not q["p"] and q["l"] in btl:
                                nv = ("W", ("B", tuple(v.get((q["l"], i_)) for i_ in range(btl[q["l"]]))))
                            else:
                                bv = _op_bool(rv["ops"][0], v)      # `Ok(false)` / `Some(flag)`: a plain bool payload
                                if isinstance(bv, bool):
                                    nv = ("W", ("b", bv))
                    else:
                        nv = ("X",)
                elif rv["k"] == "use":
                    q = rv["a"].get("c") or rv["a"].get("m")
                    if q is not None and not q["p"] and q["l"] in carriers and isinstance(v.get(q["l"]), tuple):
                        nv = v[q["l"]]
                if nv is None:
                    v.pop(l, None)
                else:
                    v[l] = nv
                continue
            if l in el or l in discr_tmps:
                rv = s["rv"]
                nv = None
                if l in el and rv["k"] == "use" and (rv["a"].get("c") or rv["a"].get("m")) is not None \
                        and (rv["a"].get("c") or rv["a"].get("m"))["l"] in carriers and _is_payload_proj((rv["a"].get("c") or rv["a"].get("m"))["p"]):
                    cv = v.get((rv["a"].get("c") or rv["a"].get("m"))["l"])
                    if isinstance(cv, tuple) and cv and cv[0] == "W" and cv[1] is not None:
                        v[l] = cv[1]
                    else:
                        v.pop(l, None)
                    continue
                if l in discr_tmps and rv["k"] == "discr" and rv["p"]["l"] in fel and not rv["p"]["p"]:
                    cv = v.get(rv["p"]["l"])
                    if isinstance(cv, tuple) and cv and cv[0] == "V":
                        v[l] = (cv[1],)
                    else:
                        v.pop(l, None)
                    continue
                if l in discr_tmps and rv["k"] == "discr" and rv["p"]["l"] in carriers:
                    cv = v.get(rv["p"]["l"])
                    if isinstance(cv, tuple) and cv:
                        if not rv["p"]["p"]:
                            nv = (carriers[rv["p"]["l"]],) if cv[0] == "W" else ((1 - carriers[rv["p"]["l"]],) if cv[0] == "X" else None)
                        elif cv[0] == "W" and cv[1] is not None and _is_payload_proj(rv["p"]["p"]):
                            nv = (cv[1][1],) if cv[1] and cv[1][0] == "V" else cv[1]
                    if nv is None:
                        v.pop(l, None)
                    else:
                        v[l] = nv
                    continue
                if l in el:
                    if rv["k"] == "agg" and rv.get("vi") is not None and not rv["ops"]:
                        nv = (int(rv["vi"]),)
                    elif rv["k"] == "use":
                        q = rv["a"].get("c") or rv["a"].get("m")
                        if q is not None and not q["p"] and isinstance(v.get(q["l"]), tuple):
                            nv = v[q["l"]]
                        elif "k" in rv["a"]:
                            # a constant of the enum type: `const PassState::Finished` - the driver prints its name
                            nm = (rv["a"]["k"].get("s") or "").split("::")[-1]
                            try:
                                from .effects import _FACTS_FOR_VERDICTS
                                a_ = _FACTS_FOR_VERDICTS[id(body)].adts.get(body.locals[l]["ty"])
                                names = [x["name"] for x in a_["variants"]]
                                if nm in names:
                                    nv = (names.index(nm),)
                            except Exception:
                                nv = None
                elif rv["k"] == "discr":
                    src = rv["p"]["l"]
                    if isinstance(v.get(src), tuple):
                        nv = v[src]
                if nv is None:
                    v.pop(l, None)
                else:
                    v[l] = nv
                continue
            if l not in bl:
                continue
            rv = s["rv"]
            nv = None
            if stmt_results and (bb, si_) in stmt_results:
                v[l] = stmt_results[(bb, si_)]
                continue
            if rv["k"] == "use":
                nv = _op_bool(rv["a"], v)
            elif rv["k"] == "un" and rv["op"] == "Not":
                x = _op_bool(rv["a"], v)
                nv = (not x) if x is not None else None
            if nv is None:
                v.pop(l, None)
            else:
                v[l] = nv
        t = blk["term"]
        k = t["k"]
        nxt = []
        if on_state is not None:
            on_state(bb, v)
        ival = None
        if k == "switch" and t.get("dty") != "bool":
            q = t["d"].get("c") or t["d"].get("m")
            if q is not None and not q["p"] and q["l"] in discr_tmps:
                iv = v.get(q["l"])
                if isinstance(iv, tuple):
                    ival = iv
        if ival is not None:
            nxt = []
            for one in ival:
                tgt = None
                for val_, b2 in t["targets"]:
                    if val_ == one:
                        tgt = b2
                tgt = tgt if tgt is not None else t["else"]
                if tgt not in nxt:
                    nxt.append(tgt)
        elif k == "switch":
            dv = _op_bool(t["d"], v) if t.get("dty") == "bool" else None
            if dv is not None:
                tgt = None
                for val_, b2 in t["targets"]:
                    if val_ == (1 if dv else 0):
                        tgt = b2
                if tgt is None:
                    tgt = t["else"]
                nxt = [tgt]
            else:
                nxt = [x[1] for x in t["targets"]] + [t["else"]]
        elif k == "call" and not t["dst"]["p"] and t["dst"]["l"] in el:
            d = t["dst"]
            nm = t["f"].get("name")
            res = None
            if nm in ("max", "min") and el.get(d["l"]) and len(t["args"]) == 2:
                vals = []
                try:
                    from .effects import _FACTS_FOR_VERDICTS
                    nvar = len(_FACTS_FOR_VERDICTS[id(body)].adts[body.locals[d["l"]]["ty"]]["variants"])
                except Exception:
                    nvar = 0
                for a_ in t["args"]:
                    q = a_.get("c") or a_.get("m")
                    if q is not None and not q["p"] and isinstance(v.get(q["l"]), tuple):
                        vals.append(v[q["l"]])
                    elif q is not None and not q["p"] and q["l"] in el and nvar:
                        vals.append(tuple(range(nvar)))        # unknown: any variant
                    elif "k" in a_:
                        nm2 = (a_["k"].get("s") or "").split("::")[-1]
                        try:
                            from .effects import _FACTS_FOR_VERDICTS
                            names = [x["name"] for x in _FACTS_FOR_VERDICTS[id(body)].adts[body.locals[d["l"]]["ty"]]["variants"]]
                            if nm2 in names:
                                vals.append((names.index(nm2),))
                        except Exception:
                            pass
                if len(vals) == 2:
                    f_ = max if nm == "max" else min
                    res = tuple(sorted({f_(a1, b1) for a1 in vals[0] for b1 in vals[1]}))
            if res is None:
                v.pop(d["l"], None)
            else:
                v[d["l"]] = res
            if t.get("t") is not None:
                nxt = [t["t"]]
        elif k == "call" and not t["dst"]["p"] and t["dst"]["l"] in carriers:
            d = t["dst"]
            res = None
            if t["f"].get("name") == "from_residual":
                res = ("X",)                  # FromResidual::from_residual builds the Err / None / Break value
            if t["f"].get("name") == "branch" and len(t["args"]) == 1:
                q = t["args"][0].get("c") or t["args"][0].get("m")
                if q is not None and not q["p"] and q["l"] in carriers and isinstance(v.get(q["l"]), tuple):
                    res = v[q["l"]]           # Ok(x) -> Continue(x); Err -> Break
            if res is None:
                v.pop(d["l"], None)
            else:
                v[d["l"]] = res
            if t.get("t") is not None:
                nxt = [t["t"]]
        elif k == "call":
            d = t["dst"]
            if not d["p"] and d["l"] in bl:
                if bb in call_results:
                    v[d["l"]] = call_results[bb]
                else:
                    v.pop(d["l"], None)
            if t.get("t") is not None:
                nxt = [t["t"]]
        else:
            nxt = body.succ[bb]
        nv = tuple(sorted(v.items(), key=_vkey))
        for s in nxt:
            if (bb, s) in cut or s in avoid:
                continue
            edges.add((bb, s))
            stack.append((s, nv))
    return reached, edges


def _op_bool(op, v):
    if "k" in op:
        x = op["k"].get("v")
        return x if isinstance(x, bool) else None
    p = op.get("c") or op.get("m")
    if p is not None and not p["p"]:
        return v.get(p["l"])
    if p is not None and len(p["p"]) == 1 and isinstance(p["p"][0], dict) and "f" in p["p"][0]:
        x = v.get((p["l"], p["p"][0]["f"]))
        return x if isinstance(x, bool) else None
    if p is not None and len(p["p"]) == 2 and isinstance(p["p"][0], dict) and "d" in p["p"][0] and isinstance(p["p"][1], dict) and "f" in p["p"][1]:
        cv = v.get(p["l"])                  # `(after as Waited).0` of a tracked enum-with-fields value
        if isinstance(cv, tuple) and cv and cv[0] == "V" and p["p"][0].get("i") == cv[1] and p["p"][1]["f"] < len(cv[2]):
            x = cv[2][p["p"][1]["f"]]
            return x if isinstance(x, bool) else None
        if isinstance(cv, tuple) and len(cv) == 2 and cv[0] == "W" and isinstance(cv[1], tuple) and len(cv[1]) == 2 and cv[1][0] == "b" and p["p"][1]["f"] == 0:
            return cv[1][1]                 # `(r as Continue).0` of a carrier known to hold a plain bool
    return None


def enum_variants(facts, adt):
    a = facts.adts.get(adt)
    if not a:
        return None
    return [v["name"] for v in a["variants"]]


def discr_switch_arms(body, facts, bb, adt_variants):
    """For a switch on discr(x): {variant name: target bb}."""
    t = body.term(bb)
    out = {}
    for val, tgt in t["targets"]:
        if 0 <= val < len(adt_variants):
            out[adt_variants[val]] = tgt
    out["_otherwise"] = t["else"]
    return out


def variant_target(body, sbb, idx, nvariants):
    """Target block of a discriminant switch for variant index idx (taking the otherwise edge when
    idx is not listed explicitly and all other variants are)."""
    t = body.term(sbb)
    tg = {val: b for val, b in t["targets"]}
    if idx in tg:
        return tg[idx]
    others = set(range(nvariants)) - {idx}
    if others <= set(tg):
        return t["else"]
    return None


def reach_avoiding(body, start, avoid):
    """Blocks reachable from start without entering `avoid`; empty if start itself is avoided."""
    if start in avoid:
        return set()
    r = body.reachable(start, avoid=avoid)
    # value-sensitive refinement (verdicts classified into a local enum and matched on later, helpers' Option/Result results)
    try:
        r2, _ = flag_search(body, [start], avoid=set(avoid))
        return set(r2) & set(r) if r2 is not None else r
    except Exception:
        return r


# ---- guard facts (analysis C) ------------------------------------------------------------
from .mir import same_expr as _same_expr

_REL_NEG = {"Lt": "Ge", "Le": "Gt", "Gt": "Le", "Ge": "Lt", "Eq": "Ne", "Ne": "Eq"}
_REL_SWAP = {"Lt": "Gt", "Le": "Ge", "Gt": "Lt", "Ge": "Le", "Eq": "Eq", "Ne": "Ne"}
MIN_CALLS = {"std::cmp::min", "std::cmp::Ord::min"}
MAX_CALLS = {"std::cmp::max", "std::cmp::Ord::max"}


def edge_facts(body):
    """List of ((switch_bb, target_bb), (rel, a, b)) for comparison switches, and
    ((s,t), ('IntEq'|'IntNe', a, const)) for integer switches, ((s,t), ('Bool', call_expr, value))
    for switches on a bool call result (is_empty & co)."""
    if getattr(body, "_edge_facts", None) is not None:
        return body._edge_facts
    out = []
    for s in sorted(body.reachable(0)):
        t = body.term(s)
        if t["k"] != "switch":
            continue
        if any("debug_assert" in x for x in (t.get("sp") or {}).get("x", [])):
            continue  # not a guard in release builds
        e = peel(switch_discr_expr(body, s), through_try=False)
        if t.get("dty") == "bool":
            bt = bool_edge_targets(body, s)
            if not bt or bt[0] == bt[1]:
                continue
            neg = False
            while e.k == "un" and e.op == "Not":
                neg = not neg
                e = peel(e.a, through_try=False)
            tr, fa = (bt[1], bt[0]) if neg else bt
            if e.k == "bin" and e.op in _REL_NEG:
                out.append(((s, tr), (e.op, e.a, e.b)))
                out.append(((s, fa), (_REL_NEG[e.op], e.a, e.b)))
            elif e.k == "call":
                out.append(((s, tr), ("Bool", e, True)))
                out.append(((s, fa), ("Bool", e, False)))
            elif e.k in ("field", "param", "deref"):
                out.append(((s, tr), ("BoolVal", e, True)))
                out.append(((s, fa), ("BoolVal", e, False)))
        else:
            # integer / discriminant switch
            vals = [v for v, _ in t["targets"]]
            for v, tgt in t["targets"]:
                if [x for x, tg in t["targets"] if tg == tgt] == [v] and tgt != t["else"]:
                    out.append(((s, tgt), ("IntEq", e, v)))
            if t["else"] not in [tg for _, tg in t["targets"]]:
                for v in vals:
                    out.append(((s, t["else"]), ("IntNe", e, v)))
    body._edge_facts = out
    # a switch on a bool chosen between alternatives (`a && b` returned by an inlined predicate: false | n % c == 0): the
    # true edge was reached through the only alternative that can be true - its comparison holds, and so does everything that
    # held where it was assigned (the `a` of `a && b`); symmetrically for the false edge
    derived = []
    for s in sorted(body.reachable(0)):
        t = body.term(s)
        if t["k"] != "switch" or t.get("dty") != "bool":
            continue
        e = peel(switch_discr_expr(body, s), through_try=False)
        neg = False
        while e is not None and e.k == "un" and e.op == "Not":
            neg = not neg
            e = peel(e.a, through_try=False)
        if e is None or e.k != "multi" or not e.alts or not (2 <= len(e.alts) <= 4):
            continue
        bt = bool_edge_targets(body, s)
        if not bt or bt[0] == bt[1]:
            continue
        ds = body.defs().get(e.local, [])
        if len(ds) != len(e.alts):
            continue
        tr, fa = (bt[1], bt[0]) if neg else bt
        for want, tgt in ((True, tr), (False, fa)):
            live = []
            for (dbb, si, kind, payload), alt in zip(ds, e.alts):
                pa = peel(alt, through_try=False)
                if pa.k == "const" and isinstance(pa.v, bool) and pa.v != want:
                    continue
                live.append((dbb, pa))
            if len(live) != 1:
                continue
            dbb, pa = live[0]
            if not (dbb == s or s in body.reachable(dbb)):
                continue
            if pa.k == "bin" and pa.op in _REL_NEG:
                derived.append(((s, tgt), (pa.op if want else _REL_NEG[pa.op], pa.a, pa.b)))
            elif pa.k == "call":
                derived.append(((s, tgt), ("Bool", pa, want)))
            for edge, fact in out:
                if must_pass_edge(body, dbb, edge):
                    derived.append(((s, tgt), fact))
    # a switch on the bool carried out of an inlined helper as `Ok(b)` / `Some(b)` (`if self.output_full()? { .. }` with
    # `fn output_full(&self) -> Result<bool> { let o = self.dst.write_buf()?; Ok(o.is_empty()) }`): the success side of the `?`
    # was reached through the one alternative that builds an Ok - its payload is the tested value
    for s in sorted(body.reachable(0)):
        t = body.term(s)
        if t["k"] != "switch" or t.get("dty") != "bool":
            continue
        e = peel(switch_discr_expr(body, s), through_try=False)
        neg = False
        while e is not None and e.k == "un" and e.op == "Not":
            neg = not neg
            e = peel(e.a, through_try=False)
        r = _success_payload(body, e, s)
        if r is None:
            continue
        pa, dbb = r
        pa = peel(pa, through_try=False)
        while pa is not None and pa.k == "un" and pa.op == "Not":
            neg = not neg
            pa = peel(pa.a, through_try=False)
        bt = bool_edge_targets(body, s)
        if pa is None or not bt or bt[0] == bt[1]:
            continue
        tr, fa = (bt[1], bt[0]) if neg else bt
        for want, tgt in ((True, tr), (False, fa)):
            if pa.k == "bin" and pa.op in _REL_NEG:
                derived.append(((s, tgt), (pa.op if want else _REL_NEG[pa.op], pa.a, pa.b)))
            elif pa.k == "call":
                derived.append(((s, tgt), ("Bool", pa, want)))
            for edge, fact in out:
                if edge[0] != s and must_pass_edge(body, dbb, edge):
                    derived.append(((s, tgt), fact))
    # a switch on the discriminant of a Result / Option chosen between alternatives (an inlined helper's `return Err(minimum)` /
    # `Ok(n)`, a hand-built `let r = if .. { Some(x) } else { None }`): the `Err` edge was reached through the alternatives that
    # build an Err - whatever held where every one of them was assigned holds on that edge
    _VIDX = {"Ok": 0, "Err": 1, "None": 0, "Some": 1, "Continue": 0, "Break": 1}
    for s in sorted(body.reachable(0)):
        t = body.term(s)
        if t["k"] != "switch" or t.get("dty") == "bool":
            continue
        e = peel(switch_discr_expr(body, s), through_try=False)
        if e is None or e.k != "discr":
            continue
        x = peel(e.a, through_try=False)
        if x is None or x.k != "multi" or not x.alts or not (2 <= len(x.alts) <= 6):
            continue
        if not (x.ty or "").startswith(("std::result::Result<", "std::option::Option<", "std::ops::ControlFlow<")):
            continue
        ds = body.defs().get(x.local, [])
        if len(ds) != len(x.alts) or body.partial.get(x.local):
            continue
        alts = []
        for (dbb, si, kind, payload), alt in zip(ds, x.alts):
            pa = peel(alt, through_try=False)
            if pa is not None and pa.k == "call" and (pa.q or "").endswith("from_residual") and (dbb == s or s in body.reachable(dbb)):
                alts.append((dbb, 0 if (x.ty or "").startswith("std::option::Option<") else 1))
                continue
            if pa is None or pa.k != "agg" or pa.variant not in _VIDX or not (dbb == s or s in body.reachable(dbb)):
                alts = None
                break
            alts.append((dbb, _VIDX[pa.variant]))
        if not alts:
            continue
        edges = [(v, tgt) for v, tgt in t["targets"] if [x_ for x_, tg in t["targets"] if tg == tgt] == [v] and tgt != t["else"]]
        vals = [v for v, _ in t["targets"]]
        if t["else"] not in [tg for _, tg in t["targets"]] and len(vals) == 1:
            edges.append((1 - vals[0], t["else"]))
        for v, tgt in edges:
            live = [dbb for dbb, vi in alts if vi == v]
            if not live:
                continue
            for edge, fact in out:
                if edge[0] != s and all(must_pass_edge(body, dbb, edge) for dbb in live):
                    derived.append(((s, tgt), fact))
    if derived:
        out = out + derived
        body._edge_facts = out
        for c in ("_facts_at", "_facts_at_e"):
            if getattr(body, c, None) is not None:
                setattr(body, c, {})
    return out


def _success_payload(body, e, s):
    """e = `(X as Ok|Some|Continue).0`, X (through `Try::branch`) a local chosen between built alternatives of which exactly one
    is a success value `Ok(p)` / `Some(p)` and the others are failures (`Err(..)`, `None`, `from_residual(..)`): (p, block of that
    assignment); None otherwise"""
    if e is None or e.k != "field" or e.idx != 0 or e.a is None or e.a.k != "downcast" or e.a.variant not in ("Ok", "Some", "Continue"):
        return None
    x = peel(e.a.a, through_try=False)
    if x is not None and x.k == "call" and (x.q or "").endswith("Try::branch") and x.args:
        x = peel(x.args[0], through_try=False)
    if x is None or x.k != "multi" or not x.alts or not (2 <= len(x.alts) <= 6):
        return None
    ds = body.defs().get(x.local, [])
    if len(ds) != len(x.alts) or body.partial.get(x.local):
        return None
    good = []
    for (dbb, si, kind, payload), alt in zip(ds, x.alts):
        pa = peel(alt, through_try=False)
        if pa is not None and pa.k == "agg" and pa.variant in ("Ok", "Some") and pa.args:
            good.append((pa.args[0], dbb))
        elif pa is not None and ((pa.k == "agg" and pa.variant in ("Err", "None")) or (pa.k == "call" and (pa.q or "").endswith("from_residual"))):
            continue
        else:
            return None
    if len(good) != 1 or not (good[0][1] == s or s in body.reachable(good[0][1])):
        return None
    return good[0]


def facts_at(body, bb):
    """Facts established on every path from entry to bb."""
    cache = getattr(body, "_facts_at", None)
    if cache is None:
        cache = body._facts_at = {}
    if bb in cache:
        return cache[bb]
    res = []
    for edge, fact in edge_facts(body):
        if must_pass_edge(body, bb, edge):
            res.append(fact)
    cache[bb] = res
    return res


def facts_at_e(body, bb):
    cache = getattr(body, "_facts_at_e", None)
    if cache is None:
        cache = body._facts_at_e = {}
    if bb in cache:
        return cache[bb]
    res = [(edge, fact) for edge, fact in edge_facts(body) if must_pass_edge(body, bb, edge)]
    cache[bb] = res
    return res


LEN_ACCESSORS = {"len", "is_empty"}
CONTAINER_MUTATORS = {"push", "push_back", "push_front", "pop", "pop_back", "pop_front", "truncate", "clear", "drain", "remove", "swap_remove",
                      "insert", "extend", "extend_from_slice", "append", "resize", "retain", "split_off", "dedup", "swap", "replace", "take"}


def _container_root(e):
    """identity of the container an expression denotes; components of a tuple / struct result (`.0` and `.1` of
    `partition()`) are DIFFERENT containers, so the field path walked through is part of the identity"""
    e = peel(e)
    n = 0
    proj = []
    while e is not None and n < 20:
        n += 1
        if e.k in ("local", "multi"):
            return ("local", e.local) if not proj else ("local", e.local, tuple(proj))
        if e.k == "param":
            return ("param", e.idx) if not proj else ("param", e.idx, tuple(proj))
        if e.k == "field":
            # self field containers: identify by the field path
            from .mir import self_field_path
            fp = self_field_path(e)
            if fp:
                return ("self", tuple(fp)) if not proj else ("self", tuple(fp), tuple(proj))
            proj.append(e.idx if e.idx is not None else e.name)
            e = peel(e.a)
        elif e.k == "call":
            if e.bb is not None and (e.q or "").split("::")[-1] in ("new", "with_capacity", "collect", "to_vec", "from_elem", "into_vec"):
                return ("call", e.bb) if not proj else ("call", e.bb, tuple(proj))
            if proj and e.bb is not None:
                # a component of this call's result (e.g. one half of partition()): the call site + component
                return ("call", e.bb, tuple(proj))
            if e.bb is not None and len(e.args or []) == 2 and (e.q or "").split("::")[-1] in ("index", "index_mut", "get", "get_mut", "split_at", "split_at_mut"):
                r_ = peel(e.args[1], through_try=False)
                if r_ is not None and r_.k == "agg" and (r_.adt or "").startswith("std::ops::Range") and r_.adt != "std::ops::RangeFull":
                    # `x[a..b]` is a different (shorter) container than x: identified by where it was taken
                    return ("sub", e.bb)
            if e.args:
                e = peel(e.args[0])
            else:
                return None
        elif e.k in ("index", "downcast"):
            e = peel(e.a)
        else:
            return None
    return None


def _mutated_between(body, root, edge, use_bb):
    """Is the container `root` possibly mutated on a path from the guard edge to use_bb?"""
    if root is None:
        return True
    av = getattr(body, "_avoid", None) or ()
    after_guard = body.reachable(edge[1], avoid=av) if av else body.reachable(edge[1])
    for bb2, t in body.calls():
        if bb2 not in after_guard or bb2 == use_bb or bb2 in av:
            continue
        name = t["f"].get("name")
        if name not in CONTAINER_MUTATORS and not (t["f"].get("q") or "").startswith("std::mem::"):
            continue
        hit = False
        for i, a in enumerate(t["args"]):
            ty = (t.get("argtys") or [""] * len(t["args"]))[i]
            if ty.startswith("&mut") and _container_root(body.operand_expr(a)) == root:
                hit = True
        if hit and use_bb in body.reachable(bb2):
            return True
    return False


def _same_value(body, x, y, edge, use_bb, depth=0):
    """same_expr, extended: two len()/is_empty() calls on the same container are the same value when the
    container is not mutated between the guard and the use."""
    if _same_expr(x, y):
        return True
    px, py = peel(x, through_try=False), peel(y, through_try=False)
    if px.k == "call" and py.k == "call" and px.args and py.args:
        nx, ny = (px.q or "").split("::")[-1], (py.q or "").split("::")[-1]
        if nx == ny and nx in LEN_ACCESSORS:
            rx, ry = _container_root(px.args[0]), _container_root(py.args[0])
            if rx is not None and rx == ry and not _mutated_between(body, rx, edge, use_bb):
                return True
    # the same arithmetic over such values (`buf.len() / size` computed twice)
    if depth < 4 and px.k == "bin" and py.k == "bin" and px.op == py.op:
        return _same_value(body, px.a, py.a, edge, use_bb, depth + 1) and _same_value(body, px.b, py.b, edge, use_bb, depth + 1)
    return False


def _expr_mutated_between(body, e, from_bbs, use_bb):
    """may a container whose len() occurs in e be mutated between one of from_bbs and use_bb ?"""
    for x in walk(e):
        if x.k == "call" and (x.q or "").split("::")[-1] in LEN_ACCESSORS and x.args:
            root = _container_root(x.args[0])
            if root is None:
                continue
            for f in from_bbs:
                if _mutated_between(body, root, (f, f), use_bb):
                    return True
    return False


def _same_len_now(x, y):
    """both are len() of the same container, evaluated for the same operation (no intervening code)"""
    px, py = peel(x, through_try=False), peel(y, through_try=False)
    if px.k == "call" and py.k == "call" and px.args and py.args:
        nx, ny = (px.q or "").split("::")[-1], (py.q or "").split("::")[-1]
        if nx == ny == "len":
            rx, ry = _container_root(px.args[0]), _container_root(py.args[0])
            return rx is not None and rx == ry
    return False


def _const_of(e):
    e = peel(e, through_try=False)
    if e is not None and e.k == "const" and isinstance(e.v, int) and not isinstance(e.v, bool):
        return e.v
    return None


def _expand_deep(facts, e, depth=0):
    """copy of e with calls to small pure crate-local helpers (one return definition) replaced by what they compute"""
    if e is None or depth > 12:
        return e, False
    p = peel(e, through_try=False)
    changed = False
    if p.k == "call":
        x = expand_local_call(facts, p)
        if x is not p:
            p = peel(x, through_try=False)
            changed = True
    n = E(p.k)
    for sl in E.__slots__[1:]:
        setattr(n, sl, getattr(p, sl))
    if p.a is not None:
        n.a, c = _expand_deep(facts, p.a, depth + 1)
        changed = changed or c
    if p.b is not None:
        n.b, c = _expand_deep(facts, p.b, depth + 1)
        changed = changed or c
    if p.args:
        na = []
        for x in p.args:
            y, c = _expand_deep(facts, x, depth + 1)
            changed = changed or c
            na.append(y)
        n.args = na
    return (n if changed else p), changed


def known_ge(body, bb, a, b, _depth=0):
    """Is a >= b established at bb (by dominating guards or by construction b = min(a, ..))?"""
    if _depth == 0:
        try:
            from . import effects as _eff
            fx = _eff._FACTS_FOR_VERDICTS.get(id(body))
        except Exception:
            fx = None
        if fx is not None:
            ea, ca = _expand_deep(fx, a)
            eb, cb_ = _expand_deep(fx, b)
            if (ca or cb_) and known_ge(body, bb, ea, eb, 1):
                return True
    pa, pb = peel(a, through_try=False), peel(b, through_try=False)
    cb = _const_of(pb)
    if cb == 0:
        return True
    # a = len(x[k..]): the tail of x from k on holds len(x) - k elements
    if _depth < 3 and pa.k == "call" and (pa.q or "").split("::")[-1] == "len" and pa.args:
        ix = pa.args[0]
        n_ = 0
        while ix is not None and n_ < 6:
            ix = peel(ix, through_try=False)
            n_ += 1
            if ix is not None and ix.k in ("ref", "deref"):
                ix = ix.a
                continue
            break
        if ix is not None and ix.k == "call" and (ix.q or "").split("::")[-1] in ("index", "index_mut") and len(ix.args or []) == 2:
            rg = peel(ix.args[1], through_try=False)
            if rg.k == "agg" and rg.adt == "std::ops::RangeFrom" and rg.args:
                whole = E("call", q=pa.q, rq=pa.rq, args=[ix.args[0]], bb=pa.bb)
                if known_ge(body, bb, E("bin", op="Sub", a=whole, b=rg.args[0]), b, _depth + 1):
                    return True
    if _same_len_now(pa, pb):
        return True           # len() of one container, evaluated for the same operation (`&buf[buf.len()..]`)
    if _depth < 3:
        # b chosen by hand between alternatives (`let n = if x.len() < room { x.len() } else { room };`): a >= b if a >= each
        # alternative where that alternative is assigned (the facts of its branch hold there), a itself not changing up to bb
        if pb.k == "multi" and pb.alts and 2 <= len(pb.alts) <= 4:
            ds = body.defs().get(pb.local, [])
            if len(ds) == len(pb.alts):
                ok = True
                for (dbb, si, kind, payload), alt in zip(ds, pb.alts):
                    if not (bb in body.reachable(dbb) or dbb == bb):
                        ok = False
                        break
                    # (a value assigned by a call terminator exists from the call's return block on)
                    at = body.term(dbb).get("t") if kind == "call" and body.term(dbb).get("t") is not None else dbb
                    if _same_value(body, pa, alt, (dbb, dbb), bb) or known_ge(body, at, a, alt, _depth + 1):
                        continue
                    ok = False
                    break
                if ok and not _expr_mutated_between(body, pa, [d[0] for d in ds], bb):
                    return True
        # b = x * c  with  x <= a / c
        if pb.k == "bin" and pb.op == "Mul":
            for x, c in ((pb.a, pb.b), (pb.b, pb.a)):
                if peel(x, through_try=False).k in ("multi", "local") or True:
                    q = E("bin", op="Div", a=pa, b=c)
                    px = peel(x, through_try=False)
                    if px.k == "multi" and known_ge(body, bb, q, x, _depth + 1):
                        return True
    # b = min(a, x)
    if pb.k == "call" and (pb.q in MIN_CALLS or pb.rq in MIN_CALLS) and any(_same_expr(x, pa) or _same_len_now(x, pa) for x in pb.args):
        return True
    if pa.k == "call" and (pa.q in MAX_CALLS or pa.rq in MAX_CALLS) and any(_same_expr(x, pb) for x in pa.args):
        return True
    # b = a'.saturating_sub(_) / a'.min(_) as a method on the same value
    if pb.k == "call" and (pb.q or "").split("::")[-1] in ("saturating_sub", "saturating_div", "isqrt") and pb.args and \
            (_same_expr(pb.args[0], pa) or _same_len_now(pb.args[0], pa)):
        return True
    # b = a' / c  or  a' - c  or  a' & m  with a' == a  (never larger than a for unsigned values)
    if pb.k == "bin" and pb.op in ("Div", "Sub", "BitAnd", "Shr", "Rem") and (_same_expr(pb.a, pa) or _same_len_now(pb.a, pa)):
        return True
    # b = (a' / c) * c  or  min(a' / c, ..) * c  with a' == a: rounding a down to a multiple of c never exceeds a
    if pb.k == "bin" and pb.op == "Mul":
        for u, v in ((pb.a, pb.b), (pb.b, pb.a)):
            pu = peel(u, through_try=False)
            cands = [pu]
            if pu.k == "call" and (pu.q in MIN_CALLS or pu.rq in MIN_CALLS):
                cands = [peel(x, through_try=False) for x in pu.args]
            for c_ in cands:
                if c_.k == "bin" and c_.op == "Div" and (_same_expr(c_.a, pa) or _same_len_now(c_.a, pa)) and _same_expr(c_.b, v):
                    return True
    # a = b' + c / b' * c (c >= 1) with b' == b
    if pa.k == "bin" and pa.op == "Add" and (_same_expr(pa.a, pb) or _same_expr(pa.b, pb)):
        return True
    ca = _const_of(pa)
    if ca is not None and cb is not None:
        return ca >= cb
    for edge, fact in facts_at_e(body, bb):
        rel = fact[0]
        sv = lambda u, v: _same_value(body, u, v, edge, bb)
        if rel in _REL_NEG:
            x, y = fact[1], fact[2]
            if sv(x, pa) and sv(y, pb) and rel in ("Ge", "Gt", "Eq"):
                return True
            if sv(x, pb) and sv(y, pa) and rel in ("Le", "Lt", "Eq"):
                return True
            if cb is not None:
                cy = _const_of(y)
                cx = _const_of(x)
                if sv(x, pa) and cy is not None:
                    if (rel == "Ge" and cy >= cb) or (rel == "Gt" and cy >= cb - 1) or (rel == "Ne" and cy == 0 and cb == 1) or (rel == "Eq" and cy >= cb):
                        return True
                if sv(y, pa) and cx is not None:
                    if (rel == "Le" and cx >= cb) or (rel == "Lt" and cx >= cb - 1) or (rel == "Ne" and cx == 0 and cb == 1) or (rel == "Eq" and cx >= cb):
                        return True
        elif rel == "IntNe" and cb == 1 and fact[2] == 0 and sv(fact[1], pa):
            return True
        elif rel == "IntEq" and cb is not None and fact[2] >= cb and sv(fact[1], pa):
            return True
        elif rel == "Bool" and cb == 1 and fact[2] is False and (fact[1].q or "").split("::")[-1] == "is_empty":
            # !x.is_empty()  =>  x.len() >= 1
            if pa.k == "call" and (pa.q or "").split("::")[-1] == "len" and pa.args and fact[1].args:
                rx, ry = _container_root(pa.args[0]), _container_root(fact[1].args[0])
                if rx is not None and rx == ry and not _mutated_between(body, rx, edge, bb):
                    return True
    return False


def _self_field_written_between(body, expr, from_bb, use_bb):
    """is a field of *self that occurs in expr assigned on some path from from_bb to use_bb ?"""
    from .mir import self_field_path
    flds = set()
    for x in walk(expr):
        fp = self_field_path(x)
        if fp:
            flds.add(fp[0])
    if not flds:
        return False
    between = body.reachable(from_bb) & {b for b in body.reachable(0) if use_bb in body.reachable(b) or b == use_bb}
    for b in between:
        if b == use_bb:
            continue
        for st in body.blocks[b]["stmts"]:
            if st["k"] == "assign" and st["dst"]["l"] == 1 and st["dst"]["p"] and st["dst"]["p"][0] == "*":
                pj = st["dst"]["p"]
                if len(pj) >= 2 and isinstance(pj[1], dict) and pj[1].get("n") in flds:
                    return True
        t = body.term(b)
        if t["k"] == "call":
            for a in t["args"]:
                e = body.operand_expr(a)
                pe = peel(e, through_try=False)
                if pe is not None and pe.k == "ref" and getattr(pe, "mut", False):
                    fp = self_field_path(pe)
                    if fp and fp[0] in flds:
                        return True
    return False


def consistent_alts(body, e, bb):
    """alternatives of a hand-selected value (`let need = match self.state { A => 4, B => 2 }`) that can be the value at bb:
    an alternative assigned under a discriminant / integer fact `X == v` is excluded when bb lies under `X == v'` (v' != v) for
    the same X and nothing writes X's self fields in between (the same `match self.state` taken twice).  Returns the list of
    remaining alternative expressions, or None when e is not such a value."""
    p = peel(e, through_try=False)
    if p is None or p.k != "multi" or not p.alts:
        return None
    ds = body.defs().get(p.local, [])
    if len(ds) != len(p.alts):
        return None
    here = [f for f in facts_at(body, bb) if f[0] in ("IntEq", "IntNe")]
    out = []
    for (dbb, si, kind, payload), alt in zip(ds, p.alts):
        excluded = False
        for f in facts_at(body, dbb):
            if f[0] not in ("IntEq", "IntNe"):
                continue
            for g in here:
                if f[0] == "IntEq" and g[0] == "IntEq":
                    clash = g[2] != f[2]
                elif f[0] != g[0]:
                    clash = g[2] == f[2]          # X == v there, X != v here (the `else` of an `if let`), or the other way round
                else:
                    clash = False
                if clash and _same_expr(f[1], g[1]) and not _self_field_written_between(body, f[1], dbb, bb):
                    excluded = True
        if not excluded:
            out.append(alt)
    return out


def known_nonzero(body, bb, a):
    return known_ge(body, bb, a, E("const", v=1, ty="usize"))


# ---- caller-side discharge (guard lives in the caller of a small helper) ---------------------------
def subst_params(e, actual, depth=0):
    """Copy of expression e with `param i` replaced by actual[i] (an expression of the caller)."""
    if e is None or depth > 30:
        return e
    if e.k == "param":
        return actual.get(e.idx, E("unknown"))
    n = E(e.k)
    for sl in E.__slots__[1:]:
        setattr(n, sl, getattr(e, sl))
    if e.a is not None:
        n.a = subst_params(e.a, actual, depth + 1)
    if e.b is not None:
        n.b = subst_params(e.b, actual, depth + 1)
    if e.args:
        n.args = [subst_params(x, actual, depth + 1) for x in e.args]
    if e.k == "call":
        n.bb = None      # a call evaluated in the callee is not a call site of the caller
    return n


def adt_helpers(facts, body, depth=2):
    """methods of the same type that `body` calls (transitively, up to `depth`): the pieces an `extract method` refactoring
    of body would produce"""
    out = []
    seen = {body.path}
    frontier = [body]
    for _ in range(depth):
        nxt = []
        for b in frontier:
            for bb, t in b.calls():
                for q in Body.callee_qs(t):
                    for hb in facts.by_q.get(q, []):
                        if hb.kind != "closure" and hb.self_adt == body.self_adt and hb.self_adt and hb.path not in seen:
                            seen.add(hb.path)
                            out.append(hb)
                            nxt.append(hb)
        frontier = nxt
    return out


def expand_variant_payload(facts, e):
    """`(helper(args) as Some).0` where the local helper builds that variant at exactly one return: the payload expression with
    the parameters replaced by the actual arguments; else None"""
    p = peel(e, through_try=False)
    if p is None or p.k != "field" or p.a is None:
        return None
    d = peel(p.a, through_try=False)
    if d is None or d.k != "downcast" or d.a is None:
        return None
    c = peel(d.a, through_try=False)
    if c is None or c.k != "call":
        return None
    for q in (c.rq, c.q):
        bodies = facts.by_q.get(q, []) if q else []
        if len(bodies) != 1 or bodies[0].kind == "closure" or len(c.args or []) != bodies[0].argc:
            continue
        sel = [r for _, _, r in assigns_to_return(bodies[0]) if r.k == "agg" and r.variant == d.variant]
        if len(sel) == 1 and sel[0].args and p.idx is not None and p.idx < len(sel[0].args):
            return subst_params(peel(sel[0].args[p.idx], through_try=False), {i + 1: a for i, a in enumerate(c.args)})
    return None


def expand_local_call(facts, e, depth=0):
    """If e is a call to a crate-local function whose body has exactly one (non-diverging) return definition, return
    that return expression with the parameters replaced by the actual arguments (repeatedly, up to 3 levels); else e.
    Lets structural rules see through small pure helpers (`wpos_plus(k)` for `(k + wpos) % capacity()`)."""
    p = peel(e, through_try=False)
    if p is None or p.k != "call" or depth > 3:
        return e
    for q in (p.rq, p.q):
        bodies = facts.by_q.get(q, []) if q else []
        if len(bodies) != 1:
            continue
        cb = bodies[0]
        if cb.kind == "closure" or len(p.args or []) != cb.argc:
            continue
        rets = [r for _, _, r in assigns_to_return(cb)]
        if len(rets) != 1:
            continue
        actual = {i + 1: a for i, a in enumerate(p.args)}
        return expand_local_call(facts, subst_params(peel(rets[0], through_try=False), actual), depth + 1)
    return e


def only_params_and_consts(e, depth=0):
    e = peel(e, through_try=False)
    if e is None or depth > 12:
        return False
    if e.k in ("param",):
        return True
    if e.k == "const":
        return e.v is not None
    if e.k == "bin":
        return only_params_and_consts(e.a, depth + 1) and only_params_and_consts(e.b, depth + 1)
    if e.k == "call" and (e.q or "").split("::")[-1] in ("len",) and e.args:
        return only_params_and_consts(e.args[0], depth + 1)
    if e.k in ("field", "deref", "ref") and e.a is not None:
        return only_params_and_consts(e.a, depth + 1)      # self.buf, (*self).n: state of a parameter
    return False


def call_sites_of(facts, body, limit=6):
    out = []
    for cb, cbb, t in facts.callers_of(body.q):
        out.append((cb, cbb, {i + 1: cb.operand_expr(a) for i, a in enumerate(t["args"])}))
        if len(out) > limit:
            return None
    return out


def known_ge_at_callers(facts, body, a, b):
    """a >= b holds at every call site of `body` after substituting the actual arguments (both sides must be
    arithmetic over parameters, their len() and constants)."""
    if body.kind == "closure" or not (only_params_and_consts(a) and only_params_and_consts(b)):
        return False
    sites = call_sites_of(facts, body)
    if not sites:
        return False
    for cb, cbb, actual in sites:
        if not known_ge(cb, cbb, subst_params(peel(a, through_try=False), actual), subst_params(peel(b, through_try=False), actual)):
            return False
    return True


def facts_at_with_callers(facts, body, bb, depth=2):
    """facts_at(body, bb) plus, for a non-public helper, the facts that hold at EVERY call site (pattern-level
    consumers only: expressions of different functions are not related to each other)."""
    out = list(facts_at(body, bb))
    if depth <= 0 or body.kind == "closure":
        return out
    sites = call_sites_of(facts, body)
    if not sites:
        return out
    per_site = []
    for cb, cbb, actual in sites:
        per_site.append(facts_at_with_callers(facts, cb, cbb, depth - 1))
    if len(per_site) == 1:
        out += per_site[0]
    return out
