"""C18 — streams release every mapping and descriptor; the two halves always alias (structural)."""
from ..common import *
from ..mir import peel, walk, show, E
from . import c01

MMAP = "libc::mmap"
MUNMAP = "libc::munmap"
MAP_ADT = "circular_buffer::Map"
CIRC_ADT = "circular_buffer::Circ"
LEAKS = {"std::mem::forget", "std::mem::ManuallyDrop::new", "std::boxed::Box::leak", "std::sync::Arc::into_raw",
         "std::os::fd::IntoRawFd::into_raw_fd", "std::boxed::Box::into_raw", "std::rc::Rc::into_raw",
         "std::vec::Vec::leak", "std::mem::ManuallyDrop::<T>::new"}
MAP_SHARED, MAP_PRIVATE, MAP_FIXED = 0x01, 0x02, 0x10


from ..mir import same_expr

_site_cache = {}


def mmap_sites(facts):
    """[(body, bb, term)] for every place a mapping is created, on bodies with Map's own thin wrappers substituted in: a private
    `unsafe fn mmap_rw(addr, len, flags, fd) -> *mut c_void { libc::mmap(..) }` called from `with_addr` is judged in with_addr,
    where the flags are chosen, the result is tested and the Map is built.  A wrapper is a crate function of Map that calls
    mmap(), returns what mmap() returned (casts only) and is itself called from crate code; it is not judged on its own.  Today: the one direct call in with_addr."""
    c = _site_cache.get(id(facts))
    if c is not None and c[0] is facts:
        return c[1]
    from .. import inline
    direct = {}
    for body, bb, t in facts.callers_of(MMAP):
        direct.setdefault(body.q, (body, []))[1].append((bb, t))
    wrappers = set()
    for q, (body, calls) in direct.items():
        owner = body.self_adt if body.kind != "closure" else (body.parent or {}).get("self_adt")
        if body.kind != "closure" and owner == MAP_ADT and any(True for _ in facts.callers_of(q)):
            # thin: what it returns is what mmap() returned (casts only)
            rets = [peel(e, through_try=False) for _b, _i, e in assigns_to_return(body)]
            rets = [_strip_casts_e(e) for e in rets]
            if rets and all(e is not None and e.k == "call" and any(e.bb == bb for bb, _t in calls) for e in rets):
                wrappers.add(q)
    out = []
    for q, (body, calls) in direct.items():
        if q not in wrappers:
            out += [(body, bb, t) for bb, t in calls]
    if wrappers:
        seen = set()
        for cb, cbb, ct in facts.callers_of(wrappers):
            if cb.path in seen or cb.q in wrappers:
                continue
            seen.add(cb.path)
            nb, inl = inline.inline_body(facts, cb, lambda hb: hb.q in wrappers, depth=3)
            for bb, t in nb.calls():
                if MMAP in Body.callee_qs(t) and bb in nb.reachable(0):
                    out.append((nb, bb, t))
    _site_cache[id(facts)] = (facts, out)
    return out


def const_values(e, depth=0, env=None):
    """Set of possible constant values of e (multi = union), or None if not constant.  A local that is updated in place
    (`let mut flags = MAP_SHARED; if fixed { flags |= MAP_FIXED }`) is the least fixed point of its assignments."""
    e = peel(e, through_try=False)
    if e is None or depth > 10:
        return None
    if e.k == "const" and isinstance(e.v, int):
        return {e.v}
    if e.k == "local" and env is not None and e.local in env:
        return set(env[e.local])
    if e.k == "multi" and e.alts:
        env2 = dict(env or {})
        cur = set()
        for _round in range(8):
            env2[e.local] = cur
            out = set()
            for a in e.alts:
                v = const_values(a, depth + 1, env2)
                if v is None:
                    return None
                out |= v
            if out == cur:
                return out
            if len(out) > 16:
                return None
            cur = out
        return None
    if e.k == "bin" and e.op in ("BitOr", "BitAnd", "Add"):
        a = const_values(e.a, depth + 1, env)
        b = const_values(e.b, depth + 1, env)
        if a is None or b is None:
            return None
        f = {"BitOr": lambda x, y: x | y, "BitAnd": lambda x, y: x & y, "Add": lambda x, y: x + y}[e.op]
        return {f(x, y) for x in a for y in b}
    return None


def _strip_casts_e(e):
    p = peel(e, through_try=False)
    while p is not None and p.k == "cast" and p.a is not None:
        p = peel(p.a, through_try=False)
    return p


def munmap_wrappers(facts):
    """{function q: (index of the address parameter, index of the length parameter)} for local functions that are
    munmap(addr, len) on two of their own parameters (error handling around it allowed)"""
    out = {}
    for b in facts.bodies:
        if b.kind == "closure" or b.self_adt == MAP_ADT:
            continue
        calls = [(bb, t) for bb, t in b.calls_to(MUNMAP)]
        if len(calls) != 1:
            continue
        t = calls[0][1]
        a0, a1 = _strip_casts_e(b.operand_expr(t["args"][0])), _strip_casts_e(b.operand_expr(t["args"][1]))
        if a0 is not None and a1 is not None and a0.k == "param" and a1.k == "param":
            out[b.q] = (a0.idx, a1.idx)
    return out


def unmap_calls(facts, body):
    """[(bb, address expression, length expression)] for munmap calls of this body, direct or through a wrapper"""
    out = []
    for bb, t in body.calls_to(MUNMAP):
        out.append((bb, body.operand_expr(t["args"][0]), body.operand_expr(t["args"][1])))
    wr = munmap_wrappers(facts)
    if wr:
        for bb, t in body.calls():
            for q in Body.callee_qs(t):
                if q in wr:
                    ai, li = wr[q]
                    if ai - 1 < len(t["args"]) and li - 1 < len(t["args"]):
                        out.append((bb, body.operand_expr(t["args"][ai - 1]), body.operand_expr(t["args"][li - 1])))
    return out


def rule_r1(facts, col):
    """who may call mmap/munmap"""
    wr = munmap_wrappers(facts)
    for q in wr:
        # a wrapper is as good as its callers: all of them inside Map
        for cb, cbb, ct in facts.callers_of(q):
            owner = cb.self_adt if cb.kind != "closure" else (cb.parent or {}).get("self_adt")
            key = "%s:%s" % (cb.q, q.split("::")[-1])
            if owner == MAP_ADT:
                col.ok("C18.R1", key, cb.where(cbb), "munmap wrapper called inside Map")
            else:
                col.bad("C18.R1", key, cb.where(cbb), "the munmap wrapper %s is called outside circular_buffer::Map" % q, {})
    n = 0
    for body, bb, t in facts.callers_of({MMAP, MUNMAP}):
        n += 1
        key = "%s:%s" % (body.q, t["f"]["name"])
        owner = body.self_adt if body.kind != "closure" else (body.parent or {}).get("self_adt")
        if body.q in wr and t["f"].get("q") == MUNMAP:
            continue      # judged at the wrapper's call sites above
        if owner == MAP_ADT:
            col.ok("C18.R1", key, body.where(bb), "inside Map")
        else:
            col.bad("C18.R1", key, body.where(bb),
                    "%s is called outside circular_buffer::Map: a mapping whose lifetime is not tied to Map's Drop" % t["f"]["q"], {})


def rule_r2(facts, col):
    """every successful mmap is owned by a Map or unmapped on every path"""
    for body, bb, t in mmap_sites(facts):
        key = "%s:mmap" % body.q
        buf = t["dst"]["l"]
        len_arg = body.operand_expr(t["args"][1])
        # MAP_FAILED test
        failed_edge = None
        for s in sorted(body.reachable(bb)):
            tt = body.term(s)
            if tt["k"] != "switch":
                continue
            e = peel(switch_discr_expr(body, s), through_try=False)
            if e.k == "bin" and e.op in ("Eq", "Ne"):
                sides = [peel(e.a, through_try=False), peel(e.b, through_try=False)]
                if any(x.k == "call" and x.bb == bb for x in sides) and any(x.k == "const" and "MAP_FAILED" in (x.name or "") for x in sides):
                    bt = bool_edge_targets(body, s)
                    failed_edge = (s, bt[0] if e.op == "Eq" else bt[1])
        if failed_edge is None:
            col.bad("C18.R2", key, body.where(bb), "the result of mmap() is not compared with MAP_FAILED", {})
            continue
        # on the failed edge: returns Err
        r = body.reachable(failed_edge[1])
        retdefs = [(b2, e) for b2, si, e in assigns_to_return(body) if b2 in r]
        if not retdefs or not all(e.k == "agg" and e.variant == "Err" for _, e in retdefs if _ in r and not _reached_from_ok(body, failed_edge, _)):
            pass
        # ownership blocks: Map{base: buf, len}
        own = set()
        for b2, blk in enumerate(body.blocks):
            for s in blk["stmts"]:
                if s["k"] == "assign" and s["rv"]["k"] == "agg" and s["rv"].get("adt") == MAP_ADT:
                    e = body.rvalue_expr(s["rv"])
                    base = peel(e.args[0], through_try=False)
                    if base.k == "call" and base.bb == bb and same_expr(e.args[1], len_arg):
                        own.add(b2)
                    else:
                        col.bad("C18.R2", key + ":agg", body.where(b2),
                                "Map is built from something other than (the pointer mmap returned, the length that was mapped)", {})
        unmaps = set()
        for b2, ae, le in unmap_calls(facts, body):
            a0 = _strip_casts_e(ae)
            if a0 is not None and a0.k == "call" and a0.bb == bb and (same_expr(le, len_arg) or same_expr(_strip_casts_e(le), _strip_casts_e(len_arg))):
                unmaps.add(b2)
        r = body.reachable(bb, avoid=own | unmaps, edge_filter=lambda a, b: (a, b) != failed_edge)
        leaks = [x for x in r if body.term(x)["k"] == "return"]
        if leaks:
            col.bad("C18.R2", key, body.where(bb),
                    "a path from a successful mmap() returns without the mapping being owned by a Map or unmapped "
                    "(leaked mapping)", {"returns": leaks})
        elif not own:
            col.bad("C18.R2", key, body.where(bb), "no Map takes ownership of the mapping", {})
        else:
            col.ok("C18.R2", key, body.where(bb), "MAP_FAILED -> Err; otherwise owned by Map{buf,len} or munmap(buf,len)")


def _reached_from_ok(body, failed_edge, b):
    return False


def rule_r3(facts, col):
    """Drop for Map unmaps (self.base, self.len) on every path"""
    drops = [b for b in facts.bodies if b.kind == "traitimpl" and b.trait == "std::ops::Drop" and b.self_adt == MAP_ADT]
    if not drops:
        col.bad("C18.R3", "Map:Drop", "", "circular_buffer::Map has no Drop impl: mappings are never released", {})
        return
    for body in drops:
        key = body.q
        um = [(bb, (ae, le)) for bb, ae, le in unmap_calls(facts, body)]
        if not um:
            col.bad("C18.R3", key, body.where(), "Drop for Map does not call munmap", {})
            continue
        r = body.reachable(0, avoid={bb for bb, _ in um})
        if any(body.term(x)["k"] == "return" for x in r) and 0 not in {bb for bb, _ in um}:
            col.bad("C18.R3", key, body.where(), "Drop for Map can return without munmap", {})
            continue
        bad = []
        for bb, (ae, le) in um:
            a0 = _strip_casts_e(ae)
            a1 = _strip_casts_e(le)
            okb = a0.k == "field" and a0.name == "base" and peel(a0.a).k == "param"
            okl = a1.k == "field" and a1.name == "len" and peel(a1.a).k == "param"
            if not (okb and okl):
                bad.append("munmap(%s, %s)" % (show(a0), show(a1)))
        if bad:
            col.bad("C18.R3", key, body.where(um[0][0]), "Drop unmaps something other than (self.base, self.len): %s" % bad, {})
        else:
            col.ok("C18.R3", key, body.where(um[0][0]), "munmap(self.base, self.len) on every path")


def _is_null_ptr(e):
    p = peel(e, through_try=False)
    while p is not None and p.k == "cast":
        p = peel(p.a, through_try=False)
    if p is None:
        return False
    if p.k == "call" and (p.q or "").split("::")[-1] in ("null_mut", "null"):
        return True
    return p.k == "const" and p.v == 0


def mapping_calls(body):
    """(first, second): the calls creating the initial (kernel-placed) mapping - Map::new or Map::with_addr(.., null) - and
    the fixed re-mappings - Map::with_addr(.., non-null)"""
    first = [(bb, t) for bb, t in body.calls_to("circular_buffer::Map::new")]
    second = []
    for bb, t in body.calls_to("circular_buffer::Map::with_addr"):
        if len(t["args"]) >= 3 and _is_null_ptr(body.operand_expr(t["args"][2])):
            first.append((bb, t))
        else:
            second.append((bb, t))
    return first, second


def rule_r4(facts, col):
    """Circ::new: first map shrunk to the half size after the fixed re-map; both Maps owned by Circ"""
    for body in facts.bodies:
        aggs = []
        for b2, blk in enumerate(body.blocks):
            for s in blk["stmts"]:
                if s["k"] == "assign" and s["rv"]["k"] == "agg" and s["rv"].get("adt") == CIRC_ADT:
                    aggs.append((b2, s))
        if not aggs:
            continue
        key = body.q
        first, fixed = mapping_calls(body)
        if not fixed or not first:
            col.bad("C18.R4", key, body.where(), "Circ is not built from Map::new + Map::with_addr (double mapping)", {})
            continue
        fbb, ft = fixed[0]
        half = body.operand_expr(ft["args"][1])
        full = body.operand_expr(first[0][1]["args"][1])
        # the fixed address is base + half
        addr = peel(expand_local_call(facts, body.operand_expr(ft["args"][2])), through_try=False)
        okaddr = False
        for x in walk(addr):
            if x.k == "bin" and x.op == "Add":
                sides = [peel(x.a, through_try=False), peel(x.b, through_try=False)]
                if any(same_expr(y, half) for y in sides) and any(z.k == "field" and z.name == "base" for y in sides for z in walk(y)):
                    okaddr = True
        # half*2 == full ?
        fv = peel(full, through_try=False)
        okfull = fv.k == "bin" and fv.op == "Mul" and (same_expr(fv.a, half) or same_expr(fv.b, half))
        agg_bb, agg_s = aggs[0]
        fields = agg_s["rv"]["fields"]
        ops = agg_s["rv"]["ops"]
        map_fields = [i for i, f in enumerate(facts.adts[CIRC_ADT]["variants"][0]["fields"]) if f["ty"]["s"] == MAP_ADT]
        if len(map_fields) < 2:
            col.bad("C18.R4", key + ":fields", body.where(agg_bb), "Circ does not own both Maps (one of them is dropped early => its range is unmapped while in use)", {})
            continue
        # which local holds the first map
        first_local = None
        for i in map_fields:
            p = ops[i].get("m") or ops[i].get("c")
            e = peel(body.operand_expr(ops[i]))
            if e.k == "call" and e.bb == first[0][0]:
                first_local = p["l"] if p else None
            if e.k in ("multi", "local"):
                # `mut map` with a later field assignment is multi
                first_local = first_local or (p["l"] if p else None)
        # assignment map.len = half between the fixed remap's ok edge and the aggregate
        shr = []
        for b2, blk in enumerate(body.blocks):
            for s in blk["stmts"]:
                if s["k"] == "assign" and s["dst"]["p"] and isinstance(s["dst"]["p"][-1], dict) and s["dst"]["p"][-1].get("n") == "len" \
                        and s["dst"]["p"][-1].get("o") == MAP_ADT:
                    shr.append((b2, s))
        from .c17 import ok_edge_of_result
        sw, okt = ok_edge_of_result(body, fbb)
        probs = []
        if not shr:
            probs.append("the first Map keeps len = 2*size: its Drop unmaps the second half too (double munmap of the range owned by the second Map)")
        else:
            sb = {b for b, _ in shr}
            if okt is not None:
                r = body.reachable(okt, avoid=sb)
                early = [b for b in sb if body.dominates(b, fbb) or b == fbb]
                if early:
                    probs.append("the first Map is shrunk BEFORE the fixed re-map has succeeded: if that mmap fails, `?` drops a "
                                 "Map that unmaps only the first half and the second half of the initial 2x mapping is leaked")
                elif agg_bb in r and okt not in sb:
                    probs.append("a path builds Circ without shrinking the first Map")
            for b2, s in shr:
                if not same_expr(body.rvalue_expr(s["rv"]), half):
                    probs.append("first Map's len is set to something other than the length of the re-mapped half")
        if not okaddr:
            probs.append("second mapping is not placed at base + size")
        if not okfull:
            probs.append("first mapping is not 2 x the size of the re-mapped half")
        if probs:
            col.bad("C18.R4", key, body.where(agg_bb), "; ".join(probs), {})
        else:
            col.ok("C18.R4", key, body.where(agg_bb), "map.len = size after the fixed re-map, both Maps moved into Circ")


def rule_r5(facts, col):
    """no leak primitives in the stream/buffer modules"""
    n = 0
    for body in facts.bodies:
        if body.file not in ("src/circular_buffer.rs", "src/stream.rs"):
            continue
        n += 1
        hit = [(bb, t) for bb, t in body.calls_to(lambda q: q in LEAKS)]
        if hit:
            for bb, t in hit:
                col.bad("C18.R5", "%s:%s" % (body.q, t["f"]["name"]), body.where(bb),
                        "leak primitive %s in the stream/buffer module: a mapping or descriptor can outlive its stream" % t["f"]["q"], {})
        else:
            col.ok("C18.R5", body.q, body.where(), "no forget/ManuallyDrop/leak/into_raw")


def rule_r6(facts, col):
    """mmap flags: MAP_SHARED | {0, MAP_FIXED}; offset 0"""
    for body, bb, t in mmap_sites(facts):
        key = "%s:flags" % body.q
        vals = const_values(body.operand_expr(t["args"][3]))
        off = const_values(body.operand_expr(t["args"][5]))
        if vals is None:
            col.silent("C18.R6", key, body.where(bb), "flags not constant: %s" % show(body.operand_expr(t["args"][3]))[:160])
            continue
        bad = [v for v in vals if not (v & MAP_SHARED) or (v & MAP_PRIVATE) or (v & ~(MAP_SHARED | MAP_FIXED))]
        if bad:
            col.bad("C18.R6", key, body.where(bb),
                    "mmap flags can be %s: without MAP_SHARED the two halves are private copies and do not alias" % sorted(hex(v) for v in vals), {})
        elif off != {0}:
            col.bad("C18.R6", key, body.where(bb), "mmap offset is not the constant 0: the halves map different file ranges", {})
        else:
            col.ok("C18.R6", key, body.where(bb), "flags in %s, offset 0" % sorted(hex(v) for v in vals))


def _strip_casts(e):
    p = peel(e, through_try=False)
    while p is not None and p.k == "cast" and p.a is not None:
        p = peel(p.a, through_try=False)
    return p


def rule_r8(facts, col):
    """the aliasing period equals the ring size the position arithmetic uses: in Circ::new the second mapping sits at
    base + size with length size, for the size the CALLER passed (not a rounded or otherwise adjusted value), and the Buffer
    constructor hands the same size to the ring state and to Circ::new"""
    for body in facts.bodies:
        if body.self_adt != CIRC_ADT or body.name != "new" or body.kind == "closure":
            continue
        key = body.q + ":period"
        probs = []
        n = 0
        for bb, t in mapping_calls(body)[1]:
            if len(t["args"]) >= 3:
                n += 1
                ln = _strip_casts(body.operand_expr(t["args"][1]))
                if not (ln.k == "param" and ln.idx == 1):
                    probs.append("the second mapping's length is %s, not the size parameter" % show(ln)[:50])
                ptr = expand_local_call(facts, body.operand_expr(t["args"][2]))
                okp = False
                for x in walk(ptr):
                    if x.k == "bin" and x.op in ("Add", "AddUnchecked", "Offset"):
                        for side in (x.a, x.b):
                            sp = _strip_casts(side)
                            if sp is not None and sp.k == "param" and sp.idx == 1:
                                okp = True
                    if x.k == "call" and (x.q or "").split("::")[-1] in ("add", "byte_add", "wrapping_add", "offset") and len(x.args or []) >= 2:
                        sp = _strip_casts(x.args[1])
                        if sp is not None and sp.k == "param" and sp.idx == 1:
                            okp = True
                if not okp:
                    probs.append("the second mapping is not placed at base + <size parameter> (%s)" % show(peel(ptr, through_try=False))[:60])
        if not n:
            col.silent("C18.R8", key, body.where(), "no Map::with_addr call")
            continue
        if probs:
            col.bad("C18.R8", key, body.where(), "; ".join(probs) + ": positions wrap at the size the caller asked for, so byte i and "
                    "byte i + size must be the same memory; with a different period the two halves do not alias and a window "
                    "crossing the wrap point shows stale data", {})
        else:
            col.ok("C18.R8", key, body.where(), "second half mapped at base + size, length size, for the caller's size")
    # the Buffer constructor: same size to the ring state and to Circ::new
    for body in facts.bodies:
        if body.kind == "closure":
            continue
        agg = None
        for b2 in sorted(body.reachable(0)):
            for st in body.blocks[b2]["stmts"]:
                if st["k"] == "assign" and st["rv"]["k"] == "agg" and st["rv"].get("adt") == c01.STATE_ADT:
                    agg = (b2, st)
        calls = [(bb, t) for bb, t in body.calls() if (t["f"].get("q") or "").endswith("Circ::new")]
        if not calls:
            continue
        key = body.q + ":same-size"
        cl = None
        if agg:
            flds = agg[1]["rv"].get("fields") or []
            if "circ_len" not in flds:
                col.silent("C18.R8", key, body.where(agg[0]), "no circ_len field")
                continue
            cl = _strip_casts(body.operand_expr(agg[1]["rv"]["ops"][flds.index("circ_len")]))
        else:
            # the ring state may be built by a constructor function (`BufferState::new(size, ..)`): take the argument that
            # ends up in circ_len
            for bb, t in body.calls():
                for q in Body.callee_qs(t):
                    for hb in facts.by_q.get(q, []):
                        if hb.kind == "closure" or hb is body:
                            continue
                        for b2 in sorted(hb.reachable(0)):
                            for st in hb.blocks[b2]["stmts"]:
                                if st["k"] == "assign" and st["rv"]["k"] == "agg" and st["rv"].get("adt") == c01.STATE_ADT:
                                    fl2 = st["rv"].get("fields") or []
                                    if "circ_len" in fl2:
                                        pe = _strip_casts(hb.operand_expr(st["rv"]["ops"][fl2.index("circ_len")]))
                                        if pe.k == "param" and pe.idx - 1 < len(t["args"]):
                                            cl = _strip_casts(body.operand_expr(t["args"][pe.idx - 1]))
                                            agg = (bb, None)
            if cl is None:
                continue
        ca = _strip_casts(body.operand_expr(calls[0][1]["args"][0]))
        if cl.k == "call" or ca.k == "call":
            col.silent("C18.R8", key, body.where(agg[0]), "size obtained through a call: not compared")
        elif same_expr(cl, ca):
            col.ok("C18.R8", key, body.where(agg[0]), "ring state and mapping get the same size")
        else:
            col.bad("C18.R8", key, body.where(agg[0]), "the ring state wraps at %s but the mapping is created for %s" % (show(cl)[:40], show(ca)[:40]), {})


def rule_r9(facts, col, rule_id="C18.R9"):
    """the fixed mapping goes where the caller asked: in `Map::with_addr` the address handed to mmap() is the pointer
    parameter itself (casts only) - never a value computed from it.  Rounding a misaligned request to a page boundary moves a
    MAP_FIXED mapping onto memory the reservation does not cover: it replaces (and the error path then unmaps) a page of
    whatever lives next to it - another live stream's first page."""
    n = 0
    for body, bb, t in mmap_sites(facts):
        if body.name != "with_addr" or body.file != "src/circular_buffer.rs":
            continue
        if True:
            if t["f"].get("name") != "mmap" or not t["args"]:
                continue
            n += 1
            key = "%s:mmap-addr" % body.q
            e = peel(body.operand_expr(t["args"][0]), through_try=False)
            k_ = 0
            while e is not None and e.k == "cast" and k_ < 6:
                e = peel(e.a, through_try=False)
                k_ += 1
            if e is not None and e.k == "param":
                col.ok(rule_id, key, body.where(bb), "mmap() is handed the pointer parameter unchanged")
            else:
                col.bad(rule_id, key, body.where(bb),
                        "the address handed to mmap(MAP_FIXED) is computed (%s), not the caller's pointer: a rounded address lies outside "
                        "the stream's own reservation and the fixed mapping lands on a neighbour's memory" % (show(e)[:60] if e is not None else "?"), {})
    return n


def run(ctx):
    facts = ctx.facts("default")
    ctx.anchor("C18", MAP_ADT in facts.adts and CIRC_ADT in facts.adts, "circular_buffer::{Map,Circ}")
    rule_r1(facts, ctx)
    rule_r2(facts, ctx)
    rule_r3(facts, ctx)
    rule_r4(facts, ctx)
    rule_r5(facts, ctx)
    rule_r6(facts, ctx)
    c01.rule_r2(facts, ctx, rule_id="C18.R7")
    rule_r8(facts, ctx)
    ctx.floor("C18.R8", 2, "Circ::new period + Buffer::new same size")
    rule_r9(facts, ctx)
    ctx.floor("C18.R9", 1, "the mmap() call of Map::with_addr")
    from .. import controls
    controls.expect(ctx, "C18.R1", rule_r1, "rogue_mapping", "mmap outside Map")
    controls.expect(ctx, "C18.R6", rule_r6, "rogue_mapping", "MAP_PRIVATE mapping")
    ctx.floor("C18.R1", 3, "mmap in with_addr, munmap in with_addr and Drop")
    ctx.floor("C18.R2", 1, "mmap call")
    ctx.floor("C18.R3", 1, "Drop for Map")
    ctx.floor("C18.R4", 1, "Circ::new")
    ctx.floor("C18.R5", 40, "bodies of circular_buffer.rs and stream.rs")
    ctx.floor("C18.R6", 1, "mmap flags")
    ctx.floor("C18.R7", 1, "Buffer constructor")
    ctx.explain("C18: who-may-call (mmap/munmap only inside Map), typestate on Map::with_addr (mapped -> owned | unmapped "
                "on every path), Drop unmaps (self.base, self.len), Circ::new shrinks the first Map to the re-mapped half "
                "before both Maps are moved into Circ, no leak primitives in the stream modules, constant mmap flags "
                "contain MAP_SHARED and not MAP_PRIVATE with offset 0, and the Buffer constructor rejects element sizes "
                "that do not divide the buffer (R7 = C01.R2).")
    ctx.assume("kernel mmap/munmap/ftruncate semantics; tempfile() returns an unlinked file closed when the File is dropped")
