"""C02 — stream tags reach the reader exactly once, on their sample (structural part)."""
from ..common import *
from ..mir import peel, walk, show, E
from . import c01

BTREE = "std::collections::BTreeMap"
INSERTING = {"insert", "entry", "append", "extend", "try_insert", "first_entry", "last_entry", "get_mut", "iter_mut",
             "values_mut", "range_mut", "get_or_insert_with"}
REMOVING = {"remove", "remove_entry", "clear", "retain", "pop_first", "pop_last", "split_off", "extract_if",
            "drain_filter"}
TAG_POS = "stream::Tag::pos"


def roots_in_tags(e):
    for x in walk(e):
        if x.k == "field" and x.owner == c01.STATE_ADT and x.name == "tags":
            return True
    return False


def tag_map_calls(facts):
    """(body, bb, term, kind) for every mutating BTreeMap call on BufferState.tags"""
    out = []
    for body in facts.bodies:
        for bb, t in body.calls():
            f = t["f"]
            if f.get("self_adt") != BTREE:
                r = f.get("resolved") or {}
                if r.get("self_adt") != BTREE:
                    continue
            name = f.get("name")
            if name not in INSERTING and name not in REMOVING:
                continue
            if not t["args"]:
                continue
            if not roots_in_tags(body.operand_expr(t["args"][0])):
                continue
            out.append((body, bb, t, "insert" if name in INSERTING else "remove"))
    return out


def body_role(facts, body):
    root = body
    if body.kind == "closure" and body.parent:
        root = facts.by_path.get(body.parent["path"], body)
    fields = {f for _, f, _ in c01.ring_writes(root)}
    if "wpos" in fields:
        return "commit"
    if "rpos" in fields:
        return "consume"
    return "other"


def rule_r1(facts, col):
    """who writes the tag map"""
    for body, bb, t, kind in tag_map_calls(facts):
        role = body_role(facts, body)
        key = "%s:%s" % (body.q, t["f"]["name"])
        if (kind == "insert" and role == "commit") or (kind == "remove" and role == "consume"):
            col.ok("C02.R1", key, body.where(bb), "%s of tags in the %s body" % (kind, role))
        else:
            col.bad("C02.R1", key, body.where(bb),
                    "the tag map is %s in a %s body (%s): tags may only be added by commit and removed by consume; anything "
                    "else loses, duplicates or re-labels tags" % ("modified" if kind == "insert" else "pruned", role, body.q), {})
    # the read-window body mutates nothing (instance: it exists and has 0 mutating calls)
    for body in facts.bodies:
        if body.self_adt == c01.BUFFER_ADT and body.name == "read_buf":
            n = [1 for b2, bb, t, k in tag_map_calls(facts) if b2 is body]
            if not n:
                col.ok("C02.R1", body.q + ":readonly", body.where(), "read window body does not mutate the tag map")


def _filtered_by_pos(facts, body):
    """The loop that stores tags iterates `tags.iter().filter(|t| t.pos() < n)` (n = the count parameter): every
    Iterator::next feeding the loop has a filter adaptor whose closure returns pos < n."""
    nexts = [(bb, t) for bb, t in body.calls_to("std::iter::Iterator::next")]
    okn = 0
    for bb, t in nexts:
        e = body.operand_expr(t["args"][0])
        found = False
        for x in walk(e):
            if x.k == "call" and (x.q or "").split("::")[-1] == "filter" and len(x.args) >= 2:
                clo = None
                for y in walk(x.args[1]):
                    if y.k == "agg" and y.ak == "closure":
                        clo = y
                if clo is None:
                    continue
                cb = facts.by_path.get(clo.q)
                if cb is None:
                    continue
                # which upvar is n ?
                n_up = [i for i, a in enumerate(clo.args or []) if any(z.k == "param" and z.idx == 2 for z in walk(a))]
                for rb, si, r in assigns_to_return(cb):
                    p = peel(r, through_try=False)
                    if p.k == "bin" and p.op in ("Lt", "Gt"):
                        a, b_ = (p.a, p.b) if p.op == "Lt" else (p.b, p.a)
                        pa = peel(a, through_try=False)
                        pb = peel(b_, through_try=False)
                        if pa.k == "call" and pa.q == TAG_POS and pb.k == "field" and pb.idx in n_up:
                            found = True
        if found:
            okn += 1
    return okn >= 1


def rule_r2(facts, col, rule_id="C02.R2"):
    """commit stores only tags with pos < n"""
    for body, bb, t, kind in tag_map_calls(facts):
        if kind != "insert" or body_role(facts, body) != "commit" or body.kind == "closure":
            continue
        key = "%s:%s" % (body.q, t["f"]["name"])
        guards = []
        for s in sorted(body.reachable(0)):
            tt = body.term(s)
            if tt["k"] != "switch" or tt.get("dty") != "bool":
                continue
            if c01.from_debug_assert(tt.get("sp")):
                continue
            e = peel(switch_discr_expr(body, s), through_try=False)
            neg = False
            while e.k == "un" and e.op == "Not":
                neg = not neg
                e = peel(e.a, through_try=False)
            if e.k != "bin" or e.op not in ("Lt", "Le", "Ge", "Gt"):
                continue
            a, b = peel(e.a, through_try=False), peel(e.b, through_try=False)
            bt = bool_edge_targets(body, s)
            tr, fa = (bt[1], bt[0]) if neg else bt
            is_pos = lambda x: x.k == "call" and x.q == TAG_POS
            is_n = lambda x: x.k == "param" and x.idx == 2
            ok = None
            if is_pos(a) and is_n(b):
                ok = tr if e.op == "Lt" else (fa if e.op == "Ge" else None)
            elif is_n(a) and is_pos(b):
                ok = tr if e.op == "Gt" else (fa if e.op == "Le" else None)
            if ok is not None:
                guards.append((s, ok))
        good = [g for g in guards if must_pass_edge(body, bb, g)]
        if not good and _filtered_by_pos(facts, body):
            col.ok(rule_id, key, body.where(bb), "tags are taken from an iterator filtered by `t.pos() < n`")
            continue
        if good:
            col.ok(rule_id, key, body.where(bb), "tag stored only behind tag.pos() < n (%s)" % body.where(good[0][0]))
        else:
            col.bad(rule_id, key, body.where(bb),
                    "commit stores every tag it is handed, also tags with pos >= n (samples that were not committed): such a "
                    "tag sits on a sample that was never written and is reported again when the caller re-submits it with "
                    "the next window (duplicate / wrong sample)", {})


def rule_r4(facts, col, rule_id="C02.R4"):
    """consuming zero samples removes no tags: with modular positions (rpos, newpos) cannot tell n == 0 from
    n == capacity, so tag removal must sit behind an n != 0 test"""
    for body, bb, t, kind in tag_map_calls(facts):
        if kind != "remove":
            continue
        root = body
        if body.kind == "closure":
            continue
        if body_role(facts, body) != "consume":
            continue
        key = "%s:%s" % (body.q, t["f"]["name"])
        n = E("param", idx=2)
        if known_nonzero(body, bb, n):
            col.ok(rule_id, key, body.where(bb), "tags removed only when n != 0")
        else:
            col.bad(rule_id, key, body.where(bb),
                    "consume(n) selects the tags to remove from (rpos, (rpos+n) % capacity) alone; for n == 0 that is the same pair "
                    "as for n == capacity, so consuming zero samples discards EVERY tag in the stream (blocks that call consume(0), "
                    "e.g. Delay, never forward a tag)", {})


def rule_r5(facts, col, rule_id="C02.R5"):
    """tags are stored under a ring position: the key handed to the map in the commit body is reduced modulo the
    capacity (consume removes keys in ranges inside [0, capacity) only)"""
    for body, bb, t, kind in tag_map_calls(facts):
        if kind != "insert" or body_role(facts, body) != "commit" or body.kind == "closure":
            continue
        if t["f"].get("name") not in ("entry", "insert", "try_insert") or len(t["args"]) < 2:
            continue
        key = "%s:%s:key" % (body.q, t["f"]["name"])
        k = peel(expand_local_call(facts, body.operand_expr(t["args"][1])), through_try=False)
        ok = k.k == "bin" and k.op == "Rem" and any(x.k == "call" and (x.q or "").endswith("BufferState::capacity") for x in walk(k.b))
        if ok:
            col.ok(rule_id, key, body.where(bb), "key = (..) % capacity()")
        elif any(x.k == "call" and (x.q or "").split("::")[-1] in ("next", "pos") for x in walk(k)) and \
                not any(x.k == "bin" and x.op in ("Add", "Sub") for x in walk(k)):
            col.silent(rule_id, key, body.where(bb), "key taken from an element of a pre-computed list: reduction not visible here")
        else:
            col.bad(rule_id, key, body.where(bb),
                    "the position a tag is stored under is not reduced modulo the ring capacity (%s): for a commit that straddles the "
                    "wrap point the key is >= capacity, consume() - which scans [0, capacity) - never removes it, and the tag reappears "
                    "on unrelated samples on later laps" % show(k)[:80], {})


def _bound_atoms(e, out, depth=0):
    """which ends of the consumed interval an argument mentions AS A BOUND: descend through aggregates, references, casts,
    merges and calls, but not through arithmetic - an arithmetic node is one atom ('new' when it involves the count
    parameter, i.e. the new read position; the old read position is the bare `rpos` field read)"""
    if e is None or depth > 40:
        return
    if e.k == "field" and e.owner == c01.STATE_ADT and e.name == "rpos":
        out.add("old")
        return
    if e.k == "bin":
        has_n = any(x.k == "param" and x.idx >= 2 for x in walk(e))
        has_r = any(x.k == "field" and x.owner == c01.STATE_ADT and x.name == "rpos" for x in walk(e))
        if has_n and has_r:
            out.add("new")
        return
    for c in ("a", "b"):
        x = getattr(e, c, None)
        if x is not None:
            _bound_atoms(x, out, depth + 1)
    for x in (e.args or []):
        _bound_atoms(x, out, depth + 1)
    alts = getattr(e, "alts", None) or []
    if alts:
        # a value chosen between alternatives (`let keys = if whole {all keys} else if wraps {..} else {..}`): it is bounded by an
        # end only if EVERY alternative is
        if _MULTI_HOOK and e.k == "multi":
            out.update(_MULTI_HOOK[0](e.local, depth + 1))
            return
        common = None
        for x in alts:
            s_ = set()
            _bound_atoms(x, s_, depth + 1)
            common = s_ if common is None else (common & s_)
        out.update(common or set())


_MULTI_HOOK = []


def _make_multi_hook(body):
    """atoms of a multiply-assigned local, alternative by alternative: an alternative that is another local (`t`) counts with what
    was added to that local afterwards (`t.extend(range(0..newpos))`)"""
    grow = {}
    pending = []
    for bb, t in body.calls():
        if t["f"].get("name") in ("extend", "append", "push", "extend_from_slice", "insert") and len(t["args"]) >= 2:
            pending.append(t)
    def _fill():
      for t in pending:
        if True:
            q = t["args"][0].get("m") or t["args"][0].get("c")
            if q is None:
                continue
            l = q["l"]
            ds = body.defs().get(l, [])
            if len(ds) == 1 and ds[0][2] == "rv" and ds[0][3]["k"] == "ref" and not ds[0][3]["p"]["p"]:
                l = ds[0][3]["p"]["l"]
            for a in t["args"][1:]:
                s_ = set()
                _bound_atoms(body.operand_expr(a), s_)
                grow.setdefault(l, set()).update(s_)

    def of_local(l, depth=0):
        if pending and not grow.get("_filled"):
            grow["_filled"] = True
            _MULTI_HOOK[:] = [of_local]
            _fill()
        if depth > 30:
            return set()
        ds = body.defs().get(l, [])
        res = None
        for dbb, si, kind, payload in ds:
            s_ = set()
            if kind == "rv" and payload["k"] in ("bin", "un") and len(ds) > 1:
                # an in-place update of the same variable (`newpos -= cap`): not an alternative origin of its own
                ops_ = [payload.get("a"), payload.get("b")]
                if any(isinstance(o_, dict) and ((o_.get("m") or o_.get("c") or {}).get("l") == l) for o_ in ops_):
                    continue
            if kind == "rv" and len(ds) > 1:
                ex_ = body.rvalue_expr(payload)
                if ex_ is not None and ex_.k in ("bin", "un") and any(x.k in ("local", "multi") and x.local == l for x in walk(ex_)):
                    continue      # `newpos -= cap` (through the checked-arithmetic temporary): an in-place update
            if kind == "rv" and payload["k"] == "use":
                q = payload["a"].get("m") or payload["a"].get("c")
                if q is not None and not q["p"]:
                    s_ = of_local(q["l"], depth + 1)
                else:
                    _bound_atoms(body.rvalue_expr(payload), s_, depth + 1)
            elif kind == "rv":
                _bound_atoms(body.rvalue_expr(payload), s_, depth + 1)
            else:
                _bound_atoms(body.call_expr(dbb, payload), s_, depth + 1)
            res = s_ if res is None else (res & s_)
        return (res or set()) | grow.get(l, set())
    return of_local


def rule_r6(facts, col, rule_id="C02.R6"):
    """which tags a consume removes depends on BOTH ends of the consumed interval on every path: anything that shrinks the
    tag map using only the new read position (or only the old one) also removes tags of samples that are still unread when
    the readable region straddles the wrap point"""
    for body in facts.bodies:
        if body.kind == "closure" or body_role(facts, body) != "consume":
            continue
        ops = {}      # bb -> set of atoms
        _MULTI_HOOK[:] = [_make_multi_hook(body)]
        for bb, t in body.calls():
            f = t["f"]
            r = f.get("resolved") or {}
            if f.get("self_adt") != BTREE and r.get("self_adt") != BTREE:
                continue
            if f.get("name") not in REMOVING or not t["args"]:
                continue
            recv = body.operand_expr(t["args"][0])
            if not (roots_in_tags(recv) or any(x.k == "call" and (x.q or "").startswith(BTREE) for x in walk(recv))):
                continue
            atoms = set()
            for a in t["args"][1:]:
                _bound_atoms(body.operand_expr(a), atoms)
            # closures passed (retain): what they capture
            for a in t["args"][1:]:
                for x in walk(body.operand_expr(a)):
                    if x.k == "agg" and x.ak == "closure":
                        for y in (x.args or []):
                            _bound_atoms(y, atoms)
            ops.setdefault(bb, set()).update(atoms)
        for bb in sorted(body.reachable(0)):
            for s_ in body.blocks[bb]["stmts"]:
                if s_["k"] != "assign":
                    continue
                pj = s_["dst"]["p"]
                if pj and isinstance(pj[-1], dict) and pj[-1].get("o") == c01.STATE_ADT and pj[-1].get("n") == "tags":
                    atoms = set()
                    _bound_atoms(body.rvalue_expr(s_["rv"]), atoms)
                    ops.setdefault(bb, set()).update(atoms)
        _MULTI_HOOK[:] = []
        if not ops:
            continue
        rets = [b for b in body.reachable(0) if body.term(b)["k"] == "return"]
        for end, other in (("old", "the old read position rpos"), ("new", "the new read position (rpos + n) % capacity")):
            key = "%s:removal-depends-on-%s" % (body.q, end)
            good = {bb for bb, at in ops.items() if end in at}
            # a path entry -> some shrink op -> return that avoids every op mentioning this end
            r1 = body.reachable(0, avoid=good)
            hit = [bb for bb in ops if bb in r1 and bb not in good]
            bad = None
            for bb in hit:
                r2 = body.reachable(bb, avoid=good)
                if any(x in r2 for x in rets):
                    bad = bb
                    break
            if bad is not None:
                col.bad(rule_id, key, body.where(bad),
                        "consume() can shrink the tag map on a path where no removal is bounded by %s: it removes tags outside the "
                        "consumed interval [rpos, rpos+n) - tags of samples still unread - whenever the readable region straddles the "
                        "end of the ring" % other, {})
            else:
                col.ok(rule_id, key, body.where(sorted(ops)[0]), "every path that removes tags is bounded by %s" % other)


def rule_r7(facts, col, rule_id="C02.R7"):
    """a commit is atomic: its tags enter the map under the SAME lock acquisition that advances the write position
    (otherwise a reader can see - and consume - the committed samples without their tags, which then surface a lap later)"""
    from .c03 import _lock_bbs
    for body in facts.bodies:
        if body.kind == "closure" or body_role(facts, body) != "commit":
            continue
        wlocks = set()
        for bb, fld, st in c01.ring_writes(body):
            if fld == "wpos":
                wlocks |= _lock_bbs(c01.rw_dst_expr(body, st))
        if not wlocks:
            continue
        for b2, bb, t, kind in tag_map_calls(facts):
            if b2 is not body or kind != "insert":
                continue
            key = "%s:%s:same-lock" % (body.q, t["f"]["name"])
            tl = _lock_bbs(body.operand_expr(t["args"][0]))
            if not tl:
                col.silent(rule_id, key, body.where(bb), "lock acquisition behind the tag map access not visible")
            elif tl & wlocks:
                col.ok(rule_id, key, body.where(bb), "tags inserted under the lock acquisition that advances wpos")
            else:
                col.bad(rule_id, key, body.where(bb),
                        "the tags of a commit are inserted under a different lock acquisition than the one that advances wpos/used: "
                        "between the two the reader can obtain (and consume) the new samples without their tags; the tags are then "
                        "purged undelivered or resurface one lap later on unrelated samples", {})


def rule_r8(facts, col, rule_id="C02.R8"):
    """the wrapped end of the read window (`end % capacity`) is never compared with its start: the two coincide for an EMPTY
    and for a completely FULL ring, so any decision taken on that comparison treats a full window like an empty one (all its
    tags invisible) - the fill level `used` exists to tell them apart"""
    n = 0
    for body in facts.bodies:
        if not (body.self_adt or "").startswith("circular_buffer::Buffer"):
            continue
        n += 1
        found = False
        for bb in sorted(body.reachable(0)):
            for st in body.blocks[bb]["stmts"]:
                if st["k"] != "assign" or st["rv"]["k"] != "bin" or st["rv"]["op"] not in ("Lt", "Le", "Gt", "Ge", "Eq", "Ne"):
                    continue
                a = peel(body.operand_expr(st["rv"]["a"]), through_try=False)
                b = peel(body.operand_expr(st["rv"]["b"]), through_try=False)
                for x, y in ((a, b), (b, a)):
                    if not (x.k == "bin" and x.op == "Rem" and any(z.k == "call" and (z.q or "").endswith("BufferState::capacity") for z in walk(x.b))):
                        continue
                    xe = peel(x.a, through_try=False)
                    is_end = (xe.k == "field" and xe.idx == 1 and any(z.k == "call" and (z.q or "").endswith("read_range") for z in walk(xe))) or \
                        (any(z.k == "field" and z.owner == c01.STATE_ADT and z.name == "rpos" for z in walk(xe)) and
                         any(z.k == "field" and z.owner == c01.STATE_ADT and z.name == "used" for z in walk(xe)))
                    is_start = (y.k == "field" and y.idx == 0 and any(z.k == "call" and (z.q or "").endswith("read_range") for z in walk(y))) or \
                        (y.k == "field" and y.owner == c01.STATE_ADT and y.name == "rpos")
                    if is_end and is_start:
                        found = True
                        col.bad(rule_id, "%s:start-vs-wrapped-end" % body.q, "%s:%d" % (st["sp"]["f"], st["sp"]["l"]),
                                "the start of the read window is compared with its end reduced modulo capacity(): both are equal for an "
                                "empty ring and for a completely full one, so the full window is handled like an empty one (e.g. no tag "
                                "is reported for it, and consume() then deletes them undelivered)", {})
        if not found and body.name == "read_buf":
            col.ok(rule_id, "%s:no-ambiguous-comparison" % body.q, body.where(), "no start-vs-(end % capacity) decision")


def rule_r9(facts, col, rule_id="C02.R9"):
    """the commit looks at EVERY tag it was handed: the loop that stores tags is left only when its iterator is exhausted (a
    `break` on the first tag beyond the committed samples silently drops every later tag of the list, in whatever order the
    caller passed them)"""
    for body in facts.bodies:
        if body.kind == "closure" or body_role(facts, body) != "commit":
            continue
        ins = [bb for b2, bb, t, kind in tag_map_calls(facts) if b2 is body and kind == "insert"]
        if not ins:
            continue
        comp = scc_of(body, ins[0])
        key = "%s:tag-loop" % body.q
        if comp is None:
            col.ok(rule_id, key, body.where(ins[0]), "tags not stored in an explicit loop of this body: nothing to leave early")
            continue
        nexts = [b for b, t in body.calls_to("std::iter::Iterator::next") if b in comp]
        bad = []
        for (u, v) in loop_exits(body, comp):
            okx = False
            tu = body.term(u)
            if tu["k"] == "switch":
                e = switch_discr_expr(body, u)
                if e.k == "discr":
                    x = peel(e.a, through_try=False)
                    if x is not None and x.k == "call" and x.bb in nexts and variant_target(body, u, 0, 2) == v:
                        okx = True
            if tu["k"] in ("assert", "call") and body.term(v)["k"] in ("unreachable",):
                okx = True
            if tu["k"] == "call" and tu.get("u") == v:
                okx = True      # unwind edge
            if not okx:
                bad.append(u)
        if bad:
            col.bad(rule_id, key, body.where(bad[0]),
                    "the loop that stores a commit's tags can be left before its iterator is exhausted: every tag after that point "
                    "in the caller's list - also tags on committed samples - is dropped", {})
        else:
            col.ok(rule_id, key, body.where(ins[0]), "tag loop left only on iterator exhaustion")


def rule_r14(facts, col, rule_id="C02.R14"):
    """every tag on a committed sample is stored: inside the loop of the commit body that stores tags, the only branch that
    can take a tag back to the loop head without storing it is the `tag.pos() < n` test of R2 (a store made conditional on
    anything else - what is already stored on that sample, the tag's key or value - silently drops tags the writer committed)"""
    for body in facts.bodies:
        if body.kind == "closure" or body_role(facts, body) != "commit":
            continue
        ins = [(bb, t) for b2, bb, t, kind in tag_map_calls(facts) if b2 is body and kind == "insert"]
        if not ins:
            continue
        comp = scc_of(body, ins[0][0])
        key = "%s:tag-loop:store" % body.q
        if comp is None:
            col.silent(rule_id, key, body.where(ins[0][0]), "tags not stored in an explicit loop of this body")
            continue
        heads = [b for b, t in body.calls_to("std::iter::Iterator::next") if b in comp]
        stores = set()
        for bb, t in ins:
            if t["f"].get("name") in ("insert", "try_insert"):
                stores.add(bb)
        for bb, t in body.calls():
            if bb in comp and any(q.endswith("Vec::<T, A>::push") or q.endswith("::push") or q.endswith("::push_back") or
                                  q.endswith("::extend") for q in Body.callee_qs(t)):
                stores.add(bb)
        if not heads or not stores:
            col.silent(rule_id, key, body.where(ins[0][0]), "loop head or storing call not visible in this body")
            continue
        bad = []
        sw = {}
        for u in sorted(comp):
            tu = body.term(u)
            if tu["k"] != "switch" or c01.from_debug_assert(tu.get("sp")):
                continue
            e = peel(switch_discr_expr(body, u), through_try=False)
            while e.k == "un" and e.op == "Not":
                e = peel(e.a, through_try=False)
            # the one test that may send a tag back unstored: a comparison of the tag's position with n (R2 judges its sense)
            sw[u] = (e, e.k == "bin" and e.op in ("Lt", "Le", "Ge", "Gt") and
                     any(x.k == "call" and x.q == TAG_POS for x in walk(e)) and
                     any(x.k == "param" and x.idx == 2 for x in walk(e)))
        pos_tests = {u for u, (e, p) in sw.items() if p}
        for u, (e, is_pos_test) in sw.items():
            if is_pos_test:
                continue
            for v in set(body.succ[u]):
                if v not in comp or v in stores:
                    continue
                # paths that reach the position test are that test's business: they are cut there
                r = body.reachable(v, avoid=stores, edge_filter=lambda a, b: a not in pos_tests)
                if v in heads or any(h in r for h in heads):
                    bad.append((u, show(e)[:90]))
        if bad:
            col.bad(rule_id, key, body.where(bad[0][0]),
                    "inside the loop that stores a commit's tags a branch other than the `tag.pos() < n` test leads back to the "
                    "loop head without storing the tag (%s): a tag the writer committed on a delivered sample is dropped" % bad[0][1], {})
        else:
            col.ok(rule_id, key, body.where(ins[0][0]), "every tag that passes the position test reaches the storing call (%d store sites)" % len(stores))


UNSTABLE_SORTS = {"sort_unstable", "sort_unstable_by", "sort_unstable_by_key", "select_nth_unstable", "select_nth_unstable_by",
                  "select_nth_unstable_by_key", "reverse", "swap", "rotate_left", "rotate_right", "dedup", "dedup_by_key", "dedup_by"}
STABLE_SORTS = {"sort", "sort_by", "sort_by_key", "sort_by_cached_key"}


def rule_r3(facts, col):
    """the read-window body re-orders the tag list only with a stable sort (several tags on one sample keep
    their commit order)"""
    for body in facts.bodies:
        if body.self_adt != c01.BUFFER_ADT or body.name != "read_buf":
            continue
        nsorts = 0
        for bb, t in body.calls():
            f = t["f"]
            name = f.get("name")
            if name not in UNSTABLE_SORTS and name not in STABLE_SORTS:
                continue
            nsorts += 1
            if not t["args"]:
                continue
            aty = (t.get("argtys") or [""])[0]
            if "stream::Tag" not in aty:
                continue
            key = "%s:%s" % (body.q, name)
            if name in STABLE_SORTS:
                col.ok("C02.R3", key, body.where(bb), "tags ordered by position with a stable sort")
            else:
                col.bad("C02.R3", key, body.where(bb),
                        "the read window re-orders the tag list with %s, which does not preserve the relative order of "
                        "equal positions: several tags committed on one sample are no longer reported in commit order" % name, {})
        if not nsorts:
            col.ok("C02.R3", body.q + ":no-sort", body.where(), "the read window does not re-order the tag list at all")


def rule_r10(facts, col, rule_id="C02.R10"):
    """a read window and the tags handed out with it are one snapshot: `Buffer::read_buf` - together with every crate-local
    function it calls, the window constructor included - takes the state lock exactly once.  With a second acquisition (bounds
    re-read inside the constructor, tags collected by a helper that locks on its own) a commit can land in between: the window
    then covers samples whose tags are not in the list, and consuming the window deletes them undelivered - or the list holds a
    tag just outside the window, which is delivered again with the next one."""
    cg = CallGraph(facts)
    n = 0
    for body in facts.bodies:
        if body.kind == "closure" or body.name != "read_buf" or not (body.self_adt or "").startswith("circular_buffer::Buffer"):
            continue
        n += 1
        # acquisitions, not call sites: a helper that locks counts once per call to it (`with_state(..)` twice = two acquisitions)
        seen = {body.q}

        def acquisitions(b, depth=0):
            out = [(b, bb) for bb, t in b.calls_to(MUTEX_LOCK)]
            if depth >= 3:
                return out
            for bb, t in b.calls():
                for q in Body.callee_qs(t):
                    for hb in facts.by_q.get(q, []):
                        if hb.kind == "closure" or hb is b or hb.file not in ("src/circular_buffer.rs", "src/stream.rs"):
                            continue
                        seen.add(hb.q)
                        sub = acquisitions(hb, depth + 1)
                        out += [(b, bb)] * len(sub) if sub else []
            return out
        locks = acquisitions(body)
        key = "%s:one-lock" % body.q
        if len(locks) == 1:
            col.ok(rule_id, key, body.where(locks[0][1]), "one lock acquisition covers the window bounds and the tag list (%d callees followed)" % (len(seen) - 1))
        elif not locks:
            col.bad(rule_id, key, body.where(), "read_buf() takes no lock at all", {})
        else:
            col.bad(rule_id, key, locks[1][0].where(locks[1][1]),
                    "read_buf() takes the state lock %d times (%s): window bounds and tag list are no longer one snapshot - a commit "
                    "between the acquisitions leaves tags of samples inside the window out of the list (consume() then deletes them "
                    "undelivered) or puts a tag of a sample outside the window into it (delivered twice)"
                    % (len(locks), ", ".join("%s" % b.q.split("::")[-1] + "@" + b.where(bb).split(":")[-1] for b, bb in locks)), {})
    return n


CIRC_TOTAL = "circular_buffer::Circ::total_size"
BUF_TOTAL = "circular_buffer::Buffer::total_size"


def rule_r11(facts, col, rule_id="C02.R11"):
    """positions are counted in samples: `Circ::total_size()` - the length of the mapping in BYTES - is called only by
    `Buffer::total_size()`, which divides it by the element size; every comparison / reduction of a ring position uses
    `BufferState::capacity()`.  A byte count used as the ring size is right for 1-byte samples only (all tag-carrying unit tests
    use u8): for wider samples a wrapping read window is taken for a non-wrapping one and the tags behind the wrap are dropped."""
    n = 0
    for body, bb, t in facts.callers_of(CIRC_TOTAL):
        if body.file not in ("src/circular_buffer.rs", "src/stream.rs") or body.kind == "closure" and False:
            continue
        n += 1
        key = "%s:total_size" % body.q
        if body.q == BUF_TOTAL:
            div = False
            for rb, si, e in assigns_to_return(body):
                p = peel(e, through_try=False)
                if not (p.k == "bin" and p.op == "Div"):
                    p2 = expand_local_call(facts, p)         # `samples_in(bytes, self.member_size)`: a helper doing the division
                    p = peel(p2, through_try=False)
                if p.k == "bin" and p.op == "Div" and any(x.k == "call" and (x.bb == bb or x.q == CIRC_TOTAL) for x in walk(p.a)):
                    div = True
            if div:
                col.ok(rule_id, key, body.where(bb), "byte length divided by the element size")
            else:
                col.bad(rule_id, key, body.where(bb), "Buffer::total_size() no longer divides the mapping's byte length by the element size", {})
        elif body.name in ("new",) or c01.from_debug_assert(t.get("sp")):
            col.ok(rule_id, key, body.where(bb), "construction / debug assertion")
        else:
            col.bad(rule_id, key, body.where(bb),
                    "%s uses Circ::total_size(), a length in BYTES, where ring positions are counted in samples: the value is the ring "
                    "size for 1-byte elements only - for wider elements wrap detection and modular reductions are off by the element "
                    "size (tags behind the wrap point are skipped and then deleted undelivered)" % body.q, {})
    return n


def rule_r12(facts, col, rule_id="C02.R12"):
    """a ring position is reduced modulo capacity() from an exact value: no `wrapping_sub / wrapping_add / wrapping_mul` result
    (which is already reduced modulo 2^64) flows into `% capacity()`.  The two reductions compose only when capacity() is a
    power of two - true for the 4096-sample buffers of the unit tests, false for the 4_096_000-byte default stream - so tags in
    the wrapped part of a read window get positions that are off by 2^64 mod capacity."""
    n = 0
    for body in facts.bodies:
        if body.file != "src/circular_buffer.rs":
            continue
        for bb in sorted(body.reachable(0)):
            for st in body.blocks[bb]["stmts"]:
                if st["k"] != "assign" or st["rv"]["k"] != "bin" or st["rv"]["op"] != "Rem":
                    continue
                b = peel(body.operand_expr(st["rv"]["b"]), through_try=False)
                if not any(x.k == "call" and (x.q or "").endswith(("BufferState::capacity", "Buffer::total_size")) for x in walk(b)):
                    continue
                a = body.operand_expr(st["rv"]["a"])
                n += 1
                key = "%s:%%capacity#%d" % (body.q, n)
                wr = [x for x in walk(a) if x.k == "call" and (x.q or "").split("::")[-1] in ("wrapping_sub", "wrapping_add", "wrapping_mul", "wrapping_neg")]
                if wr:
                    col.bad(rule_id, key, "%s:%d" % (st["sp"]["f"], st["sp"]["l"]),
                            "`%s(..) %% capacity()`: the wrapping operation has already reduced its result modulo 2^64, which agrees with "
                            "modulo capacity() only for power-of-two capacities - not for the default stream size" % wr[0].q.split("::")[-1], {})
                else:
                    col.ok(rule_id, key, "%s:%d" % (st["sp"]["f"], st["sp"]["l"]), "reduced from an exact (checked) value")
    return n


def rule_r13(facts, col, rule_id="C02.R13"):
    """consuming a completely full ring removes its tags too: the single-range scan `range(rpos .. newpos)` of consume() is
    taken only under the STRICT test `newpos > rpos`.  After a consume of n >= 1 samples `newpos == rpos` means the whole ring
    was consumed (n == capacity); under `>=` that case scans the empty range [rpos, rpos), removes nothing, and the stale tags
    are delivered again with whatever samples reuse those slots."""
    n = 0
    for body in facts.bodies:
        if body.kind == "closure" or body.file != "src/circular_buffer.rs" or body.name != "consume" or not (body.self_adt or "").endswith("Buffer"):
            continue
        for bb, t in body.calls():
            if t["f"].get("name") != "range" or "BTreeMap" not in (t["f"].get("q") or "") or len(t["args"]) < 2:
                continue
            rg = body.operand_expr(t["args"][1])
            # both ends are positions: rpos as one end, a computed new position as the other
            has_rpos = any(x.k == "field" and x.owner == c01.STATE_ADT and x.name == "rpos" for x in walk(rg))
            ends = [x for x in walk(rg) if x.k in ("multi", "local") or (x.k == "bin" and x.op == "Rem")]
            if not has_rpos or not ends:
                continue
            if any(x.k == "const" and x.v == 0 for x in walk(rg)) or any(x.k == "call" and (x.q or "").endswith("capacity") for x in walk(rg) if False):
                continue
            strict = None
            for f in facts_at(body, bb):
                if f[0] in ("Gt", "Ge", "Lt", "Le") and hasattr(f[1], "k") and hasattr(f[2], "k"):
                    sides = [peel(f[1], through_try=False), peel(f[2], through_try=False)]
                    is_rpos = [sd.k == "field" and sd.owner == c01.STATE_ADT and sd.name == "rpos" for sd in sides]
                    if is_rpos[0] != is_rpos[1]:
                        strict = f[0] in ("Gt", "Lt")
            if strict is None:
                continue
            n += 1
            key = "%s:single-scan" % body.q
            # a range whose both ends lie in the ring without 0 / capacity as an end is the non-wrapping scan
            if strict:
                col.ok(rule_id, key, body.where(bb), "the non-wrapping scan is chosen under a strict comparison of the new and the old read position")
            else:
                col.bad(rule_id, key, body.where(bb),
                        "the non-wrapping tag scan is chosen under a NON-strict comparison of the new read position with rpos: when a "
                        "completely full ring is consumed in one call the positions are equal, the scanned range is empty and none of "
                        "the consumed samples' tags is removed", {})
    if n == 0:
        col.ok(rule_id, "scanned", "src/circular_buffer.rs", "consume() scanned: no non-wrapping range scan chosen by a comparison with rpos "
               "(other spellings of the removal are judged by R6)")
    return n


_STREAM_API = {"read_range", "write_range", "capacity", "free", "new", "slice", "slice_mut", "full_buffer", "len", "is_empty", "total_size",
               "consume", "produce", "read_buf", "write_buf", "wait_for_read", "wait_for_write", "iter", "fill_from_slice", "fill_from_iter"}


class _StreamView:
    """facts in which the ring's entry points (methods of Buffer) are shown with their *private helpers* substituted in:
    methods of BufferState / Buffer that are not part of the established API - `commit_tags(n, tags)`, `window_tags(start, end)`,
    a lock-and-run `with_state(|s| ..)` together with the closure handed to it.  The helpers that every caller inlined are
    removed from `bodies`, so who-may-write rules judge the entry points, as they do on the unrefactored code."""

    def __init__(self, facts):
        from ..inline import inline_body
        self._f = facts
        helpers = set()
        for b in facts.bodies:
            if b.kind == "closure" or b.file != "src/circular_buffer.rs" or b.name in _STREAM_API:
                continue
            if (b.self_adt or "") in ("circular_buffer::BufferState", "circular_buffer::Buffer") or b.self_adt is None:
                helpers.add(b.q)
        self.inlined_helpers = set()
        out = []
        for b in facts.bodies:
            if b.kind != "closure" and b.file == "src/circular_buffer.rs" and (b.self_adt or "").startswith("circular_buffer::Buffer") \
                    and b.q not in helpers and b.name in _STREAM_API:
                try:
                    nb, inl = inline_body(facts, b, lambda hb: hb.q in helpers or hb.kind == "closure", depth=3, closures=True)
                except Exception:
                    nb, inl = b, []
                if inl:
                    self.inlined_helpers |= set(inl)
                    out.append(nb)
                    continue
            out.append(b)
        closures_gone = set()
        self.bodies = [b for b in out if not (b.q in self.inlined_helpers and b.q in helpers)]
        self.changed = bool(self.inlined_helpers)

    def __getattr__(self, name):
        return getattr(self._f, name)

    def callers_of(self, pred):
        if isinstance(pred, str):
            names = {pred}
            pred = lambda q: q in names
        elif isinstance(pred, (set, frozenset, list, tuple)):
            names = set(pred)
            pred = lambda q: q in names
        for b in self.bodies:
            for i, t in b.calls():
                if any(pred(q) for q in Body.callee_qs(t)):
                    yield b, i, t


def stream_view(facts):
    v = _StreamView(facts)
    return v if v.changed else facts


def run(ctx):
    facts0 = ctx.facts("default")
    facts = stream_view(facts0)        # identical to facts0 unless the ring's entry points use private helpers
    ctx.anchor("C02", c01.STATE_ADT in facts.adts, "circular_buffer::BufferState")
    rule_r1(facts, ctx)
    rule_r2(facts, ctx)
    rule_r3(facts, ctx)
    rule_r4(facts, ctx)
    rule_r5(facts, ctx)
    rule_r9(facts, ctx)
    ctx.floor("C02.R9", 1, "tag-storing loop of the commit body")
    rule_r14(facts, ctx)
    ctx.floor("C02.R14", 1, "tag-storing loop of the commit body: skip edges")
    rule_r10(facts0, ctx)
    ctx.floor("C02.R10", 1, "Buffer::read_buf")
    rule_r11(facts0, ctx)
    ctx.floor("C02.R11", 1, "callers of Circ::total_size (Buffer::total_size today)")
    rule_r13(facts, ctx)
    ctx.floor("C02.R13", 1, "the non-wrapping tag scan of consume()")
    rule_r12(facts, ctx)
    ctx.floor("C02.R12", 3, "`% capacity()` reductions in the ring (4 today)")
    rule_r8(facts, ctx)
    ctx.floor("C02.R8", 1, "Buffer::read_buf")
    rule_r7(facts, ctx)
    ctx.floor("C02.R7", 1, "tag insertion in the commit body")
    rule_r6(facts, ctx)
    ctx.floor("C02.R6", 2, "both ends of the consumed interval bound the removal")
    ctx.floor("C02.R5", 1, "tag key in the commit body")
    ctx.floor("C02.R4", 1, "tag removal in consume")
    ctx.floor("C02.R3", 1, "read_buf: its sort (or none)")
    ctx.floor("C02.R1", 3, "1 inserting (entry) + 1 removing (remove) call site + read-only read_buf")
    ctx.floor("C02.R2", 1, "tag insertion in the commit body")
    ctx.explain("C02 (structural part): who-may-write on BufferState.tags (BTreeMap mutators only in the body that advances "
                "wpos [adding] and the body that advances rpos [removing]; the read-window body mutates nothing) and the "
                "commit body stores a tag only behind the ok edge of tag.pos() < n. The modular range arithmetic of "
                "removal and re-basing (including consume(0)) is a value property and NOT decided.")
