"""C01 — streams deliver exactly the committed samples (structural necessary conditions)."""
from ..common import *
from ..mir import peel, walk, show

STATE_ADT = "circular_buffer::BufferState"
BUFFER_ADT = "circular_buffer::Buffer"
CIRC_ADT = "circular_buffer::Circ"
RING_FIELDS = ("rpos", "wpos", "used")
AVAIL_CALLS = {"circular_buffer::BufferState::free", "circular_buffer::BufferState::write_capacity",
               "circular_buffer::BufferState::capacity"}
RAW = {"std::slice::from_raw_parts_mut", "std::slice::from_raw_parts"}


def _ring_writes_direct(body):
    out = []
    for bb, blk in enumerate(body.blocks):
        for s in blk["stmts"]:
            if s["k"] != "assign" or not s["dst"]["p"]:
                continue
            last = s["dst"]["p"][-1]
            if isinstance(last, dict) and last.get("o") == STATE_ADT and last.get("n") in RING_FIELDS:
                out.append((bb, last["n"], s))
    return out


def _facts_of(body):
    try:
        from ..effects import _FACTS_FOR_VERDICTS
        return _FACTS_FOR_VERDICTS.get(id(body))
    except Exception:
        return None


def _is_state_helper(facts, b):
    """a non-public function that writes ring fields through a parameter (typically a BufferState method such as
    `advance_write(&mut self, n)`): it is judged at its call sites, as if inlined"""
    if b.kind == "closure" or not _ring_writes_direct(b):
        return False
    if (b.vis or "").startswith("Public") and b.self_adt != STATE_ADT:
        return False
    if b.self_adt != STATE_ADT:
        return False
    return bool(facts and list(facts.callers_of(b.q)))


def rw_rv_expr(body, st):
    return st["_rv_expr"] if "_rv_expr" in st else body.rvalue_expr(st["rv"])


def rw_dst_expr(body, st):
    return st["_dst_expr"] if "_dst_expr" in st else body.place_expr(st["dst"])


def ring_writes(body, depth=0):
    """writes of the ring fields by this body - including those made for it by BufferState helper methods it calls
    (reported at the call site with the helper's expressions rewritten in terms of the caller's arguments)"""
    facts = _facts_of(body)
    if facts is not None and depth == 0 and _is_state_helper(facts, body):
        return []
    out = list(_ring_writes_direct(body))
    if facts is None or depth > 2:
        return out
    for bb, t in body.calls():
        for q in Body.callee_qs(t):
            for hb in facts.by_q.get(q, []):
                if hb is body or not _is_state_helper(facts, hb):
                    continue
                actual = {i + 1: body.operand_expr(a) for i, a in enumerate(t["args"])}
                for hbb, fld, hst in _ring_writes_direct(hb) + [x for x in ring_writes(hb, depth + 1) if "_rv_expr" in x[2]]:
                    rv = subst_params(peel(rw_rv_expr(hb, hst), through_try=False), actual)
                    dst = subst_params(rw_dst_expr(hb, hst), actual)
                    sp = t.get("sp") or hst["sp"]
                    out.append((bb, fld, {"k": "assign", "sp": {"f": body.file, "l": sp.get("l", 0)}, "dst": hst["dst"], "rv": hst["rv"],
                                          "_rv_expr": rv, "_dst_expr": dst, "_via": hb.q}))
    return out


def _is_state_derived(e):
    for x in walk(e):
        if x.k == "field" and x.owner == STATE_ADT and x.name in ("used", "rpos", "wpos", "circ_len", "member_size"):
            return True
        if x.k == "call" and (x.q in AVAIL_CALLS):
            return True
    return False


def _is_param(e, idx):
    e = peel(e, through_try=False)
    return e is not None and e.k == "param" and e.idx == idx


def from_debug_assert(sp):
    return any("debug_assert" in x for x in (sp or {}).get("x", []))


def refusal_guards(body, count_param=2):
    """[(switch_bb, ok_target)] for comparisons count <= state-derived amount that are real (not debug_assert)."""
    out = []
    for s in sorted(body.reachable(0)):
        t = body.term(s)
        if t["k"] != "switch" or t.get("dty") != "bool":
            continue
        if from_debug_assert(t.get("sp")):
            continue
        e = peel(switch_discr_expr(body, s), through_try=False)
        neg = False
        while e is not None and e.k == "un" and e.op == "Not":
            neg = not neg
            e = peel(e.a, through_try=False)
        if e is None or e.k != "bin" or e.op not in ("Le", "Lt", "Ge", "Gt"):
            continue
        bt = bool_edge_targets(body, s)
        if not bt:
            continue
        tr, fa = bt
        if neg:
            tr, fa = fa, tr
        if _is_param(e.a, count_param) and _is_state_derived(e.b):
            ok = tr if e.op in ("Le", "Lt") else fa
        elif _is_param(e.b, count_param) and _is_state_derived(e.a):
            ok = tr if e.op in ("Ge", "Gt") else fa
        else:
            continue
        out.append((s, ok))
    return out


def helper_refusal_guards(facts, body, count_param=2):
    """[(call_bb, return target)] for calls to a crate-local function that returns normally only behind the ok edge of a
    count <= state-derived-amount comparison over ITS parameters (`self.assert_room_to_produce(&s, n)`), where the actual
    argument in the count position is this body's count parameter"""
    out = []
    for bb, t in body.calls():
        if t.get("t") is None:
            continue
        for q in Body.callee_qs(t):
            for hb in facts.by_q.get(q, []):
                if hb is body or hb.kind == "closure":
                    continue
                rets = hb.return_blocks()
                if not rets:
                    continue
                for cp in range(1, len(t["args"]) + 1):
                    if not _is_param(body.operand_expr(t["args"][cp - 1]), count_param):
                        continue
                    gs = refusal_guards(hb, count_param=cp)
                    if any(all(must_pass_edge(hb, r, g) for r in rets) for g in gs):
                        out.append((bb, t["t"]))
    return out


def rule_r1(facts, col):
    """refusal dominates mutation of the ring positions"""
    for body in facts.bodies:
        if body.kind == "closure":
            continue
        ws = ring_writes(body)
        if not ws:
            continue
        guards = refusal_guards(body) + helper_refusal_guards(facts, body)
        for bb, fld, s in ws:
            key = "%s:%s" % (body.q, fld)
            good = [g for g in guards if must_pass_edge(body, bb, g)]
            if good:
                col.ok("C01.R1", key, body.where(bb), "write of %s only behind count<=available guard at %s" % (fld, body.where(good[0][0])))
            else:
                col.bad("C01.R1", key, "%s:%d" % (s["sp"]["f"], s["sp"]["l"]),
                        "BufferState.%s is updated without a dominating (non-debug) comparison of the requested count with the "
                        "fill level: an oversize commit/consume corrupts the ring instead of being refused" % fld, {})


def rule_r4(facts, col, rule_id="C01.R4"):
    """each ring position belongs to one side: the consume body never writes wpos, the commit body never rpos"""
    for body in facts.bodies:
        if body.kind == "closure":
            continue
        ws = ring_writes(body)
        if not ws:
            continue
        fields = {f for _, f, _ in ws}
        key = "%s:{%s}" % (body.q, ",".join(sorted(fields)))
        if "rpos" in fields and "wpos" in fields:
            bb = [b for b, f, _ in ws if f in ("wpos", "rpos")][0]
            col.bad(rule_id, key, body.where(bb),
                    "one function updates both the read position and the write position: windows are position snapshots "
                    "taken earlier by the other side (a BufferWriter remembers wpos), so moving the other side's position "
                    "makes an already acquired window commit/consume at the wrong place (stale or skipped samples)", {})
        else:
            col.ok(rule_id, key, body.where(ws[0][0]), "writes only its own side's position (+ the fill counter)")


def rule_r2(facts, col, rule_id="C01.R2"):
    """the Buffer constructor rejects an element size that does not divide the buffer"""
    for body in facts.bodies:
        aggbbs = []
        for b2, blk in enumerate(body.blocks):
            for s in blk["stmts"]:
                if s["k"] == "assign" and s["rv"]["k"] == "agg" and s["rv"].get("adt") == BUFFER_ADT:
                    aggbbs.append(b2)
        if not aggbbs:
            continue
        key = body.q
        gates = []
        for s in sorted(body.reachable(0)):
            t = body.term(s)
            if t["k"] != "switch":
                continue
            if from_debug_assert(t.get("sp")):
                continue
            e = switch_discr_expr(body, s)
            hit = False
            for x in walk(e):
                # the dividend is the size parameter ITSELF (the length of one copy of the ring): a quantity merely derived
                # from it - e.g. the length of the doubled mapping - admits element sizes that straddle the wrap point
                # ... and the divisor is the element SIZE: `size % align_of::<T>()` lets a 12-byte element with 4-byte alignment
                # through, and the ring then wraps in the middle of an element
                def _is_size(d):
                    pd = peel(d, through_try=False)
                    if pd.k == "call" and (pd.q or "").split("::")[-1] in ("align_of", "align_of_val", "min_align_of"):
                        return False
                    return True
                if x.k == "bin" and x.op == "Rem" and peel(x.a, through_try=False).k == "param" and _is_size(x.b):
                    hit = True
                if x.k == "call" and (x.q or "").endswith("is_multiple_of") and x.args and peel(x.args[0], through_try=False).k == "param" \
                        and len(x.args) > 1 and _is_size(x.args[1]):
                    hit = True
            if not hit:
                continue
            edges = switch_edges(body, s)
            blocked = [tgt for tgt, v in edges if not (set(aggbbs) & body.reachable(tgt))]
            if blocked:
                gates.append(s)
        good = [g for g in gates if all(body.dominates(g, a) for a in aggbbs)]
        if not good:
            # the test may live in a helper returning Result: `check_whole_elements(size, member_size)?` - the helper has the
            # gate on ITS parameter, the failing edge cannot reach an Ok return, the actual argument is this body's size
            # parameter, and the aggregate is only built behind the Ok edge of the call's result
            for cbb, t in body.calls():
                for q in Body.callee_qs(t):
                    for hb in facts.by_q.get(q, []):
                        if hb is body or hb.kind == "closure" or "Result" not in hb.locals[0]["ty"]:
                            continue
                        okrets = [b3 for b3, si, e in assigns_to_return(hb)
                                  if e.k == "agg" and e.adt == "std::result::Result" and e.variant == "Ok"]
                        if not okrets:
                            continue
                        for hs in sorted(hb.reachable(0)):
                            ht = hb.term(hs)
                            if ht["k"] != "switch" or from_debug_assert(ht.get("sp")):
                                continue
                            pidx = None
                            for x in walk(switch_discr_expr(hb, hs)):
                                if x.k == "bin" and x.op == "Rem" and peel(x.a, through_try=False).k == "param":
                                    pidx = peel(x.a, through_try=False).idx
                                if x.k == "call" and (x.q or "").endswith("is_multiple_of") and x.args and peel(x.args[0], through_try=False).k == "param":
                                    pidx = peel(x.args[0], through_try=False).idx
                            if pidx is None or pidx > len(t["args"]):
                                continue
                            if peel(body.operand_expr(t["args"][pidx - 1]), through_try=False).k != "param":
                                continue
                            hblocked = [tgt for tgt, v in switch_edges(hb, hs) if not (set(okrets) & hb.reachable(tgt))]
                            if not hblocked:
                                continue
                            # in the caller: the aggregate only behind the Continue/Ok edge of this call's result
                            for s2 in sorted(body.reachable(0)):
                                t2 = body.term(s2)
                                if t2["k"] != "switch":
                                    continue
                                d2 = switch_discr_expr(body, s2)
                                if not any(getattr(x, "bb", None) == cbb and x.k == "call" for x in walk(d2)):
                                    continue
                                blocked2 = [tgt for tgt, v in switch_edges(body, s2) if not (set(aggbbs) & body.reachable(tgt))]
                                if blocked2 and all(body.dominates(s2, a) for a in aggbbs):
                                    good.append(s2)
        if good:
            col.ok(rule_id, key, body.where(good[0]), "Buffer{..} only built behind a (size % element size) test")
        else:
            col.bad(rule_id, key, body.where(aggbbs[0]),
                    "Buffer<T> is constructed without checking that size_of::<T>() divides the buffer size (only a "
                    "debug_assert in full_buffer): with e.g. a 3-byte element a sample straddles the wrap point and "
                    "release builds deliver corrupted samples", {})


def rule_r3(facts, col):
    """the raw slice is never longer than the mapping, and only safe indexing hands out parts of it"""
    sites = list(facts.callers_of(RAW))
    for body, bb, t in sites:
        key = "%s:%s" % (body.q, t["f"]["name"])
        if body.self_adt != CIRC_ADT:
            col.bad("C01.R3", key, body.where(bb), "raw slice construction outside circular_buffer::Circ", {})
            continue
        ln = peel(body.operand_expr(t["args"][1]), through_try=False)
        ok_len = False
        if ln.k == "bin" and ln.op == "Div":
            a = peel(ln.a, through_try=False)
            if a.k == "field" and a.name == "len" and a.owner == CIRC_ADT:
                ok_len = True
        base = peel(body.operand_expr(t["args"][0]))
        ok_base = any(x.k == "field" and x.name == "base" for x in walk(base))
        # returned value: safe indexing of the raw slice
        ret_ok = True
        why = ""
        for rb, si, e in assigns_to_return(body):
            p = peel(e, through_try=False)
            if p.k == "call" and p.q in ("std::ops::IndexMut::index_mut", "std::ops::Index::index"):
                continue
            if p.k == "index":
                continue
            ret_ok = False
            why = show(p)[:80]
        if not ok_len:
            col.bad("C01.R3", key, body.where(bb), "raw slice length is not self.len / size_of::<T>() (the mapped byte count)", {"len": show(ln)})
        elif not ok_base:
            col.bad("C01.R3", key, body.where(bb), "raw slice base is not the mapping base", {})
        elif not ret_ok:
            col.bad("C01.R3", key, body.where(bb),
                    "the window is not produced by bounds-checked indexing of the raw slice (%s): an out-of-range window "
                    "reads/writes outside the mapping" % why, {})
        else:
            col.ok("C01.R3", key, body.where(bb), "from_raw_parts(base, self.len/size_of<T>) then checked range indexing")
    # Circ.len is initialised from the mapped byte count
    for body in facts.bodies:
        for b2, blk in enumerate(body.blocks):
            for s in blk["stmts"]:
                if s["k"] == "assign" and s["rv"]["k"] == "agg" and s["rv"].get("adt") == CIRC_ADT:
                    e = body.rvalue_expr(s["rv"])
                    fields = s["rv"]["fields"]
                    li = fields.index("len") if "len" in fields else None
                    from .c18 import mapping_calls
                    maps = [t for bb, t in mapping_calls(body)[0]]
                    key = "%s:Circ.len" % body.q
                    if li is None or not maps:
                        col.silent("C01.R3", key, body.where(b2), "shape not recognised")
                        continue
                    from .c18 import same_expr
                    if same_expr(e.args[li], body.operand_expr(maps[0]["args"][1])):
                        col.ok("C01.R3", key, body.where(b2), "Circ.len == byte count passed to the first mmap")
                    else:
                        col.bad("C01.R3", key, body.where(b2), "Circ.len differs from the byte count that was mapped", {})


def _is_capacity(e):
    p = peel(e, through_try=False)
    return p is not None and p.k == "call" and (p.q or "").endswith("BufferState::capacity")


def rule_r6(facts, col, rule_id="C01.R6"):
    """a stored ring position is < capacity: it is `x % capacity()`, the constant 0, or - for the compare-and-subtract form -
    the un-subtracted value reaches the store only behind an edge establishing `value < capacity()`"""
    for body in facts.bodies:
        if body.kind == "closure":
            continue
        for bb, fld, st in ring_writes(body):
            if fld not in ("rpos", "wpos"):
                continue
            key = "%s:%s<capacity" % (body.q, fld)
            e = rw_rv_expr(body, st)
            p = peel(expand_local_call(facts, e), through_try=False)
            if p.k == "bin" and p.op == "Rem" and _is_capacity(p.b):
                col.ok(rule_id, key, body.where(bb), "stored as (..) % capacity()")
                continue
            if p.k == "const" and p.v == 0:
                col.ok(rule_id, key, body.where(bb), "stored as 0")
                continue
            if p.k != "multi":
                col.silent(rule_id, key, body.where(bb), "form of the stored position not recognised")
                continue
            L = p.local
            defs = body.defs().get(L, [])
            defblocks = {d[0] for d in defs}
            good_edges = set()
            any_cmp = False
            for edge, f in edge_facts(body):
                if f[0] in ("Lt", "Le", "Gt", "Ge"):
                    a_, b_ = f[1], f[2]
                    la = peel(a_, through_try=False)
                    lb = peel(b_, through_try=False)
                    if la is not None and la.k == "multi" and la.local == L and _is_capacity(b_):
                        any_cmp = True
                        if f[0] == "Lt":
                            good_edges.add(edge)
                    if lb is not None and lb.k == "multi" and lb.local == L and _is_capacity(a_):
                        any_cmp = True
                        if f[0] == "Gt":
                            good_edges.add(edge)
            if not any_cmp:
                col.silent(rule_id, key, body.where(bb), "no comparison of the position with capacity() found")
                continue
            probs = []
            for dbb, si, kind, payload in defs:
                if kind != "rv":
                    continue
                ev = peel(body.rvalue_expr(payload), through_try=False)
                reduced = ev.k == "bin" and ((ev.op == "Rem" and _is_capacity(ev.b)) or (ev.op == "Sub" and _is_capacity(ev.b))) or \
                    (ev.k == "const" and ev.v == 0)
                if reduced:
                    continue
                r = body.reachable(dbb, avoid=defblocks - {dbb}, edge_filter=lambda a_, b_: (a_, b_) not in good_edges)
                if bb in r:
                    probs.append(body.where(dbb))
            if probs:
                col.bad(rule_id, key, body.where(bb),
                        "the un-wrapped value computed at %s can reach the store into BufferState.%s without passing an edge that "
                        "establishes value < capacity() (the comparison admits value == capacity()): a %s that ends exactly on the ring "
                        "end leaves the position at capacity instead of 0; windows then start one lap off and code that relies on "
                        "position < capacity (tag lookup, range arithmetic) misbehaves or panics" % (
                            probs[0], fld, "consume" if fld == "rpos" else "commit"), {})
            else:
                col.ok(rule_id, key, body.where(bb), "compare-and-subtract wrap: un-subtracted value only behind value < capacity()")


WINDOW_ADTS = ("circular_buffer::BufferReader", "circular_buffer::BufferWriter")


def _last_field(e):
    e = peel(e, through_try=False)
    n = 0
    while e is not None and e.k in ("ref", "deref") and n < 4:
        e = peel(e.a, through_try=False)
        n += 1
    return e.name if e is not None and e.k == "field" else None


def rule_r8(facts, col):
    """the window API is faithful: BufferReader::consume(n) / BufferWriter::produce(n, tags) hand exactly their arguments to the
    ring's consume / commit on every path (a window that swallows the call delivers the same samples again, or never);
    len() is `end - start` and is_empty() is `end == start` (or `len() == 0`) of the window's own bounds"""
    for body in facts.bodies:
        if body.self_adt not in WINDOW_ADTS or body.kind == "closure":
            continue
        if body.name in ("consume", "produce"):
            role = "consume" if body.name == "consume" else "produce"
            key = "%s:forwards" % body.q
            fw = []
            for bb, t in body.calls():
                for q in Body.callee_qs(t):
                    for hb in facts.by_q.get(q, []):
                        if hb.self_adt == BUFFER_ADT and hb.kind != "closure" and (hb.name == role or hb.name.startswith(role)):
                            args = [peel(body.operand_expr(a), through_try=False) for a in t["args"][1:]]
                            want = list(range(2, 2 + len(args)))
                            if [a.idx if a.k == "param" else None for a in args] == want[:len(args)] and len(args) >= (1 if role == "consume" else 2):
                                fw.append(bb)
            rets = set(body.return_blocks())
            if fw and not (body.reachable(0, avoid=set(fw)) & rets) or (fw and 0 in fw):
                col.ok("C01.R8", key, body.where(fw[0]), "hands (n%s) to Buffer::%s on every path" % (", tags" if role == "produce" else "", role))
            else:
                col.bad("C01.R8", key, body.where(),
                        "%s::%s can return without handing its arguments to Buffer::%s: the ring never learns about the %s, so the same "
                        "samples are delivered again (or committed samples never become readable)" % (body.self_adt.split("::")[-1], role, role,
                                                                                                      "release" if role == "consume" else "commit"), {})
        elif body.name in ("len", "is_empty") and body.argc == 1:
            key = "%s:bounds" % body.q
            rets = [peel(expand_local_call(facts, e), through_try=False) for _, _, e in assigns_to_return(body)]
            ok = bool(rets)
            for r in rets:
                if body.name == "len":
                    good = r.k == "bin" and r.op == "Sub" and _last_field(r.a) == "end" and _last_field(r.b) == "start"
                else:
                    good = r.k == "bin" and r.op == "Eq" and {_last_field(r.a), _last_field(r.b)} == {"end", "start"}
                    if not good and r.k == "bin" and r.op == "Eq":
                        # len() == 0
                        for x, y in ((r.a, r.b), (r.b, r.a)):
                            px = peel(expand_local_call(facts, x), through_try=False)
                            if is_const(y, 0) and px.k == "bin" and px.op == "Sub" and _last_field(px.a) == "end" and _last_field(px.b) == "start":
                                good = True
                ok = ok and good
            if ok:
                col.ok("C01.R8", key, body.where(), "%s() is %s of the window's own bounds" % (body.name, "end - start" if body.name == "len" else "end == start"))
            else:
                col.bad("C01.R8", key, body.where(),
                        "%s::%s() is not %s of the window's bounds: every block sizes its work and its waits by this value" % (
                            body.self_adt.split("::")[-1], body.name, "`end - start`" if body.name == "len" else "`end == start`"), {})


def run(ctx):
    facts = ctx.facts("default")
    from . import c18, c19 as _c19
    # both halves of the double mapping show the SAME memory only if both are MAP_SHARED (seed s10-c01: a private mirror half
    # detaches on the first store through it) - same rule as C18.R6
    c18.rule_r6(facts, _c19._Retag(ctx, "C18.R6", "C01.R9"))
    ctx.floor("C01.R9", 1, "mmap flag sets of Map::with_addr (same rule as C18.R6)")
    ctx.anchor("C01", STATE_ADT in facts.adts and BUFFER_ADT in facts.adts, "circular_buffer::{BufferState,Buffer}")
    rule_r1(facts, ctx)
    rule_r2(facts, ctx)
    rule_r3(facts, ctx)
    rule_r4(facts, ctx)
    rule_r8(facts, ctx)
    ctx.floor("C01.R8", 6, "consume/produce forwarding + len()/is_empty() of both window types")
    rule_r6(facts, ctx)
    ctx.floor("C01.R6", 2, "stores of rpos (consume) and wpos (produce)")
    ctx.floor("C01.R4", 2, "consume and produce bodies")
    from . import c03
    c03.rule_r9(facts, ctx, rule_id="C01.R5")
    from . import c19
    # a window writer/reader that reaches the ring outside its window (`self.parent.slice_mut(start, start + src.len())`) can
    # overwrite committed, unread samples: the who-may-call rule of C03 is a necessary condition here too
    c03.rule_r1(facts, c19._Retag(ctx, "C03.R1", "C01.R7"))
    ctx.floor("C01.R7", 8, "callers of the raw-memory / window-constructor primitives (same rule as C03.R1)")
    ctx.floor("C01.R5", 4, "position/fill-level updates computed from values read under the same lock acquisition")
    ctx.floor("C01.R1", 4, "writes of rpos/used in consume and wpos/used in produce")
    ctx.floor("C01.R2", 1, "Buffer constructor")
    ctx.floor("C01.R3", 2, "from_raw_parts_mut in Circ::full_buffer + Circ.len initialisation")
    ctx.explain("C01 (structural part only): every write of the ring positions is dominated by the ok-edge of a real "
                "(non debug_assert) comparison of the requested count with the fill level (oversize commit/consume is "
                "refused before any state is written); the Buffer constructor gates construction on size % element size; "
                "the only raw slice is (mapping base, mapped bytes / element size) and windows come from checked range "
                "indexing. Data identity, order and the modular arithmetic itself are NOT decided.")
    ctx.assume("the doubled mapping aliases (C18)")
