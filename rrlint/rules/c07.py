"""C07 — runners stop on cancellation and report block failures as errors."""
from ..common import *
from ..mir import peel, walk, show
from ..runners import *

UNWRAPPISH = {"unwrap", "expect", "unwrap_or", "unwrap_or_else", "unwrap_or_default", "unwrap_unchecked", "ok",
              "unwrap_err", "expect_err", "is_ok", "is_err", "is_ok_and", "is_err_and", "iter", "into_iter",
              "unwrap_or_else"}
# is_ok/is_err are predicates: they are fine when the value is *also* propagated; only the consuming
# ones below are violations by themselves.
CONSUMING = {"unwrap", "expect", "unwrap_or", "unwrap_or_else", "unwrap_or_default", "unwrap_unchecked", "ok",
             "unwrap_err", "expect_err"}


def is_block_error_result_ty(ty):
    ty = ty.strip()
    return ty.startswith("std::result::Result<") and ty.endswith(", Error>")


def rule_r1(facts, col, bodies=None):
    """C07.R1 a block error is never unwrapped/discarded in runner code."""
    for body in (bodies if bodies is not None else runner_bodies(facts)):
        for bb, t in body.calls():
            f = t["f"]
            if f.get("self_adt") != "std::result::Result" or f.get("name") not in CONSUMING:
                continue
            subs = f.get("substs") or []
            if len(subs) < 2:
                continue
            key = "%s:%s<%s>" % (body.q, f["name"], subs[1])
            if subs[1] == "Error":
                col.bad("C07.R1", key, body.where(bb),
                        "Result<_, rustradio::Error>::%s in a runner: a failing block makes run() panic / lose the "
                        "error instead of returning it" % f["name"], {"function": body.q, "T": subs[0]})
            else:
                col.ok("C07.R1", key, body.where(bb), "E = %s is not the block error type" % subs[1])


def error_sources(body):
    """Calls in a runner body whose destination has type Result<_, Error> (work() and joined thread results)."""
    out = []
    for bb, t in body.calls():
        d = t["dst"]
        if d["p"]:
            continue
        ty = body.locals[d["l"]]["ty"]
        if is_block_error_result_ty(ty):
            q = t["f"].get("q") or ""
            # constructing our own result / residual conversion is not a source
            if q.endswith("from_residual") or q.endswith("Try::branch"):
                continue
            out.append((bb, t, d["l"]))
    return out


def _mut_borrowed_locals(body, t):
    """locals passed to the call as `&mut local` (the temporary holding the borrow is defined by a `&mut` ref rvalue)"""
    out = []
    for a in t["args"]:
        p = a.get("c") or a.get("m")
        if p is None or p["p"]:
            continue
        for dbb, si, kind, payload in body.defs().get(p["l"], []):
            if kind == "rv" and payload["k"] == "ref" and payload.get("mut") and not payload["p"]["p"]:
                out.append(payload["p"]["l"])
    return out


def flows_to_return(body, src_local):
    """Flow-insensitive forward taint from src_local; True if _0 gets tainted through moves, aggregates,
    downcasts and calls whose destination type mentions the Error type."""
    tainted = {src_local}
    changed = True

    def op_t(op):
        p = op.get("c") or op.get("m")
        return p is not None and p["l"] in tainted

    while changed:
        changed = False
        for blk in body.blocks:
            for s in blk["stmts"]:
                if s["k"] != "assign":
                    continue
                rv = s["rv"]
                src = False
                if rv["k"] in ("use", "cast"):
                    src = op_t(rv["a"])
                elif rv["k"] == "agg":
                    src = any(op_t(o) for o in rv["ops"])
                elif rv["k"] in ("ref",):
                    src = rv["p"]["l"] in tainted
                if src and s["dst"]["l"] not in tainted:
                    tainted.add(s["dst"]["l"])
                    changed = True
            t = blk["term"]
            if t["k"] == "call" and any(op_t(a) for a in t["args"]):
                d = t["dst"]["l"]
                dty = body.locals[d]
                name = t["f"].get("name")
                if name in CONSUMING:
                    continue
                for l2 in _mut_borrowed_locals(body, t):
                    if l2 not in tainted and "Error" in body.locals[l2]["adts"]:
                        tainted.add(l2)       # `slot.get_or_insert(e)`, `vec.push(e)`: the error is stored through &mut
                        changed = True
                if ("Error" in dty["adts"]) and d not in tainted:
                    tainted.add(d)
                    changed = True
    return 0 in tainted


def _tainted_locals(body, src_local):
    tainted = {src_local}
    changed = True

    def op_t(op):
        p = op.get("c") or op.get("m")
        return p is not None and p["l"] in tainted

    while changed:
        changed = False
        for blk in body.blocks:
            for s in blk["stmts"]:
                if s["k"] != "assign":
                    continue
                rv = s["rv"]
                src = False
                if rv["k"] in ("use", "cast"):
                    src = op_t(rv["a"])
                elif rv["k"] == "agg":
                    src = any(op_t(o) for o in rv["ops"])
                elif rv["k"] == "ref":
                    src = rv["p"]["l"] in tainted
                if src and s["dst"]["l"] not in tainted and s["dst"]["l"] != 0:
                    tainted.add(s["dst"]["l"])
                    changed = True
            t = blk["term"]
            if t["k"] == "call" and any(op_t(a) for a in t["args"]):
                d = t["dst"]["l"]
                if t["f"].get("name") in CONSUMING:
                    continue
                for l2 in _mut_borrowed_locals(body, t):
                    if l2 not in tainted and l2 != 0 and "Error" in body.locals[l2]["adts"]:
                        tainted.add(l2)
                        changed = True
                if "Error" in body.locals[d]["adts"] and d not in tainted and d != 0:
                    tainted.add(d)
                    changed = True
    return tainted


def ret_not_error_paths(body, start, src_local):
    """Explore all paths from `start` to return, tracking the last definition of _0; return
    (block, description) of a path whose returned value is not derived from the error, else None."""
    tainted = _tainted_locals(body, src_local)

    def def_is_error(bb, si, kind, payload):
        if kind == "call":
            return any((a.get("c") or a.get("m") or {}).get("l") in tainted for a in payload["args"])
        rv = payload
        if rv["k"] == "agg":
            return rv.get("variant") == "Err" or any((o.get("c") or o.get("m") or {}).get("l") in tainted for o in rv["ops"])
        if rv["k"] in ("use", "cast"):
            return (rv["a"].get("c") or rv["a"].get("m") or {}).get("l") in tainted
        return False

    ret_defs = {}
    for bb, si, kind, payload in body.defs().get(0, []):
        ret_defs.setdefault(bb, []).append((bb, si, kind, payload))
    # only edges that are feasible for the values known on the way (an error wrapped by a helper's `?` and unwrapped by the
    # caller's `?` takes the Break edge there): explicit-state search over bool / enum / Result-of-enum locals
    _, feas = flag_search(body, [start])
    seen = set()
    stack = [(start, None)]
    while stack:
        bb, last = stack.pop()
        if bb in ret_defs:
            last = ret_defs[bb][-1]
        k = (bb, id(last))
        if k in seen:
            continue
        seen.add(k)
        if body.term(bb)["k"] == "return":
            if last is None:
                return (bb, "value decided before the error was seen")
            if not def_is_error(*last):
                d = last[3]
                desc = d.get("variant") or d.get("k")
                return (last[0], "returns %s" % desc)
            continue
        for s2 in body.succ[bb]:
            if feas is not None and (bb, s2) not in feas:
                continue
            stack.append((s2, last))
    return None


def rule_r2(facts, col, bodies=None):
    """C07.R2 the Err of every block-error source reaches the function's return value; for work()
    additionally no path from the Err edge back to another work() call."""
    for body in (bodies if bodies is not None else runner_bodies(facts)):
        sites = {ws.wbb: ws for ws in work_sites(facts, body)}
        wblocks = set(sites)
        for bb, t, l in error_sources(body):
            q = t["f"].get("q") or "<indirect>"
            key = "%s:%s" % (body.q, q.split("::")[-1])
            if not flows_to_return(body, l):
                col.bad("C07.R2", key, body.where(bb),
                        "the Err of %s never flows into the return value of %s: a block failure is swallowed "
                        "(run() reports success or panics)" % (q, body.q), {"function": body.q})
                continue
            if bb in sites:
                ws = sites[bb]
                if not ws.complete():
                    col.bad("C07.R2", key, body.where(bb), "result of work() is not branched on (Ok/Err)", {})
                    continue
                err_t = ws.err_edge[1]
                r = body.reachable(err_t)
                if r & wblocks:
                    # value-sensitive second look (the error may travel through a helper's Result and a second `?`)
                    r2, _ = flag_search(body, [err_t])
                    r = set(r2)
                if r & wblocks:
                    col.bad("C07.R2", key, body.where(bb),
                            "after work() returned Err the runner can call work() again (error arm does not leave the loop)",
                            {"err_arm": err_t})
                    continue
                rets = [x for x in r if body.term(x)["k"] == "return"]
                if not rets:
                    col.bad("C07.R2", key, body.where(bb), "Err arm never returns", {})
                    continue
                # path-sensitive: on EVERY path from the Err arm to return, the last value given to _0 is the error
                badret = ret_not_error_paths(body, err_t, l)
                if badret:
                    col.bad("C07.R2", key, body.where(badret[0]),
                            "a path from the Err arm of work() reaches `return` with a value that is not the error (%s): "
                            "under that condition a block failure is reported as success" % badret[1], {"err_arm": err_t})
                    continue
            col.ok("C07.R2", key, body.where(bb), "Err payload flows into the returned value; Err arm leaves the loop")


def rule_r3(facts, col, bodies=None):
    """C07.R3 every cycle through a work() call polls the cancel flag (and the poll can leave), unless it is
    driven by a finite iterator."""
    for body in (bodies if bodies is not None else runner_bodies(facts)):
        for ws in work_sites(facts, body):
            key = "%s:work" % body.q
            polls = []
            for cbb, sbb, ttgt in cancel_polls(body):
                # the true edge must reach Return without another work() call
                r = body.reachable(ttgt)
                if ws.wbb in r:
                    continue
                if not any(body.term(x)["k"] == "return" for x in r):
                    continue
                polls.append(cbb)   # the *read* of the flag must be on the cycle, not just a test of a stale copy
            comp0 = scc_of(body, ws.wbb, removed=set(polls))
            fin = []
            if comp0 is not None:
                for nb in finite_next_blocks(body):
                    if nb not in comp0:
                        continue
                    # a finite iterator bounds a cycle only if it is created outside of that cycle
                    e = body.operand_expr(body.term(nb)["args"][0])
                    creators = {x.bb for x in walk(e) if x.k == "call" and x.bb is not None}
                    if not (creators & comp0):
                        fin.append(nb)
            comp = scc_of(body, ws.wbb, removed=set(polls) | set(fin)) if comp0 is not None else None
            if comp is None:
                col.ok("C07.R3", key, body.where(ws.wbb),
                       "every cycle through work() passes a cancel poll whose true edge returns (polls at bb%s) or a "
                       "finite-iterator step" % polls)
            else:
                comp2 = scc_of(body, ws.wbb, removed=set(polls))
                col.bad("C07.R3", key, body.where(ws.wbb),
                        "an unbounded cycle through work() does not poll the cancellation token%s: once cancelled the "
                        "runner keeps invoking blocks" % ("" if comp2 is None else " (not even counting finite iterator loops)"),
                        {"cycle_blocks": sorted(comp)[:40], "polls": polls})


def rule_r4(facts, col, bodies=None):
    """C07.R4 / C05.R3 every spawned thread is joined on every return path."""
    SPAWN = {"std::thread::Builder::spawn", "std::thread::spawn", "std::thread::Builder::spawn_scoped"}
    JOIN = "std::thread::JoinHandle::join"
    for body in (bodies if bodies is not None else runner_bodies(facts)):
        spawns = [bb for bb, t in body.calls_to(SPAWN)]
        if not spawns:
            continue
        key = "%s:join" % body.q
        joins = [bb for bb, t in body.calls_to(JOIN)]
        if not joins:
            # the join loop may have been extracted into a method of the runner: every path from a spawn to return must
            # pass a call to it, and the loop is judged inside it
            helpers = [hb for hb in adt_helpers(facts, body) if list(hb.calls_to(JOIN))]
            hcalls = [bb for bb, t in body.calls() if any(q in {h.q for h in helpers} for q in Body.callee_qs(t))]
            if helpers and hcalls:
                bypass = False
                for sp in spawns:
                    r = body.reachable(sp, avoid=set(hcalls))
                    if any(body.term(x)["k"] == "return" for x in r):
                        bypass = True
                if bypass:
                    col.bad("C07.R4", key, body.where(spawns[0]), "a path from spawn to return bypasses the call that joins the threads", {})
                    continue
                rule_r4_loops(col, helpers[0], key, spawns_in_body=False)
                continue
            col.bad("C07.R4", key, body.where(spawns[0]), "threads are spawned but never joined", {})
            continue
        rule_r4_loops(col, body, key, spawns=spawns)


def rule_r4_loops(col, body, key, spawns=(), spawns_in_body=True):
    JOIN = "std::thread::JoinHandle::join"
    if True:
        joins = [bb for bb, t in body.calls_to(JOIN)]
        problems = []
        for jbb in joins:
            comp = scc_of(body, jbb)
            if comp is None:
                problems.append("join() is not in a loop over the handles")
                continue
            from ..runners import finite_pop_blocks
            nexts = [b for b in finite_next_blocks(body) if b in comp] + finite_pop_blocks(body, comp)
            exits = loop_exits(body, comp)
            for (u, v) in exits:
                # allowed: the None edge of the iterator (or of `pop()` on a Vec nothing is added to in the loop)
                ok = False
                tu = body.term(u)
                if tu["k"] == "switch":
                    e = switch_discr_expr(body, u)
                    if e.k == "discr":
                        x = peel(e.a, through_try=False)
                        if x.k == "call" and x.bb in nexts:
                            if variant_target(body, u, 0, 2) == v:
                                ok = True
                if not ok:
                    problems.append("the join loop can be left early at %s (not iterator exhaustion): remaining "
                                    "threads are not joined" % body.where(u))
            # every path from a spawn to Return passes the join loop header
            for sp in spawns:
                r = body.reachable(sp, avoid=comp)
                if any(body.term(x)["k"] == "return" for x in r):
                    problems.append("a path from spawn to return bypasses the join loop")
        if problems:
            col.bad("C07.R4", key, body.where(joins[0]), "; ".join(sorted(set(problems))), {})
        else:
            col.ok("C07.R4", key, body.where(joins[0]), "join loop over all handles, left only on exhaustion, on every path to return")


TOKEN_ADT = "graph::CancellationToken"
ATOMIC_WRITERS = {"store", "swap", "fetch_and", "fetch_or", "fetch_xor", "fetch_nand", "compare_exchange", "compare_exchange_weak",
                  "fetch_update", "get_mut", "into_inner", "as_ptr", "from_ptr"}


def rule_r5(facts, col):
    """the cancel flag is monotone: the only writes of CancellationToken's flag store `true` (a cancellation, once requested,
    cannot be erased - not by a runner 'resetting' the token on entry either)"""
    n = 0
    for body in facts.bodies:
        for bb, t in body.calls():
            f = t["f"]
            name = f.get("name")
            q = f.get("q") or ""
            if name not in ATOMIC_WRITERS or "atomic::Atomic" not in q or not t["args"]:
                continue
            e = body.operand_expr(t["args"][0])
            if not any(x.k == "field" and x.owner == TOKEN_ADT for x in walk(e)):
                continue
            n += 1
            key = "%s:%s" % (body.q, name)
            val = peel(body.operand_expr(t["args"][1]), through_try=False) if len(t["args"]) > 1 else None
            if name in ("store", "swap", "fetch_or") and val is not None and val.k == "const" and val.v is True:
                col.ok("C07.R5", key, body.where(bb), "flag only ever set to true")
            else:
                col.bad("C07.R5", key, body.where(bb),
                        "the cancellation flag is written with something other than `true` (%s %s): a cancel() that happened before "
                        "this point is erased, and a graph with an endless source then never stops" % (
                            name, show(val)[:20] if val is not None else ""), {})
    # the flag is reachable only through the token's private field
    a = facts.adts.get(TOKEN_ADT)
    if a:
        for fld in a["variants"][0]["fields"]:
            if fld.get("vis", "").startswith("pub") and "Atomic" in fld["ty"]["s"]:
                col.bad("C07.R5", "%s.%s:pub" % (TOKEN_ADT, fld["name"]), "", "the flag field is public: anyone can reset it", {})


def _is_some_temp(body, op):
    q = op.get("c") or op.get("m")
    if q is None or q["p"]:
        return False
    d2 = body.defs().get(q["l"], [])
    return len(d2) == 1 and d2[0][2] == "rv" and d2[0][3]["k"] == "agg" and d2[0][3].get("variant") == "Some"


def from_logging_term(t):
    sp = t.get("sp") or {}
    return any(("log" in x or x.startswith(("debug!", "trace!", "info!", "warn!", "error!", "format_args!"))) for x in sp.get("x", []))


def _may_panic(facts, t, depth=0, owner_adt=None):
    """reason string if the call (or, one level down, the crate-local function it calls) contains an unwrap()/expect() of an
    Option/Result or an explicit panic"""
    f = t["f"]
    name = f.get("name")
    if name in ("unwrap", "expect") and f.get("self_adt") in ("std::option::Option", "std::result::Result"):
        return "%s() on %s" % (name, f["self_adt"].split("::")[-1])
    q = f.get("q") or ""
    if q.startswith(("std::rt::panic", "core::panicking", "std::panicking")):
        return "an explicit panic"
    if depth >= 2:
        return None
    for q2 in Body.callee_qs(t):
        for hb in facts.by_q.get(q2, []):
            if depth == 0 and not (hb.self_adt and hb.self_adt == owner_adt):
                continue      # only the runner's own methods (bookkeeping over its per-run state); free helpers such as
                              # get_cpu_time() fail only if a system call does
            for bb3, t3 in hb.calls():
                if from_logging_term(t3):
                    continue
                w = _may_panic(facts, t3, depth + 1, owner_adt)
                if w:
                    return "%s (which contains %s)" % (q2.split("::")[-1] + "()", w)
    return None


def _slot_state_search(body, slot, starts):
    """explicit-state search over (block, state of the Option local `slot` in {'N','S','?'}) - returns {block: set(states at its
    terminator)}.  Refines on `Option::is_none/is_some(&slot)` results and on discr(slot) switches; `slot = Some(..)`,
    get_or_insert/insert/replace/or with &mut slot -> S; `slot = None` / take() -> N; any other &mut borrow -> ?"""
    borrows = {}    # local holding &slot / &mut slot -> mut?
    for bb in body.reachable(0):
        for st in body.blocks[bb]["stmts"]:
            if st["k"] == "assign" and st["rv"]["k"] == "ref" and st["rv"]["p"]["l"] == slot and not st["rv"]["p"]["p"] and not st["dst"]["p"]:
                borrows[st["dst"]["l"]] = bool(st["rv"].get("mut"))
    aliases = {slot}
    for bb in body.reachable(0):
        for st in body.blocks[bb]["stmts"]:
            if st["k"] == "assign" and st["rv"]["k"] == "use" and not st["dst"]["p"]:
                q = st["rv"]["a"].get("c") or st["rv"]["a"].get("m")
                if q is not None and not q["p"] and q["l"] == slot and len(body.defs().get(st["dst"]["l"], [])) == 1:
                    aliases.add(st["dst"]["l"])
    seen = set()
    at_term = {}
    stack = list(starts)
    while stack:
        bb, stt = stack.pop()
        if (bb, stt) in seen or len(seen) > 20000:
            continue
        seen.add((bb, stt))
        cur = stt
        for st in body.blocks[bb]["stmts"]:
            if st["k"] != "assign":
                continue
            d = st["dst"]
            if d["l"] == slot and not d["p"]:
                rv = st["rv"]
                via_call = None
                if rv["k"] == "use":
                    q = rv["a"].get("c") or rv["a"].get("m")
                    if q is not None and not q["p"]:
                        d2 = body.defs().get(q["l"], [])
                        if len(d2) == 1 and d2[0][2] == "rv":
                            rv = d2[0][3]
                        elif len(d2) == 1:
                            via_call = body.term(d2[0][0])
                if via_call is not None and via_call["f"].get("name") in ("or", "or_else") and len(via_call["args"]) >= 2 and \
                        _is_some_temp(body, via_call["args"][1]):
                    cur = "S"       # `slot = slot.or(Some(e))`
                elif rv["k"] == "agg" and rv.get("adt") == "std::option::Option":
                    cur = "S" if rv.get("variant") == "Some" else "N"
                else:
                    cur = "?"
        t = body.term(bb)
        at_term.setdefault(bb, set()).add(cur)
        nxt = [(x, cur) for x in body.succ[bb]]
        if t["k"] == "call":
            name = t["f"].get("name")
            argl = [((a.get("c") or a.get("m")) or {}).get("l") for a in t["args"]]
            hit = [l for l in argl if l in borrows]
            if hit:
                mut = any(borrows[l] for l in hit)
                if name in ("get_or_insert", "get_or_insert_with", "insert", "replace") and mut:
                    cur = "S"
                elif name == "take" and mut:
                    cur = "N"
                elif name in ("is_none", "is_some", "as_ref", "as_deref"):
                    pass
                elif mut:
                    cur = "?"
            if not t["dst"]["p"] and t["dst"]["l"] == slot:
                cur = "?"
                if name in ("or", "or_else") and len(t["args"]) >= 2:
                    # `slot = slot.or(Some(e))`: Some whatever the slot held
                    q = t["args"][1].get("c") or t["args"][1].get("m")
                    if q is not None and not q["p"]:
                        d2 = body.defs().get(q["l"], [])
                        if len(d2) == 1 and d2[0][2] == "rv" and d2[0][3]["k"] == "agg" and d2[0][3].get("variant") == "Some":
                            cur = "S"
            nxt = [(x, cur) for x in body.succ[bb]]
            at_term[bb].add(cur)
            if name in ("is_none", "is_some") and hit and t.get("t") is not None:
                # result local -> refine at the switch that tests it
                res = t["dst"]["l"]
                tb = t["t"]
                tt = body.term(tb)
                if tt["k"] == "switch" and tt.get("dty") == "bool" and ((tt["d"].get("c") or tt["d"].get("m")) or {}).get("l") == res:
                    bt = bool_edge_targets(body, tb)
                    if bt:
                        yes, no = ("N", "S") if name == "is_none" else ("S", "N")
                        nxt = []
                        if cur in (yes, "?"):
                            nxt.append((bt[0], yes))
                        if cur in (no, "?"):
                            nxt.append((bt[1], no))
                        seen.add((tb, cur))
                        at_term.setdefault(tb, set()).add(cur)
        elif t["k"] == "switch":
            # raw MIR: `_d = discriminant(slot); switchInt(_d)` (the origin expression would show the slot's first value only)
            dl = ((t["d"].get("c") or t["d"].get("m")) or {}).get("l")
            on_slot = False
            for dbb, si, kind, payload in body.defs().get(dl, []) if dl is not None else []:
                if kind == "rv" and payload["k"] == "discr" and not payload["p"]["p"] and payload["p"]["l"] in aliases:
                    on_slot = True
            if on_slot:
                if True:
                    nxt = []
                    for tgt, v in switch_edges(body, bb):
                        if v == 0 or (v is None and False):
                            if cur in ("N", "?"):
                                nxt.append((tgt, "N"))
                        elif v == 1:
                            if cur in ("S", "?"):
                                nxt.append((tgt, "S"))
                        else:
                            # otherwise edge: whatever is not listed
                            listed = {vv for _, vv in switch_edges(body, bb) if vv is not None}
                            rest = [z for z in ("N", "S") if {"N": 0, "S": 1}[z] not in listed]
                            for z in rest:
                                if cur in (z, "?"):
                                    nxt.append((tgt, z))
        stack.extend(nxt)
    return at_term


def _with_helpers(facts, bodies):
    out = list(bodies)
    seen = {b.path for b in out}
    for b in list(bodies):
        if b.kind == "closure":
            continue
        for hb in adt_helpers(facts, b):
            if hb.path not in seen:
                seen.add(hb.path)
                out.append(hb)
    return out


def rule_r6(facts, col, bodies=None):
    """errors of joined block threads are kept: on the Err arm of a joined result the error either is returned at once or
    ends up in an Option slot that is Some when the arm is left (whatever the slot held before), and once the slot is Some the
    code after the loop returns it"""
    for body in _with_helpers(facts, bodies if bodies is not None else runner_bodies(facts)):
        wsites = {ws.wbb for ws in work_sites(facts, body)}
        for bb, t, l in error_sources(body):
            if bb in wsites:
                continue
            if (t["f"].get("q") or "") in {h.q for h in adt_helpers(facts, body)}:
                continue      # the call to the extracted helper itself: judged inside the helper, its `?` by R2
            key = "%s:%s:kept" % (body.q, (t["f"].get("q") or "?").split("::")[-1])
            # the Err arm of this result
            err_t = None
            sw = None
            for s_ in sorted(body.reachable(0)):
                tt = body.term(s_)
                if tt["k"] != "switch":
                    continue
                e = switch_discr_expr(body, s_)
                if e.k == "discr":
                    x = peel(e.a, through_try=False)
                    if x is not None and x.k == "call" and x.bb == bb:
                        sw, err_t = s_, variant_target(body, s_, 1, 2)
            if err_t is None:
                col.silent("C07.R6", key, body.where(bb), "result not matched directly")
                continue
            tainted = _tainted_locals(body, l)
            slots = [x for x in tainted if x != l and body.locals[x]["ty"].startswith("std::option::Option<") and "Error" in body.locals[x]["adts"]
                     and len(body.defs().get(x, [])) >= 1]
            if not slots:
                col.ok("C07.R6", key, body.where(bb), "no Option<Error> slot: the error is returned directly (judged by C07.R2)")
                continue
            # the named variable (`first_err`), not the `Some(e)` temporary that is moved into it
            slots.sort(key=lambda x: (body.var_name_of_local(x) is None, -len(body.defs().get(x, [])), x))
            slot = slots[0]
            comp = scc_of(body, bb)
            if comp is None:
                col.silent("C07.R6", key, body.where(bb), "join not in a loop")
                continue
            at = _slot_state_search(body, slot, [(err_t, "N"), (err_t, "S")])
            # blocks where the arm is left: back at the loop's iterator / result site or outside the loop
            from ..runners import finite_pop_blocks
            nexts = (set(finite_next_blocks(body)) & comp) | set(finite_pop_blocks(body, comp))
            leave = set()
            for b2 in at:
                if b2 not in comp:
                    continue
                for s2 in body.succ[b2]:
                    if s2 in nexts or s2 == bb or (s2 not in comp and body.term(s2)["k"] != "unreachable"):
                        leave.add(b2)
            bad = [b2 for b2 in leave if at[b2] - {"S"}]
            if bad:
                col.bad("C07.R6", key, body.where(bad[0]),
                        "a joined thread's Err can leave its match arm with the error slot still empty (or in an unknown state): that "
                        "failure is dropped and run() reports success although a block failed", {})
                continue
            # after the loop: slot == Some leads to a return carrying the error
            exits = [v for u in comp for v in body.succ[u] if v not in comp and body.term(v)["k"] != "unreachable"]
            at2 = _slot_state_search(body, slot, [(x, "S") for x in exits])
            okret = True
            for b2 in at2:
                if body.term(b2)["k"] == "return":
                    # last definition of _0 on the way must be error-derived: approximate with the block-local one
                    vals = [e for rb, si, e in assigns_to_return(body) if rb in at2]
                    if not any(e.k == "agg" and e.variant == "Err" for e in vals) or any(e.k == "agg" and e.variant == "Ok" for e in vals):
                        okret = False
            # ... and nothing that can panic runs between the loop and that return (the failure must be REPORTED, not turned into
            # a panic by bookkeeping that assumes a successful run)
            risky = None
            for b2 in sorted(at2):
                if at2[b2] - {"S"}:
                    continue
                t2 = body.term(b2)
                if t2["k"] != "call" or from_logging_term(t2):
                    continue
                why = _may_panic(facts, t2, 0, body.self_adt)
                if why:
                    risky = (b2, why)
                    break
            if okret and risky:
                col.bad("C07.R6", key, body.where(risky[0]),
                        "with a block failure recorded, run() executes %s before returning the error: when that panics (e.g. statistics "
                        "over the threads that finished Ok - none, if every block failed) the caller gets a panic instead of the block's "
                        "error" % risky[1], {})
                continue
            if okret:
                col.ok("C07.R6", key, body.where(bb), "error kept in slot _%d on every way out of the arm; a filled slot is returned" % slot)
            else:
                col.bad("C07.R6", key, body.where(bb), "with the error slot filled the code after the join loop can still return Ok", {})


def rule_r7(facts, col, bodies=None):
    """a failing block stops the others: on a block thread, every path from the Err of work() to the thread's return passes
    CancellationToken::cancel() (directly, or in the closure handed to `inspect_err` / `map_err` on the work result - itself or through a runner helper that always cancels) - the join loop waits
    for threads in turn, so a thread of an unrelated, endless part of the graph that is joined first is never told to stop
    unless the failing thread itself raises the flag"""
    from ..runners import thread_side_paths
    tsp = thread_side_paths(facts)
    n = 0
    for body in (bodies if bodies is not None else runner_bodies(facts)):
        if body.path not in tsp:
            continue
        for ws in work_sites(facts, body):
            key = "%s:work:err-cancels" % body.q
            n += 1
            if not ws.complete():
                col.silent("C07.R7", key, body.where(ws.wbb), "work() result not matched directly")
                continue
            cancels = {bb for bb, t in body.calls_to(CANCEL)}
            # ... or a small helper of the runner that cancels on every path (`abort_graph(&token, &err)`)
            for bb, t in body.calls():
                for q in Body.callee_qs(t):
                    for hb in facts.by_q.get(q, []):
                        if hb.kind == "closure" or hb.file not in ("src/mtgraph.rs", "src/graph.rs"):
                            continue
                        cc = {b2 for b2, t2 in hb.calls_to(CANCEL)}
                        if cc and (0 in cc or not (hb.reachable(0, avoid=cc) & set(hb.return_blocks()))):
                            cancels.add(bb)
            # inspect_err(|e| { ..; cancel_token.cancel(); }) on the work result: runs exactly on Err, before the `?`
            via_inspect = False
            for bb, t in body.calls():
                if (t["f"].get("q") or "").startswith("std::result::Result::") and t["f"].get("name") in ("inspect_err", "map_err") and len(t["args"]) == 2:
                    if ws._is_work_value(body.operand_expr(t["args"][0])):
                        for x in walk(body.operand_expr(t["args"][1])):
                            if x.k == "agg" and x.ak == "closure" and x.q:
                                cb = facts.by_path.get(x.q)
                                if cb is not None:
                                    cc = {b2 for b2, t2 in cb.calls_to(CANCEL)}
                                    # `|e| abort_graph(&token, e)`: a helper of the runner that cancels on every path
                                    for b2, t2 in cb.calls():
                                        for q2 in Body.callee_qs(t2):
                                            for hb in facts.by_q.get(q2, []):
                                                if hb.kind == "closure" or hb.file not in ("src/mtgraph.rs", "src/graph.rs"):
                                                    continue
                                                hc = {b3 for b3, t3 in hb.calls_to(CANCEL)}
                                                if hc and (0 in hc or not (hb.reachable(0, avoid=hc) & set(hb.return_blocks()))):
                                                    cc.add(b2)
                                    rets = set(cb.return_blocks())
                                    if cc and (0 in cc or not (cb.reachable(0, avoid=cc) & rets)):
                                        via_inspect = True
            err_t = ws.err_edge[1]
            r = body.reachable(err_t, avoid=cancels) if err_t not in cancels else set()
            leaks = [x for x in r if body.term(x)["k"] == "return"]
            if leaks and not via_inspect:
                col.bad("C07.R7", key, body.where(err_t),
                        "a block thread can return the Err of work() without cancelling the token: the other block threads keep "
                        "running, the join loop waits for them in turn, and with an endless part of the graph that is not connected "
                        "to the failed block run() never returns the error", {})
            else:
                col.ok("C07.R7", key, body.where(err_t), "the failing thread cancels the token before it returns the error")
    if n == 0:
        col.ok("C07.R7", "no-thread-side-work-site", "src/mtgraph.rs", "no work() call on a spawned thread")


def rule_r9(facts, col, rule_id="C07.R9"):
    """run() does not panic on its way out: the runners' own code (src/graph.rs, src/mtgraph.rs - run(), the statistics it
    formats before returning, their closures) contains no integer division / remainder and no `Duration / n` whose divisor is not
    established non-zero.  Counters such as 'work calls of this block' ARE zero when the token was cancelled before a thread's
    first call, so a per-call average computed there panics exactly in the cancellation case."""
    n = 0
    one = E("const", v=1, ty="usize")
    for body in facts.bodies:
        if body.file not in ("src/graph.rs", "src/mtgraph.rs"):
            continue
        n += 1
        sites = []
        for bb in sorted(body.reachable(0)):
            t = body.term(bb)
            if t["k"] == "assert" and t["msg"]["kind"] in ("DivisionByZero", "RemainderByZero"):
                ce = peel(body.operand_expr(t["cond"]), through_try=False)
                div = ce.a if (ce.k == "bin" and ce.op == "Eq") else None
                sites.append((bb, div, "integer division"))
            elif t["k"] == "call" and t["f"].get("name") in ("div", "div_f32", "div_f64", "rem", "div_assign") and t.get("argtys") \
                    and "Duration" in (t["argtys"][0] if t["argtys"] else "") and len(t["args"]) == 2:
                sites.append((bb, body.operand_expr(t["args"][1]), "Duration division"))
        for k_, (bb, div, what) in enumerate(sites):
            key = "%s:div#%d" % (body.q, k_)
            pd = peel(div, through_try=False) if div is not None else None
            while pd is not None and pd.k == "cast" and pd.a is not None:
                pd = peel(pd.a, through_try=False)
            if pd is not None and pd.k == "const" and isinstance(pd.v, (int, float)) and pd.v != 0:
                col.ok(rule_id, key, body.where(bb), "constant non-zero divisor")
            elif pd is not None and known_ge(body, bb, pd, one):
                col.ok(rule_id, key, body.where(bb), "divisor established non-zero")
            else:
                col.bad(rule_id, key, body.where(bb),
                        "%s in runner code by a value not established non-zero (%s): a count that is still 0 - a block thread "
                        "that saw the cancelled token before its first work() call - makes run() panic instead of returning"
                        % (what, show(pd)[:50] if pd is not None else "?"), {})
    if n:
        col.ok(rule_id, "scanned", "src/mtgraph.rs", "%d runner bodies scanned for panicking divisions" % n)


GROW_ASSIGN = ("mul_assign", "add_assign", "shl_assign")
GROW_OPS = ("Mul", "Add", "Shl", "MulWithOverflow", "AddWithOverflow")
GROW_CALLS = ("::mul", "::add", "::shl", "::saturating_mul", "::saturating_add", "::checked_mul", "::checked_add", "::mul_f32", "::mul_f64", "::pow")
CLAMP_CALLS = ("::min", "::clamp")


def rule_r10(facts, col, bodies=None, rule_id="C07.R10"):
    """the runner's own sleeps are bounded: a worker only looks at the cancel flag between two sleeps / work() calls and
    `thread::sleep` cannot be interrupted, so the longest sleep is the time a cancellation (or another block's failure) can go
    unnoticed.  Decided on the shape: the duration handed to `thread::sleep` in a runner body is not a loop-carried variable
    that grows (`d *= 2`, `d = d * 2`, `d += step`) without a clamp (`min` / `clamp`) on the same variable.  A constant, a
    single-assignment value, or a grown-and-clamped variable is accepted; other shapes are not decided."""
    bodies = runner_bodies(facts) if bodies is None else bodies
    n = 0
    for b in bodies:
        idx = 0
        for bb, t in b.calls_to(lambda q: q.endswith("thread::sleep")):
            if not t["args"]:
                continue
            key = "%s:sleep#%d" % (b.q, idx)
            idx += 1
            n += 1
            e = b.operand_expr(t["args"][0])
            locs = set()
            opaque = []

            def collect(x, depth=0):
                # the duration itself or arithmetic over it; a clamp ends the search, any other call (a helper that computes the
                # duration from a counter, say) is opaque: what it does with a growing argument is not decided here
                x = peel(x)
                if x is None or depth > 12:
                    return
                if x.k in ("multi", "local") and getattr(x, "local", None) is not None:
                    locs.add(x.local)
                elif x.k == "bin":
                    collect(x.a, depth + 1)
                    collect(x.b, depth + 1)
                elif x.k == "call":
                    q = x.q or ""
                    if any(q.endswith(g) for g in CLAMP_CALLS):
                        return
                    if any(q.endswith(g) for g in GROW_CALLS):
                        for a in x.args or []:
                            collect(a, depth + 1)
                    elif not (q.startswith("std::time::Duration::from_") or q.startswith("core::time::Duration::from_")):
                        opaque.append(q)
            collect(e)
            grow, clamp = [], []
            for l in sorted(locs):
                # in-place growth through a `&mut l` handed to an op-assign
                for cbb, ct in b.calls():
                    qs = Body.callee_qs(ct)
                    if any(q.endswith(g) for q in qs for g in GROW_ASSIGN) and l in _mut_borrowed_locals(b, ct):
                        grow.append((cbb, "%s(&mut %s, ..)" % (qs[0].split("::")[-1], b.var_name_of_local(l) or "_%d" % l)))
                    if any(q.endswith(g) for q in qs for g in CLAMP_CALLS) and ct["dst"]["l"] == l and not ct["dst"]["p"]:
                        clamp.append(cbb)
                for dbb, si, kind, payload in b.defs().get(l, []):
                    ex = b.rvalue_expr(payload) if kind == "rv" else b.call_expr(dbb, payload)
                    top = peel(ex)
                    if top is not None and top.k == "call" and any((top.q or "").endswith(g) for g in CLAMP_CALLS):
                        clamp.append(dbb)
                        continue
                    selfref = any(x.k in ("multi", "local") and getattr(x, "local", None) == l for x in walk(ex))
                    grows = any((x.k == "bin" and x.op in GROW_OPS) or
                                (x.k == "call" and any((x.q or "").endswith(g) for g in GROW_CALLS)) for x in walk(ex))
                    if selfref and grows:
                        grow.append((dbb, show(ex)[:80]))
            if grow and not clamp:
                col.bad(rule_id, key, b.where(grow[0][0]),
                        "the duration of this runner sleep is a loop-carried variable that grows (%s) and is never clamped: the worker "
                        "cannot see the cancel flag (or another block's failure) for the length of its longest sleep, which has no bound"
                        % grow[0][1], {"sleep": b.where(bb)})
            else:
                col.ok(rule_id, key, b.where(bb), "sleep duration %s" % (
                    "grows under a clamp" if grow else
                    ("computed by %s: not decided" % opaque[0].split("::")[-1]) if opaque and not locs else
                    "does not grow from call to call: " + show(e)[:60]))
    return n


def run(ctx):
    facts = ctx.facts("default")
    rb = runner_bodies(facts)
    ctx.anchor("C07", len([b for b in rb if b.kind == "traitimpl"]) >= 2, "two GraphRunner::run impls (Graph, MTGraph)")
    ctx.anchor("C07", sum(len(work_sites(facts, b)) for b in rb) >= 2, "dyn Block::work() call sites in both runners")
    rule_r1(facts, ctx, rb)
    rule_r2(facts, ctx, rb)
    rule_r3(facts, ctx, rb)
    rule_r4(facts, ctx, rb)
    rule_r6(facts, ctx, rb)
    ctx.floor("C07.R6", 1, "joined results of MTGraph::run")
    rule_r7(facts, ctx, rb)
    ctx.floor("C07.R7", 1, "work() in the MTGraph thread closure")
    from . import c04
    c04.rule_r10(facts, ctx, rule_id="C07.R8")       # a wait that never gives control back defeats the cancel poll
    ctx.floor("C07.R8", 4, "timed stream waits (same rule as C04.R10)")
    rule_r9(facts, ctx)
    ctx.floor("C07.R9", 1, "runner bodies scanned (no integer / Duration division today)")
    rule_r5(facts, ctx)
    ctx.floor("C07.R5", 1, "CancellationToken::cancel stores true")
    rule_r10(facts, ctx, rb)
    ctx.floor("C07.R10", 1, "thread::sleep sites in runner bodies (MTGraph worker, Pending arm)")
    from .. import controls
    controls.expect(ctx, "C07.R1", rule_r1, "BadRunner", "expect() on a block error")
    controls.expect(ctx, "C07.R2", rule_r2, "BadRunner", "error never returned")
    controls.expect(ctx, "C07.R3", rule_r3, "BadRunner", "work() cycle without a cancel poll")
    ctx.floor("C07.R2", 2, "error sources: work() in Graph::run and in the MTGraph thread closure (+ joined results)")
    ctx.floor("C07.R3", 2, "work() call sites on a cycle")
    ctx.floor("C07.R4", 1, "MTGraph::run join loop")
    ctx.explain("C07: in every GraphRunner::run body (and nested closures) no Result<_, rustradio::Error> is "
                "unwrapped/expected/ok()ed (R1); the Err of work() and of joined thread results flows into the return "
                "value and the Err arm leaves the loop (R2); every CFG cycle through a work() call contains a "
                "CancellationToken::is_canceled poll whose true edge reaches return without another work() call, finite "
                "iterator loops excepted (R3); spawned threads are joined in a loop left only on exhaustion, on every "
                "path to return (R4).")
    ctx.assume("blocking I/O inside a block's work() is outside the runner's control")
