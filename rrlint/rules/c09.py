"""C09 — block verdicts are truthful: no leaked window, idle spin, or misdirected wait."""
from ..common import *
from ..mir import peel, walk, show, self_field_path, same_expr, E
from .. import effects

READ_BUF = {"stream::ReadStream::read_buf"}
WRITE_BUF = {"stream::WriteStream::write_buf"}
LEAKS = {"std::mem::forget", "std::mem::ManuallyDrop::new", "std::boxed::Box::leak"}


def rule_r1(facts, col):
    """no stream window can outlive work(): windows are stored nowhere"""
    for path, a in sorted(facts.adts.items()):
        for v in a["variants"]:
            for f in v["fields"]:
                hit = [w for w in WINDOW_TYPES if w in f["ty"]["adts"]]
                key = "%s.%s" % (path, f["name"])
                if hit:
                    col.bad("C09.R1", key, "%s:%d" % (a["span"]["f"], a["span"]["l"]),
                            "field %s of %s stores a stream window (%s): the window (and its extra Arc reference) survives "
                            "work(), so the peer never sees the stream as closed and later windows alias it" % (f["name"], path, hit[0]), {})
                else:
                    col.ok("C09.R1", key, "%s:%d" % (a["span"]["f"], a["span"]["l"]), "no window type in field type")
    for s in facts.j.get("statics", []):
        if any(w in s["ty"]["adts"] for w in WINDOW_TYPES):
            col.bad("C09.R1", "static:%s" % s["path"], "", "a static holds a stream window", {})
    for body in facts.bodies:
        if body.kind == "closure" and body.upvars:
            for i, u in enumerate(body.upvars):
                if any(w in u["adts"] for w in WINDOW_TYPES) and not u["s"].startswith("&"):
                    # by-value capture of a window: only a problem if the closure escapes (boxed into WaitForFunc)
                    if _escapes_into_blockret(facts, body):
                        col.bad("C09.R1", "%s:upvar%d" % (body.q, i), body.where(),
                                "a closure returned inside BlockRet::WaitForFunc owns a stream window", {})
        for bb, t in body.calls_to(lambda q: q in LEAKS):
            if any(any(w in ty for w in WINDOW_TYPES) for ty in t.get("argtys", [])):
                col.bad("C09.R1", "%s:%s" % (body.q, t["f"]["name"]), body.where(bb), "a stream window is leaked with %s" % t["f"]["q"], {})


def _escapes_into_blockret(facts, closure_body):
    parent = facts.by_path.get(closure_body.parent["path"]) if closure_body.parent else None
    if parent is None:
        return False
    for bb, verdict, e in effects.verdict_defs(parent):
        if verdict == "WaitForFunc":
            for x in walk(e):
                if x.k == "agg" and x.ak == "closure" and x.q == closure_body.path:
                    return True
    return False


def rule_r2(facts, col, bodies=None):
    """no idle Again"""
    for body in (bodies if bodies is not None else facts.impl_bodies(BLOCK_TRAIT, "work")):
        idle, eff = effects.idle_again_paths(facts, body)
        agains = [bb for bb, v, e in effects.verdict_defs(body) if v == "Again"]
        if agains and not body.from_derive:
            # sharper: moves whose amount may be zero on the progress-free paths are not progress (see certain_progress).
            # A drain of the block's own buffer still counts here (not in R7): `produce(min(h.len(), room)); h.drain(..n); Again`
            # is how a block flushes a pending header, and "room == 0 while the header is pending" is ruled out by the stream
            # being empty when the block first runs - a fact no local analysis has.
            certain, zc = certain_progress(facts, body, zero_drains=False)
            r = body.reachable(0, avoid=certain) if 0 not in certain else set()
            idle = set(idle) | {bb for bb in agains if bb in r and bb not in certain}
        for bb in agains:
            key = "%s:again@%s" % (body.q, _guard_desc(body, bb))
            if bb in idle:
                col.bad("C09.R2", key, body.where(bb),
                        "work() can answer 'call me again' on a path with no consume/produce/push/pop and no change of "
                        "block state (%s): the runner spins on it without progress until some other block moves" % _guard_desc(body, bb), {})
            else:
                col.ok("C09.R2", key, body.where(bb), "Again only after possible progress")
        if not agains:
            col.ok("C09.R2", "%s:noagain" % body.q, body.where(), "never answers Again")


def _guard_desc(body, bb):
    """Short, line-free description of the nearest controlling fact."""
    f = nearest_fact(body, bb)
    if f is None:
        return "entry"
    rel = f[0]
    if rel == "Bool":
        return "%s=%s" % (_short_call(f[1]), f[2])
    if rel == "BoolVal":
        return "%s=%s" % (_short(f[1]), f[2])
    if rel in ("IntEq", "IntNe"):
        return "%s%s%s" % (_short(f[1]), "==" if rel == "IntEq" else "!=", f[2])
    return "%s_%s_%s" % (_short(f[1]), rel, _short(f[2]))


def _short(e):
    p = peel(e, through_try=False)
    if p.k == "const":
        return str(p.v)
    if p.k == "call":
        return _short_call(p)
    if p.k == "field":
        return str(p.name if p.name is not None else p.idx)
    if p.k == "param":
        return "arg%d" % p.idx
    if p.k == "discr":
        return "discr(" + _short(p.a) + ")"
    return p.k


def _short_call(p):
    name = (p.rq or p.q or "?").split("::")[-1]
    arg = ""
    if p.args:
        fp = self_field_path(p.args[0])
        w = window_of(p.args[0])
        if w:
            arg = w[0]
        elif fp:
            arg = ".".join(fp)
    return "%s(%s)" % (name, arg)


def nearest_fact(body, bb):
    best = None
    for edge, fact in edge_facts(body):
        if not must_pass_edge(body, bb, edge):
            continue
        # deeper = its switch lies behind the current best edge (must_pass_edge knows the infeasible side of `0 <= x` on an
        # unsigned x, which plain dominance does not: the `_` arm of `match n { 0..K => .., _ => .. }`)
        if best is None or body.dominates(best[0][0], edge[0]) or (edge[0] != best[0][0] and must_pass_edge(body, edge[0], best[0])):
            best = (edge, fact)
    return best[1] if best else None


def window_of(e, depth=0):
    """(stream field name, 'R'|'W') when e denotes a window obtained from self.<field>.read_buf()/write_buf()."""
    if e is None or depth > 8:
        return None
    p = peel(e)
    if p.k == "field" and p.idx == 0 and p.a is not None:
        inner = peel(p.a)
        if inner.k == "call" and inner.q in READ_BUF and inner.args:
            fp = self_field_path(inner.args[0])
            return (".".join(fp), "R") if fp else None
    if p.k == "call" and p.q in WRITE_BUF and p.args:
        fp = self_field_path(p.args[0])
        return (".".join(fp), "W") if fp else None
    if p.k == "call" and p.q in READ_BUF and p.args:
        fp = self_field_path(p.args[0])
        return (".".join(fp), "R") if fp else None
    if p.k == "call" and p.q in ("circular_buffer::BufferReader::slice", "circular_buffer::BufferReader::iter",
                                 "circular_buffer::BufferWriter::slice") and p.args:
        return window_of(p.args[0], depth + 1)
    return None


def masked_len_threshold(e):
    """e is `len(W) & !m` (m = 2^k - 1) or `len(W) / c`: e == 0 <=> len(W) < m + 1 resp. < c.  Returns (W, threshold)."""
    p = peel(e, through_try=False)
    if p.k == "bin" and p.op == "BitAnd":
        for x, y in ((p.a, p.b), (p.b, p.a)):
            w = len_of_window(x)
            m = peel(y, through_try=False)
            if w and m.k == "un" and m.op == "Not":
                mm = peel(m.a, through_try=False)
                if mm.k == "const" and isinstance(mm.v, int) and (mm.v + 1) & mm.v == 0:
                    return w, mm.v + 1
            if w and m.k == "const" and isinstance(m.v, int) and m.v > 0:
                inv = (~m.v) & 0xFFFFFFFFFFFFFFFF
                if (inv + 1) & inv == 0 and inv < 2 ** 32:
                    return w, inv + 1
    if p.k == "bin" and p.op == "Div":
        w = len_of_window(p.a)
        c = peel(p.b, through_try=False)
        if w and c.k == "const" and isinstance(c.v, int) and c.v >= 1:
            return w, c.v
    return None


def len_of_window(e):
    p = peel(e, through_try=False)
    if p.k == "call" and p.args and (p.q or "").split("::")[-1] in ("len", "is_empty"):
        return window_of(p.args[0])
    return None


def _scaled_short(fact):
    """`len(W) / c < k` (or `k > len(W) / c`) with constants c, k >= 1: (W, k * c) - the window holds fewer than k*c"""
    rel = fact[0]
    if rel == "Lt":
        x, y = fact[1], fact[2]
    elif rel == "Gt":
        x, y = fact[2], fact[1]
    else:
        return None
    px = peel(x, through_try=False)
    k = _const_int(y)
    if px.k == "bin" and px.op == "Div" and k is not None and k >= 1:
        w = len_of_window(px.a)
        c = _const_int(px.b)
        if w and c is not None and c >= 1:
            return w, k * c
    return None


def short_window_fact(fact):
    """If the fact says 'window W is short' with the operand directly len(W): return W."""
    rel = fact[0]
    if rel == "Bool":
        e = fact[1]
        if (e.q or "").split("::")[-1] == "is_empty" and fact[2] is True:
            return window_of(e.args[0]) if e.args else None
        return None
    if rel in ("IntEq", "IntNe") and fact[1] is not None and fact[1].k == "discr":
        # a packet stream: `self.F.pop()` / `peek_size()` returned None <=> the queue of F is empty
        x = peel(fact[1].a, through_try=False)
        if x is not None and x.k == "call" and (x.q or "").split("::")[-1] in ("pop", "peek_size") and "NCReadStream" in (x.q or "") and x.args:
            fp = self_field_path(x.args[0])
            is_none = (rel == "IntEq" and fact[2] == 0) or (rel == "IntNe" and fact[2] == 1)
            if fp and is_none:
                return (".".join(fp), "R")
        return None
    if rel == "IntEq" and fact[2] == 0:
        mt = masked_len_threshold(fact[1])
        return len_of_window(fact[1]) or (mt[0] if mt else None)
    if rel == "Eq":
        for x, y in ((fact[1], fact[2]), (fact[2], fact[1])):
            mt = masked_len_threshold(x)
            if mt and _is_zero(y):
                return mt[0]
    if rel in ("Lt", "Gt"):
        sd = _scaled_short(fact)
        if sd:
            return sd[0]
    if rel in ("Eq", "Lt", "Le"):
        w = len_of_window(fact[1])
        if w and (rel != "Eq" or _is_zero(fact[2])) and not len_of_window(fact[2]):
            return w
    if rel in ("Eq", "Gt", "Ge"):
        w = len_of_window(fact[2])
        if w and (rel != "Eq" or _is_zero(fact[1])) and not len_of_window(fact[1]):
            return w
    return None


def _len_equals_nonzero(fact):
    """(window field, c) for a controlling fact `len(W) == c` with a constant c != 0"""
    rel = fact[0]
    if rel == "IntEq" and isinstance(fact[2], int) and not isinstance(fact[2], bool) and fact[2] != 0:
        w = len_of_window(fact[1])
        if w:
            return w[0], fact[2]
    if rel == "Eq":
        for x, y in ((fact[1], fact[2]), (fact[2], fact[1])):
            w = len_of_window(x)
            c = peel(y, through_try=False)
            if w and c is not None and c.k == "const" and isinstance(c.v, int) and not isinstance(c.v, bool) and c.v != 0:
                return w[0], c.v
    return None


_PRIM_WIDTH = {"u8": 1, "i8": 1, "u16": 2, "i16": 2, "u32": 4, "i32": 4, "f32": 4, "u64": 8, "i64": 8, "f64": 8, "u128": 16, "i128": 16}


def _const_int(e):
    p = peel(e, through_try=False)
    if p is not None and p.k == "const" and isinstance(p.v, int) and not isinstance(p.v, bool):
        return p.v
    if p is not None and p.k == "call" and p.q == "std::mem::size_of" and not p.args and p.f:
        sub = (p.f.get("substs") or [""])[0]
        return _PRIM_WIDTH.get(sub)       # size_of::<i16>() is the constant 2
    return None


_wep_cache = {}


def window_empty_predicates(facts):
    """{function q: stream field} for local methods whose result is `self.F`'s window `.is_empty()` (plain or inside Ok(..)):
    wrapper summary so that `if self.output_full()? {..}` counts as the emptiness guard it is"""
    k = id(facts)
    if k in _wep_cache:
        return _wep_cache[k]
    out = {}
    for b in facts.bodies:
        if b.kind == "closure" or b.name == "work" or not b.self_adt:
            continue
        flds = set()
        okall = True
        n = 0
        for bb, si, e in assigns_to_return(b):
            p = peel(e, through_try=False)
            if p.k == "agg" and p.adt == "std::result::Result":
                if p.variant == "Err":
                    continue
                p = peel(p.args[0], through_try=False) if p.args else p
            if p.k == "call" and (p.q or "").endswith("from_residual"):
                continue
            if p.k == "call" and (p.q or "").split("::")[-1] == "is_empty" and p.args:
                w = window_of(p.args[0])
                if w:
                    flds.add(w[0])
                    n += 1
                    continue
            okall = False
        if okall and n and len(flds) == 1:
            out[b.q] = flds.pop()
    _wep_cache[k] = out
    return out


def window_lower_bounds(body, bb, facts_obj=None):
    """{window field: n} with len(window) >= n established at bb by dominating guards"""
    out = {}
    wep = window_empty_predicates(facts_obj) if facts_obj is not None else {}
    if wep:
        for f in facts_at(body, bb):
            if f[0] in ("BoolVal", "Bool") and f[2] is False:
                p = peel(f[1])
                if p is not None and p.k == "call" and (p.q in wep or p.rq in wep):
                    fld = wep.get(p.q) or wep.get(p.rq)
                    out[fld] = max(out.get(fld, 0), 1)

    def note(w, n):
        if w and n > out.get(w[0], 0):
            out[w[0]] = n
    for f in facts_at(body, bb):
        rel = f[0]
        if rel == "Bool" and f[2] is False and (f[1].q or "").split("::")[-1] == "is_empty" and f[1].args:
            note(window_of(f[1].args[0]), 1)
        elif rel == "IntNe" and f[2] == 0:
            note(len_of_window(f[1]), 1)
        elif rel == "Ne":
            note((len_of_window(f[1]) if _is_zero(f[2]) else None) or (len_of_window(f[2]) if _is_zero(f[1]) else None), 1)
        elif rel in ("Gt", "Ge"):
            c = _bound_const(body, bb, f[2])
            note(len_of_window(f[1]), (c + (1 if rel == "Gt" else 0)) if c is not None else 1 if rel == "Gt" else 0)
        elif rel in ("Lt", "Le"):
            c = _bound_const(body, bb, f[1])
            note(len_of_window(f[2]), (c + (1 if rel == "Lt" else 0)) if c is not None else 1 if rel == "Lt" else 0)
    return out


def _bound_const(body, bb, e):
    """constant value of a bound, also for a value selected per state by an earlier `match` on the same discriminant as the
    one bb lies under (the smallest of the alternatives that can be current)"""
    c = _const_int(e)
    if c is not None:
        return c
    alts = consistent_alts(body, e, bb)
    if alts:
        cs = [_const_int(a) for a in alts]
        if all(x is not None for x in cs):
            return min(cs)
    return None


def nonempty_windows(body, bb):
    return {w for w, n in window_lower_bounds(body, bb).items() if n >= 1}


def _strip_rounding(x):
    """(m, k): x == 0 <=> m < k for the round-down idioms m - (m & (k-1)), m & !(k-1), m / k, (m / k) * k; else (x, 1)"""
    p = peel(x, through_try=False)
    if p.k == "bin" and p.op == "Sub":
        b = peel(p.b, through_try=False)
        if b.k == "bin" and b.op == "BitAnd":
            for u, v in ((b.a, b.b), (b.b, b.a)):
                c = _const_int(v)
                if c is not None and c > 0 and (c + 1) & c == 0 and same_expr(peel(u, through_try=False), peel(p.a, through_try=False)):
                    return p.a, c + 1
    if p.k == "bin" and p.op == "BitAnd":
        for u, v in ((p.a, p.b), (p.b, p.a)):
            pv = peel(v, through_try=False)
            if pv.k == "un" and pv.op == "Not":
                c = _const_int(pv.a)
                if c is not None and (c + 1) & c == 0:
                    return u, c + 1
    if p.k == "bin" and p.op == "Mul":
        for u, v in ((p.a, p.b), (p.b, p.a)):
            pu = peel(u, through_try=False)
            c = _const_int(v)
            if c and pu.k == "bin" and pu.op == "Div" and _const_int(pu.b) == c:
                return pu.a, c
    if p.k == "bin" and p.op == "Div":
        c = _const_int(p.b)
        if c:
            return p.a, c
    return x, 1


def several_windows_short_fact(fact, body=None, bb=None):
    """fact `X == 0` where X is (a rounding-down of) a minimum over scaled len()s of windows:
    returns {window field: threshold} - X == 0 iff some window's len is below its threshold - else None"""
    rel = fact[0]
    xs = []
    if rel == "IntEq" and fact[2] == 0:
        xs = [fact[1]]
    elif rel == "Eq":
        xs = [fact[1]] if _is_zero(fact[2]) else ([fact[2]] if _is_zero(fact[1]) else [])
    for x in xs:
        m, k = _strip_rounding(x)
        p = peel(m, through_try=False)
        if not (p.k == "call" and ((p.q in MIN_CALLS or p.rq in MIN_CALLS) or (p.q or "").split("::")[-1] in ("fold", "min"))):
            continue
        is_min2 = (p.q in MIN_CALLS or p.rq in MIN_CALLS) and len(p.args) == 2
        thr = {}
        others = []
        if is_min2:
            for a in p.args:
                pa = peel(a, through_try=False)
                w = len_of_window(pa)
                if w:
                    thr[w[0]] = max(thr.get(w[0], 0), k)
                    continue
                if pa.k == "bin" and pa.op in ("Mul", "Div"):
                    w = len_of_window(pa.a) or len_of_window(pa.b)
                    c = _const_int(pa.b) if len_of_window(pa.a) else _const_int(pa.a)
                    if w and c:
                        t = -(-k // c) if pa.op == "Mul" else k * c
                        thr[w[0]] = max(thr.get(w[0], 0), t)
                        continue
                others.append(a)
        else:
            if k != 1:
                continue
            for y in walk(p):
                w = len_of_window(y)
                if w:
                    thr[w[0]] = 1
        if not thr:
            continue
        if others:
            # a non-window operand must be known large enough not to be the cause
            if body is None or k != 1 or not all(known_nonzero(body, bb, o) for o in others):
                continue
        if len(thr) >= 2 or others or k > 1:
            return thr
    return None


def _is_zero(e):
    p = peel(e, through_try=False)
    return p.k == "const" and p.v == 0 and not isinstance(p.v, bool)


def wait_target(e):
    """field path F of `BlockRet::WaitForStream(&self.F, _)`"""
    if e is None or e.k != "agg" or not e.args:
        return None
    fp = self_field_path(e.args[0])
    return ".".join(fp) if fp else None


def rule_r3(facts, col, bodies=None):
    """the wait names the stream whose window was found short"""
    for body in (bodies if bodies is not None else facts.impl_bodies(BLOCK_TRAIT, "work")):
        for bb, verdict, e in effects.verdict_defs(body):
            if verdict != "WaitForStream":
                continue
            tgt = wait_target(e)
            fact = nearest_fact(body, bb)
            key = "%s:wait(%s)@%s" % (body.q, tgt, _guard_desc(body, bb))
            if tgt is None or fact is None:
                col.silent("C09.R3", key, body.where(bb), "wait target or controlling fact not recognised")
                continue
            w = short_window_fact(fact)
            odd = _len_equals_nonzero(fact)
            if w is None and odd:
                col.bad("C09.R3", key, body.where(bb),
                        "the wait on self.%s is decided by `len(window of self.%s) == %d`, which is not a shortage test: with an EMPTY "
                        "window the block does not wait (it goes on with nothing: zero-length reads taken for end of data, asserts, "
                        "idle Again) and with exactly %d it stalls" % (tgt, odd[0], odd[1], odd[1]), {})
                continue
            if w is None:
                thr = several_windows_short_fact(fact, body, bb)
                ws = None
                if thr:
                    lbs = window_lower_bounds(body, bb, facts)
                    ws = {w for w, t in thr.items() if lbs.get(w, 0) < t}
                if ws and len(ws) == 1 and tgt in ws:
                    col.ok("C09.R3", key, body.where(bb), "min over windows is 0 and every other window is known long enough: self.%s is the short one" % tgt)
                elif ws and len(ws) == 1:
                    col.bad("C09.R3", key, body.where(bb),
                            "work() established that the window of self.%s is too short (the other operands of the min are known large "
                            "enough here) but reports waiting for self.%s: the wait is satisfied at once (spin) or, when self.%s's peer "
                            "is gone, the block is retired with data pending" % (sorted(ws)[0], tgt, tgt), {"short": sorted(ws)[0], "waits_on": tgt})
                elif ws and len(ws) >= 2:
                    col.bad("C09.R3", key, body.where(bb),
                            "work() only established that ONE OF the windows %s is empty/short (a min/fold over their lengths) yet always "
                            "reports waiting for self.%s: whenever another one is the short one the wait is misdirected (satisfied at "
                            "once: idle spin; or on an ended stream: block retired with input pending)" % (sorted(ws), tgt),
                            {"windows": sorted(ws), "waits_on": tgt})
                else:
                    col.silent("C09.R3", key, body.where(bb), "controlling condition is not a plain 'window is short' test")
                continue
            if w[0] == tgt:
                col.ok("C09.R3", key, body.where(bb), "found %s window of self.%s short, waits on self.%s" % (w[1], w[0], tgt))
            else:
                col.bad("C09.R3", key, body.where(bb),
                        "work() found the %s window of self.%s too short but reports waiting for self.%s: supplying what it "
                        "asked for does not unblock it, and when self.%s's peer is gone the runner retires the block with "
                        "data still pending" % ("write" if w[1] == "W" else "read", w[0], tgt, tgt), {"short": w[0], "waits_on": tgt})


def short_window_threshold(fact):
    """(window, threshold_expr, strict) for facts `len(W) < X` / `X > len(W)` / `len(W) <= X`; None otherwise."""
    rel = fact[0]
    if rel in ("Eq", "IntEq"):
        cands = [(fact[1], fact[2])] if rel == "IntEq" else [(fact[1], fact[2]), (fact[2], fact[1])]
        for x, y in cands:
            mt = masked_len_threshold(x)
            zero = (y == 0) if rel == "IntEq" else _is_zero(y)
            if mt and zero and mt[1] > 1:
                return mt[0], E("const", v=mt[1], ty="usize"), True
    sd = _scaled_short(fact)
    if sd:
        return sd[0], E("const", v=sd[1], ty="usize"), True
    if rel in ("Lt", "Le"):
        w = len_of_window(fact[1])
        if w and not len_of_window(fact[2]):
            return w, fact[2], rel == "Lt"
    if rel in ("Gt", "Ge"):
        w = len_of_window(fact[2])
        if w and not len_of_window(fact[1]):
            return w, fact[1], rel == "Gt"
    return None


def rule_r4(facts, col, bodies=None):
    """the amount a block says it waits for is the amount its test required"""
    for body in (bodies if bodies is not None else facts.impl_bodies(BLOCK_TRAIT, "work")):
        for bb, verdict, e in effects.verdict_defs(body):
            if verdict != "WaitForStream" or e.k != "agg" or len(e.args) < 2:
                continue
            tgt = wait_target(e)
            fact = nearest_fact(body, bb)
            if tgt is None or fact is None:
                continue
            need = peel(e.args[1], through_try=False)
            if need.k != "const" and _const_int(need) is not None:
                need = E("const", v=_const_int(need), ty="usize")      # `size_of::<i16>()` is the constant 2
            key = "%s:need(%s)@%s" % (body.q, tgt, _guard_desc(body, bb))
            w = short_window_fact(fact)
            if w is None:
                # `min(len(A), len(B) / c) == 0` with every other window established long enough: B is short of c
                sw = several_windows_short_fact(fact, body, bb)
                nd = _const_int(need)
                if sw and tgt in sw and nd is not None:
                    lbs = window_lower_bounds(body, bb, facts)
                    rest = {f: t for f, t in sw.items() if lbs.get(f, 0) < t}
                    if list(rest) == [tgt]:
                        t = rest[tgt]
                        if nd == t:
                            col.ok("C09.R4", key, body.where(bb), "only self.%s can be the short one (threshold %d), waits for %d" % (tgt, t, nd))
                        elif nd < t:
                            col.bad("C09.R4", key, body.where(bb),
                                    "work() needs %d samples on self.%s to proceed (the minimum it tests is 0 exactly when that window holds "
                                    "fewer) but says it waits for only %d: with %d..%d available the wait is already satisfied, so the runner "
                                    "calls it again at once and gets the same answer" % (t, tgt, nd, nd, t - 1), {})
                        else:
                            col.bad("C09.R4", key, body.where(bb),
                                    "work() proceeds with %d samples on self.%s but waits for %d: when the peer delivers fewer than that and "
                                    "goes away, the wait reports 'can never be satisfied' and the block is retired with samples it could have "
                                    "processed" % (t, tgt, nd), {})
                        continue
                col.silent("C09.R4", key, body.where(bb), "controlling condition is not a plain 'window is short' test")
                continue
            if w[0] != tgt:
                continue
            thr = short_window_threshold(fact)
            if thr is None:
                # emptiness test: any need >= 1 is truthful
                if need.k == "const" and need.v == 0:
                    col.bad("C09.R4", key, body.where(bb), "waits for 0 samples on an empty window: the wait is satisfied "
                            "immediately and the runner spins", {})
                elif need.k == "const" and isinstance(need.v, int) and need.v > 1:
                    col.bad("C09.R4", key, body.where(bb),
                            "work() only found the window of self.%s EMPTY (it proceeds with a single sample) yet waits for %d: when the "
                            "peer delivers fewer than that and goes away, the wait reports 'can never be satisfied' and the runner retires "
                            "the block with samples it could have processed" % (tgt, need.v), {})
                else:
                    col.ok("C09.R4", key, body.where(bb), "window empty, waits for >= 1")
                continue
            _, x, strict = thr
            px = peel(x, through_try=False)
            if same_expr(need, px) and strict:
                col.ok("C09.R4", key, body.where(bb), "waits for exactly the tested threshold")
            elif same_expr(need, px) and not strict:
                col.bad("C09.R4", key, body.where(bb),
                        "work() refuses to go on while `len(self.%s) <= %s` but says it waits for only that many: with exactly that amount "
                        "available the wait is satisfied at once yet work() waits again - the multithreaded runner spins, the "
                        "single-threaded one takes the stalled pass for quiescence and returns with data in flight" % (tgt, show(px)[:50]), {})
            elif need.k == "const" and px.k == "const" and need.v is not None and px.v is not None:
                exact = px.v + (0 if strict else 1)
                if need.v == exact:
                    col.ok("C09.R4", key, body.where(bb), "constant need %s == tested threshold" % need.v)
                elif need.v > exact:
                    col.bad("C09.R4", key, body.where(bb),
                            "work() proceeds with %d samples on self.%s but waits for %d: when the peer delivers fewer than that and goes "
                            "away, the wait reports 'can never be satisfied' and the runner retires the block with samples it could have "
                            "processed" % (exact, tgt, need.v), {})
                else:
                    col.bad("C09.R4", key, body.where(bb),
                            "work() needs %s%s samples on self.%s to proceed but says it waits for only %s: the wait is already "
                            "satisfied, so the runner calls it again at once, forever (and never learns the stream ended)"
                            % ("" if strict else "more than ", px.v, tgt, need.v), {})
            elif _offset_of(need, px) is not None:
                d = _offset_of(need, px)          # need = threshold + d
                if d > 0 or (d == 0 and not strict):
                    col.bad("C09.R4", key, body.where(bb),
                            "work() proceeds once self.%s holds `%s` but says it waits for %d more than that: when the peer delivers what is "
                            "really needed and goes away, the wait reports 'can never be satisfied' and the runner retires the block with "
                            "data it could have processed" % (tgt, show(px)[:50], d + (0 if strict else 1)), {})
                elif d < 0:
                    col.bad("C09.R4", key, body.where(bb),
                            "work() needs `%s` on self.%s to proceed but says it waits for %d less: with an amount in between the wait is "
                            "already satisfied, so the runner calls it again at once and gets the same answer" % (show(px)[:50], tgt, -d), {})
                else:
                    col.ok("C09.R4", key, body.where(bb), "waits for exactly the tested threshold")
            elif _structurally_unrelated(need, px):
                col.bad("C09.R4", key, body.where(bb),
                        "work() tests `len(self.%s) < %s` but reports waiting for `%s`, a different quantity: when the stream holds "
                        "between the two amounts the wait is satisfied yet no progress is possible, so the block is polled "
                        "forever / never retired" % (tgt, show(px)[:80], show(need)[:80]), {})
            else:
                col.silent("C09.R4", key, body.where(bb), "threshold and need not comparable")


def _offset_of(a, b):
    """d with a == b + d when the two differ by a visible constant (`x` vs `x - 8`, `x + 1` vs `x`); None otherwise"""
    pa, pb = peel(a, through_try=False), peel(b, through_try=False)
    if same_expr(pa, pb):
        return 0
    for x, y, sign in ((pa, pb, 1), (pb, pa, -1)):
        # x = y + c  /  x = y - c
        if x.k == "bin" and x.op in ("Add", "Sub"):
            c = _const_int(x.b)
            if c is not None and same_expr(peel(x.a, through_try=False), y):
                return sign * (c if x.op == "Add" else -c)
    return None


def _structurally_unrelated(a, b):
    """Both are fully visible arithmetic over self fields / constants, yet differ."""
    def visible(e, d=0):
        e = peel(e, through_try=False)
        if e is None or d > 12:
            return False
        if e.k == "const":
            return e.v is not None
        if e.k == "field":
            return self_field_path(e) is not None
        if e.k == "bin":
            return visible(e.a, d + 1) and visible(e.b, d + 1)
        if e.k == "call" and (e.q in MIN_CALLS or e.q in MAX_CALLS or e.rq in MIN_CALLS or e.rq in MAX_CALLS):
            return all(visible(x, d + 1) for x in e.args)
        return False
    return visible(a) and visible(b)


def rule_r6(facts, col, rule_id="C09.R6"):
    """a block does not report 'waiting for output space' while it holds input it has consumed but not yet committed
    downstream: on a path consume() -> WaitForStream(&self.<output>) with no produce()/push() after the consume - and none before
    it in the same loop iteration - the samples sit in private state; when the upstream then ends, the block's eof() (inputs
    drained) is true and the multithreaded runner retires it with that data undelivered"""
    for body in facts.impl_bodies(BLOCK_TRAIT, "work"):
        a = facts.adts.get(body.self_adt)
        if not a or a["kind"] != "struct":
            continue
        outs = {f["name"] for f in a["variants"][0]["fields"] if "WriteStream" in f["ty"]["s"]}
        cons = [bb for bb, t in body.calls_to(effects.CONSUME)]
        prods = {bb for bb, t in body.calls_to(effects.PRODUCE)} | {bb for bb, t in body.calls_to(effects.PUSH)}
        if not cons or not outs:
            continue
        for bb, verdict, e in effects.verdict_defs(body):
            if verdict != "WaitForStream":
                continue
            tgt = wait_target(e)
            if tgt not in outs:
                continue
            key = "%s:wait(%s)@%s" % (body.q, tgt, _guard_desc(body, bb))
            bad = None
            for c in cons:
                t0 = body.term(c).get("t")
                if t0 is None or t0 in prods or bb not in body.reachable(t0, avoid=prods):
                    continue
                comp = scc_of(body, c)
                heads = [b for b in comp if any(p_ not in comp for p_ in body.pred[b])] if comp else [0]
                if any(c in body.reachable(h, avoid=prods) for h in (heads or [0])):
                    bad = c
            if bad is not None:
                col.bad(rule_id, key, body.where(bb),
                        "work() can consume input (at %s) and then answer WaitForStream on its OUTPUT self.%s without having committed "
                        "anything for it: the consumed samples sit in the block's private state, its inputs can then look drained, and "
                        "the multithreaded runner retires the block (eof() true) with that data never delivered - the single-threaded "
                        "run delivers it" % (body.where(bad), tgt), {})
            else:
                col.ok(rule_id, key, body.where(bb), "no consumed-but-uncommitted input when waiting for output space")


def rule_r5(facts, col, bodies=None, rule_id="C09.R5"):
    """the amount waited for on one stream does not grow with what ANOTHER stream currently holds"""
    for body in (bodies if bodies is not None else facts.impl_bodies(BLOCK_TRAIT, "work")):
        for bb, verdict, e in effects.verdict_defs(body):
            if verdict != "WaitForStream" or e.k != "agg" or len(e.args) < 2:
                continue
            tgt = wait_target(e)
            need = peel(e.args[1], through_try=False)
            if tgt is None:
                continue
            key = "%s:need(%s)@%s" % (body.q, tgt, _guard_desc(body, bb))
            if need.k == "const":
                col.ok(rule_id, key, body.where(bb), "constant amount")
                continue
            others = set()
            for x in walk(need):
                w = len_of_window(x)
                if w and w[0] != tgt:
                    others.add(w[0])
            if others:
                col.bad(rule_id, key, body.where(bb),
                        "the amount waited for on self.%s is computed from the current length of the window of self.%s: the block "
                        "refuses to work although a smaller batch would fit, and the demand grows with the peer's backlog up to a whole "
                        "buffer, which self.%s may never offer at once (its neighbours then stall too and the single-threaded runner "
                        "takes the stalled pass for quiescence)" % (tgt, ", self.".join(sorted(others)), tgt), {"need": show(need)[:120]})
            else:
                col.ok(rule_id, key, body.where(bb), "amount %s does not depend on another stream's fill" % show(need)[:50])


_ONE = None


def _positive(body, bb, x, lbs, depth=0):
    """x >= 1 established at bb (on the paths currently considered)"""
    global _ONE
    if _ONE is None:
        from ..mir import E
        _ONE = E("const", v=1, ty="usize")
    p = peel(x, through_try=False)
    if p.k == "const":
        return isinstance(p.v, int) and not isinstance(p.v, bool) and p.v >= 1
    w = len_of_window(p)
    if w:
        return lbs.get(w[0], 0) >= 1
    if p.k == "call" and (p.q in MIN_CALLS or p.rq in MIN_CALLS) and depth < 4:
        return all(_positive(body, bb, a, lbs, depth + 1) for a in p.args)
    if p.k == "bin" and p.op == "Mul" and depth < 4:
        return _positive(body, bb, p.a, lbs, depth + 1) and _positive(body, bb, p.b, lbs, depth + 1)
    return known_ge(body, bb, x, _ONE)


def _plain_len(p):
    """p is len() of a stream window or of a container held in a field of self"""
    if len_of_window(p):
        return True
    if p.k == "call" and (p.q or "").split("::")[-1] == "len" and p.args:
        return bool(self_field_path(p.args[0]))
    return False


def _maybe_zero(body, bb, x, lbs, depth=0):
    """affirmative evidence that x can be 0 at bb on the paths considered: x is built from lengths of windows / of the block's own
    containers that no guard on those paths bounds from below (min, products, `len / c`).  Anything else - results of reads,
    differences, values asserted non-zero - is NOT claimed to be possibly zero."""
    global _ONE
    if _ONE is None:
        from ..mir import E
        _ONE = E("const", v=1, ty="usize")
    if depth > 4:
        return False
    if known_ge(body, bb, x, _ONE):
        return False
    p = peel(x, through_try=False)
    if p.k == "const":
        return isinstance(p.v, int) and not isinstance(p.v, bool) and p.v == 0
    w = len_of_window(p)
    if w:
        return lbs.get(w[0], 0) < 1
    if _plain_len(p):
        return True
    if p.k == "call" and (p.q in MIN_CALLS or p.rq in MIN_CALLS):
        return any(_maybe_zero(body, bb, a, lbs, depth + 1) for a in p.args)
    if p.k == "bin" and p.op == "Mul":
        return _maybe_zero(body, bb, p.a, lbs, depth + 1) or _maybe_zero(body, bb, p.b, lbs, depth + 1)
    if p.k == "bin" and p.op == "Div":
        a = peel(p.a, through_try=False)
        if _plain_len(a):
            w = len_of_window(a)
            c = _const_int(p.b)
            if w and c is not None and lbs.get(w[0], 0) >= c:
                return False
            return not known_ge(body, bb, p.a, p.b)
        return _maybe_zero(body, bb, p.a, lbs, depth + 1)
    return False


def _range_end(e):
    p = peel(e, through_try=False)
    if p.k == "agg" and p.adt == "std::ops::RangeTo" and p.args:
        return p.args[0]
    if p.k == "agg" and p.adt == "std::ops::Range" and len(p.args) == 2:
        return p.args[1]
    return None


ITER_ADAPTORS = ("take", "zip", "by_ref", "into_iter", "map", "enumerate", "skip", "step_by", "take_while", "chain", "rev", "iter_mut", "iter")


def certain_progress(facts, body, zero_drains=True):
    """(blocks at which work() has certainly changed something observable, {bb: count expr} of the zero-capable moves).
    Everything effects.Effects lists as possible progress is certain EXCEPT moves whose amount may be zero on the paths that
    avoid all other progress: consume/produce with a count not established >= 1 there; the drain/truncate of as many elements
    of the block's own buffer; and `&mut self` handed to a lazy iterator adaptor that is bounded by such an amount
    (`self.take(n)`, `window.iter_mut().zip(self)`: Zip asks its first iterator first and stops when it is exhausted).
    Loops that contain certain progress are taken to run."""
    eff = effects.Effects(facts, body)
    countsites = {}
    for bb, t in body.calls():
        if bb in eff.progress and any(q in (effects.CONSUME, effects.PRODUCE) for q in Body.callee_qs(t)) and len(t["args"]) >= 2:
            countsites[bb] = body.operand_expr(t["args"][1])
    drains = {}
    for bb, t in body.calls():
        if bb in eff.progress and t["f"].get("name") in ("drain", "truncate") and len(t["args"]) >= 2:
            end = _range_end(body.operand_expr(t["args"][1]))
            if end is not None:
                drains[bb] = end
    lazy = {}     # bb -> bounding expression (a count, or a window whose slice is walked in lock-step)
    for bb, t in body.calls():
        if bb not in eff.progress or bb in countsites or bb in drains:
            continue
        nm = t["f"].get("name")
        q = t["f"].get("q") or ""
        if nm not in ITER_ADAPTORS or not (q.startswith("std::iter::") or q.startswith("core::iter::")):
            continue
        args = [body.operand_expr(a) for a in t["args"]]
        selfs = [i for i, a in enumerate(args) if effects.is_self_mut_ref(body, a)]
        if not selfs:
            continue
        if nm == "take" and len(args) == 2 and selfs == [0]:
            lazy[bb] = ("count", args[1])
        elif nm == "zip" and len(args) == 2 and selfs == [1]:
            ws = [window_of(x) for x in walk(args[0])]
            ws = [w for w in ws if w]
            if ws:
                lazy[bb] = ("window", ws[0][0])
    certain0 = set(eff.progress) - set(countsites) - set(drains) - set(lazy)
    for comp in sccs(body):
        if len(comp) > 1 and comp & certain0:
            certain0 |= comp
    with restricted_paths(body, certain0):
        zc = {}
        for bb, cnt in countsites.items():
            if _maybe_zero(body, bb, cnt, window_lower_bounds(body, bb, facts)):
                zc[bb] = cnt
        zdr = set()
        for bb, end in drains.items():
            pe = peel(end, through_try=False)
            parts = [pe] + ([pe.a, pe.b] if pe.k == "bin" and pe.op == "Mul" else [])
            if any(same_expr(peel(c, through_try=False), peel(z, through_try=False)) for c in parts for z in zc.values()):
                zdr.add(bb)
            elif _maybe_zero(body, bb, end, window_lower_bounds(body, bb, facts)):
                zdr.add(bb)
        zlazy = set()
        for bb, (kind, x) in lazy.items():
            lbs = window_lower_bounds(body, bb, facts)
            if kind == "count" and _maybe_zero(body, bb, x, lbs):
                zlazy.add(bb)
            elif kind == "window" and lbs.get(x, 0) < 1:
                zlazy.add(bb)
        if not zero_drains:
            zdr = set()
        certain = certain0 | (set(countsites) - set(zc)) | (set(drains) - zdr) | (set(lazy) - zlazy)
    # a loop driven by a zero-capable lazy iterator does not certainly run: blocks inside it that were counted as certain
    # only because of the SCC closure stay certain only if they are certain on their own
    return certain, zc


def rule_r7(facts, col, rule_id="C09.R7", bodies=None):
    """a wait that is already satisfied is an `Again`: where work() returns WaitForStream(&self.W, c) on a path on which
    len(window of W) >= c is established (so the runner's wait returns at once), that path has made progress.  Progress whose
    amount may be zero does not count: consume/produce with a count not established >= 1 on that path, and the drain of as
    many elements from the block's own buffer.  Loops that contain progress are taken to run (a window established non-empty
    is iterated at least once)."""
    for body in (bodies if bodies is not None else facts.impl_bodies(BLOCK_TRAIT, "work")):
        cands = []
        for bb, verdict, e in effects.verdict_defs(body):
            if verdict != "WaitForStream" or e is None or len(e.args) < 2:
                continue
            tgt, need = wait_target(e), _const_int(e.args[1])
            if tgt is None or need is None:
                continue
            cands.append((bb, tgt, need))
        if not cands:
            continue
        certain, zc = certain_progress(facts, body)
        with restricted_paths(body, certain):
            r = body.reachable(0, avoid=certain) if 0 not in certain else set()
            for bb, tgt, need in cands:
                key = "%s:wait(%s)@%s" % (body.q, tgt, _guard_desc(body, bb))
                if bb not in r:
                    col.ok(rule_id, key, body.where(bb), "reached only after certain progress")
                    continue
                lbs = window_lower_bounds(body, bb, facts)
                if lbs.get(tgt, 0) >= need:
                    col.bad(rule_id, key, body.where(bb),
                            "work() answers WaitForStream(self.%s, %d) on a path where that stream's window is already established to "
                            "hold %d and nothing has certainly moved (%s): the wait returns at once, work() is called again in the same "
                            "state and answers the same - a busy loop that never ends" % (
                                tgt, need, need,
                                "; ".join("%s count %s may be 0" % (body.where(b), show(c)[:80]) for b, c in sorted(zc.items())) or "no stream or state effect"), {})
                else:
                    col.ok(rule_id, key, body.where(bb), "the awaited window is not established satisfied on the progress-free paths")



def rule_r8(facts, col, rule_id="C09.R8"):
    """a wrapper block does not pass an inner block's wait on under a stream of its own choosing: where work() calls another
    block's work() and answers WaitForStream(&self.F, need) with `need` taken from the inner block's WaitForStream verdict, the
    inner verdict may be about either side of the inner block (its input OR its output) - naming one fixed outer stream is
    misdirected whenever it was the other side (and `need` is counted in the inner stream's samples)"""
    n = 0
    for body in facts.impl_bodies(BLOCK_TRAIT, "work"):
        if body.from_derive:
            continue
        inner = [bb for bb, t in body.calls_to("block::Block::work")]
        if not inner:
            continue
        for bb, verdict, e in effects.verdict_defs(body):
            if verdict != "WaitForStream" or e is None or len(e.args) < 2:
                continue
            n += 1
            tgt = wait_target(e)
            key = "%s:wait(%s)<-inner" % (body.q, tgt)
            from_inner = False
            for x in walk(e.args[1]):
                if x.k == "field" and x.a is not None:
                    d = peel(x.a, through_try=False)
                    if d is not None and d.k == "downcast" and d.variant == "WaitForStream":
                        for y in walk(d.a):
                            if y.k == "call" and (y.q == "block::Block::work" or y.rq == "block::Block::work" or (y.q or "").endswith("::work")) and getattr(y, "bb", None) in inner:
                                from_inner = True
            if from_inner and tgt is not None:
                col.bad(rule_id, key, body.where(bb),
                        "work() answers WaitForStream(self.%s, need) with `need` copied from the WaitForStream verdict of the block it wraps: "
                        "that verdict may be about the inner block's OUTPUT (the private stream towards self.dst is full), in which case "
                        "more data on self.%s changes nothing - the wait is satisfied at once, work() does nothing, and the same verdict "
                        "comes back (or the block is retired on a closed input while it still holds its backlog)" % (tgt, tgt), {})
            else:
                col.ok(rule_id, key, body.where(bb), "amount not taken from an inner block's wait verdict")
    if n == 0:
        col.ok(rule_id, "no-wrapper-wait", "src/fft_filter.rs", "no block answers WaitForStream after calling another block's work()")


NC_PROBES = {"pop", "peek_size", "is_empty", "len"}
WINDOW_PROBES = {"len", "is_empty", "next", "first", "last", "get", "split_first", "split_last", "nth", "peek"}


def _mentions_stream(x, tgt, wep):
    """expression x looks at what the stream in self.<tgt> currently offers: the length / emptiness of its window (or the
    first step of an iteration over it), a summary predicate of it, or a pop()/peek_size() of a packet stream.  Merely
    having obtained the window (`read_buf()?`) is not a look at its contents."""
    for y in walk(x):
        if y.k != "call":
            continue
        if wep.get(y.q) == tgt or wep.get(y.rq) == tgt:
            return True
        nm = (y.q or "").split("::")[-1]
        if nm in NC_PROBES and y.args:
            fp = self_field_path(y.args[0])
            if fp and ".".join(fp) == tgt:
                return True
        if nm in WINDOW_PROBES and y.args:
            for z in walk(y.args[0]):
                w = window_of(z)
                if w and w[0] == tgt:
                    return True
    return False


def _min_cannot_be_zero(body, bb, fact, lbs, facts=None):
    """fact says min(a, b, ..) == 0 while every operand is established >= 1 at bb: the branch is dead"""
    rel = fact[0]
    x = None
    if rel == "IntEq" and fact[2] == 0:
        x = fact[1]
    elif rel == "Eq" and _is_zero(fact[2]):
        x = fact[1]
    elif rel == "Eq" and _is_zero(fact[1]):
        x = fact[2]
    if x is None:
        return False
    p = peel(x, through_try=False)
    if p.k == "call" and not (p.q in MIN_CALLS or p.rq in MIN_CALLS) and facts is not None:
        p = peel(expand_local_call(facts, p), through_try=False)       # `clamp_pending(self.owed, o.len())` = `owed.min(len)`
    if not (p.k == "call" and (p.q in MIN_CALLS or p.rq in MIN_CALLS)):
        return False
    return all(_positive(body, bb, a, lbs) for a in p.args)


def rule_r9(facts, col, rule_id="C09.R9"):
    """a wait is supported by a look at the awaited stream: where work() answers WaitForStream(&self.W, _) on a path on which
    nothing at all has happened (no consume/produce/pop, no state change, not even one whose amount may be zero), some branch
    condition on that path has examined what W offers (its window's len()/is_empty(), a pop()/peek_size() result, a helper
    summarising those).  A wait answered without looking is satisfied whenever W happens to hold the amount - the runner
    calls work() again in the same state and gets the same answer."""
    wep = window_empty_predicates(facts)
    for body in facts.impl_bodies(BLOCK_TRAIT, "work"):
        cands = []
        for bb, verdict, e in effects.verdict_defs(body):
            if verdict == "WaitForStream" and e is not None and len(e.args) >= 2:
                cands.append((bb, wait_target(e)))
        if not cands:
            continue
        prog = set(effects.Effects(facts, body).progress)
        with restricted_paths(body, prog):
            r = reach_avoiding(body, 0, prog)
            for bb, tgt in cands:
                key = "%s:wait(%s)@%s" % (body.q, tgt, _guard_desc(body, bb))
                if bb not in r:
                    col.ok(rule_id, key, body.where(bb), "reached only after a possible effect")
                    continue
                if tgt is None:
                    col.silent(rule_id, key, body.where(bb), "awaited stream is not a plain field of self")
                    continue
                fs = facts_at(body, bb)
                if any(_mentions_stream(part, tgt, wep) for f in fs for part in f[1:] if hasattr(part, "k")):
                    col.ok(rule_id, key, body.where(bb), "a branch condition on the effect-free path examines self.%s" % tgt)
                    continue
                lbs = window_lower_bounds(body, bb, facts)
                if any(_min_cannot_be_zero(body, bb, f, lbs, facts) for f in fs):
                    col.ok(rule_id, key, body.where(bb), "dead branch: min(..) == 0 with every operand established >= 1")
                    continue
                col.bad(rule_id, key, body.where(bb),
                        "work() answers WaitForStream(self.%s, _) on a path on which it has done nothing and no branch condition has "
                        "looked at what self.%s offers: whenever that stream already holds the amount the wait returns at once and "
                        "work() answers the same again, forever" % (tgt, tgt), {})


def _window_root(e):
    """the acquisition (read_buf()/write_buf() call) a window expression comes from, looking through slice()/iter()/refs"""
    p = peel(e)
    n = 0
    while p is not None and n < 12:
        n += 1
        if p.k == "call" and (p.q in READ_BUF or p.q in WRITE_BUF):
            return p
        if p.k == "call" and p.args and (p.q or "").split("::")[-1] in ("slice", "iter", "deref", "deref_mut", "as_ref", "as_mut"):
            p = peel(p.args[0])
            continue
        if p.k in ("ref", "deref", "field", "downcast", "cast"):
            p = peel(p.a)
            continue
        return None
    return None


def _len_root(e):
    """e is len() of a window (or of its slice): the acquisition call it belongs to"""
    p = peel(e, through_try=False)
    if p.k == "call" and p.args and (p.q or "").split("::")[-1] == "len":
        return _window_root(p.args[0])
    return None


def _simple_factor(e):
    p = peel(e, through_try=False)
    return p.k == "const" or (p.k == "call" and not p.args) or p.k in ("param", "field", "deref", "cast")


def _cancels(c, d):
    cc, dc = _const_int(c), _const_int(d)
    return same_expr(c, d) or (cc is not None and dc is not None and 1 <= cc <= dc)


def _upper_bounds(e, out, depth=0, divs=(), mults=()):
    """(u, mults) pairs with e <= u * prod(mults) by construction (unsigned arithmetic): through min, a - b, a / c, a & m,
    a * c; a factor and a divisor that cancel on the way down are dropped (`min(n, w.len() * 2) / 2` is bounded by w.len(),
    `min(i.len(), w.len() / ss) * ss` too)"""
    p = peel(e, through_try=False)
    if depth > 8:
        out.append((p, mults))
        return
    if p.k == "call" and (p.q in MIN_CALLS or p.rq in MIN_CALLS):
        for a in p.args:
            _upper_bounds(a, out, depth + 1, divs, mults)
        return
    if p.k == "bin" and p.op in ("Sub", "BitAnd", "Shr"):
        _upper_bounds(p.a, out, depth + 1, divs, mults)
        return
    if p.k == "bin" and p.op == "Div":
        for m in mults:
            if _cancels(m, p.b):
                _upper_bounds(p.a, out, depth + 1, divs, tuple(y for y in mults if y is not m))
                return
        _upper_bounds(p.a, out, depth + 1, divs + (p.b,), mults)
        return
    if p.k == "bin" and p.op == "Mul":
        for x, c in ((p.a, p.b), (p.b, p.a)):
            for d in divs:
                if _cancels(c, d):
                    _upper_bounds(x, out, depth + 1, tuple(y for y in divs if y is not d), mults)
                    return
        for x, c in ((p.a, p.b), (p.b, p.a)):
            if _simple_factor(c) and not _simple_factor(x) and _const_int(c) != 0:
                _upper_bounds(x, out, depth + 1, divs, mults if _const_int(c) == 1 else mults + (c,))
                return
    out.append((p, mults))


def _exceeds(e, root, depth=0):
    """affirmative: e is built to be possibly LARGER than len(window root): max(.., len, ..), len + x, len * x"""
    p = peel(e, through_try=False)
    if depth > 6:
        return None
    if p.k == "call" and (p.q in MAX_CALLS or p.rq in MAX_CALLS):
        if any(same_expr(_len_root(a), root) for a in p.args if _len_root(a) is not None):
            return "max(..) with the window's own length as one operand"
    if p.k == "bin" and p.op in ("Add", "Mul"):
        for x, y in ((p.a, p.b), (p.b, p.a)):
            lr = _len_root(x)
            cy = _const_int(y)
            if lr is not None and same_expr(lr, root) and not (cy is not None and ((p.op == "Add" and cy == 0) or (p.op == "Mul" and cy <= 1))):
                return "the window's own length %s something" % ("plus" if p.op == "Add" else "times")
    return None


def rule_r10(facts, col, rule_id="C09.R10"):
    """a work call consumes no more than its read window offered and commits no more than its write window offered: the
    count of every consume()/produce() is bounded by the length of THAT window - by construction (min(.., w.len(), ..),
    w.len() - k, w.len() / c, ..) or by a guard on the path.  Reported only on affirmative evidence: the count is clamped to
    the length of a different window but not to this one's, or is built to exceed it (max(..), len + x, len * x); counts the
    analysis cannot relate to any window (loop counters, lengths of the block's own buffers) are listed as not decided."""
    for body0 in facts.impl_bodies(BLOCK_TRAIT, "work"):
        if body0.from_derive:
            continue
        body = effects.work_view(facts, body0, methods=True)
        k = 0
        for bb, t in body.calls():
            qs = Body.callee_qs(t)
            if not (effects.CONSUME in qs or effects.PRODUCE in qs) or len(t["args"]) < 2:
                continue
            kind = "consume" if effects.CONSUME in qs else "produce"
            key = "%s:%s#%d" % (body0.q, kind, k)
            k += 1
            root = _window_root(body.operand_expr(t["args"][0]))
            cnt = body.operand_expr(t["args"][1])
            if root is None:
                col.silent(rule_id, key, body.where(bb), "window origin not visible")
                continue
            if _const_int(cnt) == 0:
                col.ok(rule_id, key, body.where(bb), "count 0")
                continue
            ubs = []
            _upper_bounds(cnt, ubs)
            lens = [(u, m, _len_root(u)) for u, m in ubs]
            if any(r is not None and same_expr(r, root) and not m for u, m, r in lens):
                col.ok(rule_id, key, body.where(bb), "count bounded by this window's len() by construction")
                continue
            lnq = "circular_buffer::BufferReader::len" if kind == "consume" else "circular_buffer::BufferWriter::len"
            mine = E("call", q=lnq, args=[E("ref", a=peel(body.operand_expr(t["args"][0])))])
            try:
                guarded = known_ge(body, bb, mine, cnt) or any(known_ge(body, bb, mine, u) for u, m in ubs if not m)
            except Exception:
                guarded = False
            if guarded:
                col.ok(rule_id, key, body.where(bb), "count bounded by this window's len() by a guard on the path")
                continue
            why = None
            for u, m in ubs:
                why = why or _exceeds(u, root)
            if why is None and lens and all(r is not None for u, m, r in lens):
                own = [1 for u, m, r in lens if same_expr(r, root)]
                others = sorted({(window_of(r) or ("?",))[0] for u, m, r in lens if not same_expr(r, root)})
                if own:
                    why = "its only bound by this window is the window's length times a factor (nothing divides it back)"
                else:
                    why = "clamped only to the length of another window (%s)" % ", ".join(others)
            if why:
                col.bad(rule_id, key, body.where(bb),
                        "%s() is called with a count that is not bounded by the length of the window it is called on: %s - "
                        "the stream refuses the call (panic) as soon as the other quantity is the larger one, which depends only on how "
                        "much data / space happened to be there" % (kind, why), {})
            else:
                col.silent(rule_id, key, body.where(bb), "count not related to any window by construction (%s)" % show(peel(cnt, through_try=False))[:60])


WIN_SLICES = ("circular_buffer::BufferWriter::slice", "circular_buffer::BufferReader::slice")


def _slice_window_expr(ln):
    """for the length operand of a bounds check: the window expression W when the indexed slice is `W.slice()`"""
    p = peel(ln, through_try=False)
    if p.k in ("un", "ptrmeta") or (p.k == "call" and (p.q or "").split("::")[-1] == "len"):
        inner = p.a if p.a is not None else (p.args[0] if p.args else None)
    else:
        inner = None
        for x in walk(p):
            if x.k == "call" and x.q in WIN_SLICES:
                inner = x
                break
    q = peel(inner) if inner is not None else None
    n = 0
    while q is not None and n < 6:
        n += 1
        if q.k == "call" and q.q in WIN_SLICES and q.args:
            w = q.args[0]
            while w is not None and peel(w, through_try=False).k in ("ref", "deref"):
                w = peel(w, through_try=False).a
            return peel(w, through_try=False)
        if q.k in ("ref", "deref"):
            q = peel(q.a)
            continue
        break
    return None


def _len_bound_of(body, e, w, depth=0, at=None):
    """e is a value <= len(window w) by construction: len(w) itself (window or slice length), a local holding it, or a min(..)
    one of whose operands is such a value"""
    p = peel(e, through_try=False)
    if depth > 4 or p is None:
        return False
    if p.k == "call" and (p.q or "").split("::")[-1] == "len" and p.args:
        a = p.args[0]
        while a is not None and peel(a, through_try=False).k in ("ref", "deref"):
            a = peel(a, through_try=False).a
        a = peel(a, through_try=False)
        if a is not None and a.k == "call" and a.q in WIN_SLICES and a.args:
            a = a.args[0]
            while a is not None and peel(a, through_try=False).k in ("ref", "deref"):
                a = peel(a, through_try=False).a
            a = peel(a, through_try=False)
        return same_expr(a, w)
    if p.k == "call" and (p.q in MIN_CALLS or p.rq in MIN_CALLS):
        return any(_len_bound_of(body, a, w, depth + 1, at) for a in p.args)
    if p.k == "multi" and p.alts:
        # a bound chosen per case (`match clock { Some(c) => min(o.len(), c.len()), None => o.len() }`): the cases that can be
        # current where the access happens (the same discriminant is matched again around it)
        alts = consistent_alts(body, p, at) if at is not None else None
        alts = alts if alts else p.alts
        return all(_len_bound_of(body, a, w, depth + 1, at) for a in alts)
    return False


def _root_of(e):
    """what a window expression hangs on: the acquisition call (read_buf/write_buf) or the local that holds it (an Option of a
    window), looking through fields, variants, references, slice() and the Option accessors"""
    p = peel(e, through_try=False) if e is not None else None
    n = 0
    while p is not None and n < 16:
        n += 1
        if p.k in ("local", "multi"):
            return p
        if p.k == "call" and (p.q in READ_BUF or p.q in WRITE_BUF):
            return p
        if p.k in ("field", "downcast", "ref", "deref", "cast") and p.a is not None:
            p = peel(p.a, through_try=False)
            continue
        if p.k == "call" and p.args and (p.q or "").split("::")[-1] in ("slice", "iter", "as_mut", "as_ref", "unwrap", "deref", "deref_mut", "as_deref", "as_deref_mut",
                                                                         "len", "is_empty", "branch", "expect"):
            p = peel(p.args[0], through_try=False)
            continue
        if p.k == "agg" and p.args and p.variant in ("Some", "Ok"):
            p = peel(p.args[0], through_try=False)
            continue
        if p.k == "call":
            return p          # whatever produced the (optional) window: `self.out_clock.as_mut().map(|x| x.write_buf())`
        return None
    return None


def _same_root(a, b, depth=0):
    if a.k in ("local", "multi") and b.k in ("local", "multi"):
        if a.local == b.local:
            return True
    if depth < 2:
        # a value chosen between alternatives hangs on whatever each alternative hangs on (`match .. { Some(Ok(x)) => Some(x), .. }`)
        for x, y in ((a, b), (b, a)):
            if x.k == "multi" and x.alts:
                for alt in x.alts:
                    r = _root_of(alt)
                    if r is not None and r is not x and _same_root(r, y, depth + 1):
                        return True
    if a.k in ("local", "multi") or b.k in ("local", "multi"):
        return False
    return same_expr(a, b)


def rule_r11(facts, col, rule_id="C09.R11"):
    """a counter used as index into a stream window stays inside it: where work() stores to / reads from `W.slice()[k]` with k a
    counter (initialised with a constant, advanced by `k += 1`), (a) W is established non-empty where the access happens -
    so the first access is inside - and (b) after every increment, every path back to the access passes a test `k != L` / `k < L`
    against a bound L that is the window's own length (or a `min` containing it).  Otherwise the access runs past the window
    as soon as this window is the short one - a panic that depends only on how much room/data the peer happened to leave."""
    n = 0
    for body in facts.impl_bodies(BLOCK_TRAIT, "work"):
        if body.from_derive:
            continue
        for bb in sorted(body.reachable(0)):
            t = body.term(bb)
            if t["k"] != "assert" or t["msg"]["kind"] != "BoundsCheck":
                continue
            ln, ix = body.operand_expr(t["msg"]["a"]), body.operand_expr(t["msg"]["b"])
            w = _slice_window_expr(ln)
            if w is None:
                continue
            pi = peel(ix, through_try=False)
            key = "%s:index#%d" % (body.q, n)
            n += 1
            if pi.k != "multi" or not pi.alts:
                col.silent(rule_id, key, body.where(bb), "index is not a counter (range-drawn / computed): left to C15's index rules")
                continue
            ds = body.defs().get(pi.local, [])
            incs, inits, other = [], [], []
            for (dbb, si, kind, payload), alt in zip(ds, pi.alts):
                pa = peel(alt, through_try=False)
                if pa.k == "const" and isinstance(pa.v, int):
                    inits.append((dbb, pa.v))
                elif pa.k == "bin" and pa.op == "Add" and peel(pa.a, through_try=False).k in ("multi", "local") and peel(pa.a, through_try=False).local == pi.local \
                        and _const_int(pa.b) == 1:
                    incs.append(dbb)
                else:
                    other.append(dbb)
            if other or len(inits) != 1 or inits[0][1] != 0 or not incs:
                col.silent(rule_id, key, body.where(bb), "index is not a 0-based +1 counter")
                continue
            # (a) the window is non-empty at the access
            one = E("const", v=1, ty="usize")
            wkind = "circular_buffer::BufferWriter::len"
            mine = E("call", q=wkind, args=[E("ref", a=w)])
            nonempty = False
            wf = window_of(w)
            if wf and window_lower_bounds(body, bb, facts).get(wf[0], 0) >= 1:
                nonempty = True
            if not nonempty:
                for f in facts_at(body, bb):
                    if f[0] in ("Bool", "BoolVal") and f[2] is False and f[1] is not None and (getattr(f[1], "q", None) or "").split("::")[-1] == "is_empty" and f[1].args:
                        a = f[1].args[0]
                        while a is not None and peel(a, through_try=False).k in ("ref", "deref"):
                            a = peel(a, through_try=False).a
                        if same_expr(peel(a, through_try=False), w):
                            nonempty = True
                    if f[0] in ("Ne", "Gt", "IntNe") and len(f) > 2:
                        xs = [f[1]] + ([f[2]] if hasattr(f[2], "k") else [])
                        zero_other = (f[0] == "IntNe" and f[2] == 0) or any(_is_zero(x) for x in xs if hasattr(x, "k"))
                        if zero_other and any(_len_bound_of(body, x, w, 0, bb) for x in xs if hasattr(x, "k") and not _is_zero(x)):
                            # `L != 0` / `L > 0` with L <= len(W): then len(W) >= 1
                            nonempty = True
            # (b) every way back from an increment passes `k != L` / `k < L`
            good_edges = set()
            for edge, f in edge_facts(body):
                if f[0] in ("Ne", "Lt") and hasattr(f[1], "k") and hasattr(f[2], "k"):
                    a, b = peel(f[1], through_try=False), peel(f[2], through_try=False)
                    for x, y in ((a, b), (b, a)):
                        if f[0] == "Lt" and x is not a:
                            continue
                        if x.k == "multi" and x.local == pi.local and _len_bound_of(body, y, w, 0, bb):
                            good_edges.add(edge)
            defset = {d[0] for d in ds}
            unguarded = []
            for dbb in incs:
                start = dbb
                r = reachable_without_edges(body, start, good_edges, avoid=defset - {dbb})
                if bb in r and bb != dbb or (bb == dbb):
                    unguarded.append(dbb)
            if nonempty and not unguarded:
                col.ok(rule_id, key, body.where(bb), "window non-empty at the access; every increment is followed by a test against the window's length")
                continue
            # Reported on affirmative evidence only (a refactored spelling of a correct guard must not alarm):
            # (1) the length of this window is never consulted at all, or (2) the counter IS compared with a bound that contains
            # this window's length (the author thought of it) but nothing rules out that bound being 0
            consulted = False
            rw = _root_of(w)
            for cbb, ct in body.calls():
                nm = ct["f"].get("name") or ""
                for a in ct["args"]:
                    ra = _root_of(body.operand_expr(a))
                    if ra is None or rw is None or not _same_root(ra, rw):
                        continue
                    if nm in ("len", "is_empty"):
                        consulted = True
                    elif nm in ("map_or", "map_or_else", "and_then", "is_some_and", "is_none_or", "filter") or (nm == "map" and cbb != getattr(rw, "bb", None)):
                        consulted = True      # the Option holding the window handed to a closure (`clock.as_ref().map_or(.., |c| c.len())`)
            counter_tested = False
            for edge, f in edge_facts(body):
                for x in f[1:]:
                    if hasattr(x, "k") and any(y.k in ("multi", "local") and y.local == pi.local for y in walk(x)):
                        counter_tested = True
            # (3) some way back from an increment to the access passes no branch condition that mentions the counter at all
            tests = {edge[0] for edge, f in edge_facts(body)
                     if any(hasattr(x, "k") and any(y.k in ("multi", "local") and y.local == pi.local for y in walk(x)) for x in f[1:])}
            blind = []
            for dbb in incs:
                r = body.reachable(dbb, avoid=(tests | (defset - {dbb})) - {dbb})
                if bb in r and dbb not in tests:
                    blind.append(dbb)
            if blind and consulted:
                col.bad(rule_id, key, body.where(bb),
                        "after the counter `%s` is advanced (%s) the access can be reached again without passing ANY test that mentions the "
                        "counter (an inner loop that runs on another condition): nothing keeps it below the window's length there, and the "
                        "access runs past the window when this window is the short one" % (show(pi)[:20], body.where(blind[0])), {})
                continue
            if consulted and nonempty and not counter_tested:
                col.bad(rule_id, key, body.where(bb),
                        "the counter `%s` that indexes this window is advanced in the loop but never tested by any branch condition of "
                        "work(): nothing keeps it below the window's length, so the access runs past the window whenever more steps are "
                        "taken than it has room for" % show(pi)[:20], {})
                continue
            if not consulted:
                col.bad(rule_id, key, body.where(bb),
                        "the window indexed here with the counter `%s` is never asked for its length: the counter is bounded by other "
                        "windows only, so as soon as this one is the shorter the access runs past it and work() panics - only because of "
                        "how much room / data the peer happened to leave" % show(pi)[:20], {})
            elif not nonempty and not unguarded:
                col.bad(rule_id, key, body.where(bb),
                        "the counter `%s` is kept below a bound that contains this window's length, but nothing rules out that bound being 0 "
                        "(the window is not established non-empty on this path): with this stream full the very first access is outside "
                        "the window and work() panics" % show(pi)[:20], {})
            else:
                col.silent(rule_id, key, body.where(bb), "window length is consulted; the guard's shape is not one the rule can follow")
    return n


# a body that raises an alarm as compiled is judged again on its work view (effects.view_fallback)
rule_r2 = effects.view_fallback(rule_r2)
rule_r3 = effects.view_fallback(rule_r3, trust_view=True, site_retry=True)
rule_r4 = effects.view_fallback(rule_r4, trust_view=True, site_retry=True)
rule_r5 = effects.view_fallback(rule_r5)
rule_r6 = effects.view_fallback(rule_r6)
rule_r7 = effects.view_fallback(rule_r7)
rule_r9 = effects.view_fallback(rule_r9)
rule_r11 = effects.view_fallback(rule_r11)

def run(ctx):
    facts = ctx.facts("default")
    for w in WINDOW_TYPES:
        ctx.anchor("C09", w in facts.adts, "window type %s" % w)
    rule_r1(facts, ctx)
    rule_r2(facts, ctx)
    rule_r3(facts, ctx)
    rule_r4(facts, ctx)
    rule_r6(facts, ctx)
    ctx.floor("C09.R6", 25, "WaitForStream-on-output verdicts of blocks that consume")
    rule_r8(facts, ctx)
    ctx.floor("C09.R8", 1, "wrapper blocks (FftFilterFloat) - or the statement that none answers WaitForStream")
    rule_r7(facts, ctx)
    ctx.floor("C09.R7", 40, "WaitForStream verdicts with a constant amount in hand-written work() bodies")
    rule_r9(facts, ctx)
    ctx.floor("C09.R9", 40, "WaitForStream verdicts of hand-written work() bodies (effect-free paths need a look at the awaited stream)")
    rule_r11(facts, ctx)
    ctx.floor("C09.R11", 1, "counter-indexed accesses to stream windows proved inside (5 today: RationalResampler, SymbolSync x2, ZeroCrossing x2)")
    rule_r10(facts, ctx)
    ctx.floor("C09.R10", 30, "consume()/produce() sites of hand-written work() bodies whose count is bounded by their own window")
    rule_r5(facts, ctx)
    ctx.floor("C09.R5", 60, "WaitForStream verdicts with a visible amount")
    ctx.floor("C09.R4", 30, "WaitForStream sites whose controlling test is a plain short-window test on the awaited stream")
    from .. import controls
    controls.expect(ctx, "C09.R1", rule_r1, "Hoarder.cached", "struct field holding a BufferWriter")
    controls.expect(ctx, "C09.R2", rule_r2, "IdleAgain", "Again on full output without progress")
    controls.expect(ctx, "C09.R3", rule_r3, "WrongWait", "waits on src when dst is empty")
    controls.expect(ctx, "C09.R4", rule_r4, "WrongWait", "waits for `need` after testing `need + 3`")
    ctx.floor("C09.R1", 200, "ADT fields of the crate")
    ctx.floor("C09.R2", 50, "Again return sites / work bodies (56 work bodies)")
    ctx.floor("C09.R3", 40, "WaitForStream return sites with a plain short-window controlling test")
    ctx.explain("C09: (R1) BufferReader/BufferWriter occur in no field type, static, escaping closure capture or leak call, "
                "which with RAII is equivalent to 'holds no window after work() returns'; (R2) no CFG path from entry to "
                "`return Ok(Again)` avoids every possible stream or state effect (progress over-approximated, so a reported "
                "path can change nothing observable); (R3) where the nearest controlling test of a `WaitForStream(&self.F,_)` "
                "return is directly 'window of self.G is empty/short', G == F. 'Consumes/commits no more than offered' is "
                "enforced at run time by the guards C01.R1 checks.")
    ctx.assume("blocks move stream data only through consume/produce/push/pop (C03.R1)")
