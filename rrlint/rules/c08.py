"""C08 — every block is a pure stream function: output independent of chunking (partial)."""
from ..common import *
from ..mir import peel, walk, show, same_expr, Body
from .. import effects
from . import c19, c09

FILL_SLICE = "circular_buffer::BufferWriter::fill_from_slice"
COPY_FROM_SLICE = {"core::slice::<impl [T]>::copy_from_slice", "[T]::copy_from_slice", "core::slice::<impl [T]>::clone_from_slice",
                   "[T]::clone_from_slice"}


def _is_unbounded_reader_slice(e):
    """e is (a reference to) the WHOLE slice of a read window"""
    p = peel(e)
    return p.k == "call" and p.q in ("circular_buffer::BufferReader::slice",) and c09.window_of(p.args[0]) is not None


def _is_whole_writer_slice(e):
    p = peel(e)
    return p.k == "call" and p.q == "circular_buffer::BufferWriter::slice"


def rule_r2(facts, col):
    """bounded window copy: a whole read-window slice is never copied into a write window"""
    for body in facts.bodies:
        for bb, t in body.calls():
            q = t["f"].get("q") or ""
            name = t["f"].get("name")
            if q == FILL_SLICE:
                src = body.operand_expr(t["args"][1])
                key = "%s:fill_from_slice" % body.q
                if _is_unbounded_reader_slice(src):
                    col.bad("C08.R2", key, body.where(bb),
                            "the whole read window is copied into the write window (fill_from_slice(input.slice())): with more input "
                            "than free output space this panics instead of processing what fits", {})
                else:
                    col.ok("C08.R2", key, body.where(bb), "source is a bounded sub-slice / owned data")
            elif name in ("copy_from_slice", "clone_from_slice") and len(t["args"]) == 2:
                dst = body.operand_expr(t["args"][0])
                src = body.operand_expr(t["args"][1])
                if not any(x.k == "call" and x.q == "circular_buffer::BufferWriter::slice" for x in walk(dst)):
                    continue
                key = "%s:%s" % (body.q, name)
                if _is_unbounded_reader_slice(src) and _is_whole_writer_slice(dst):
                    col.bad("C08.R2", key, body.where(bb), "whole read window copied onto the whole write window: lengths differ "
                            "whenever input and output space differ (panic)", {})
                elif _is_unbounded_reader_slice(src):
                    col.bad("C08.R2", key, body.where(bb), "the whole read window is the source of a copy into a (sub-slice of the) write "
                            "window: panics when the input window is longer", {})
                else:
                    col.ok("C08.R2", key, body.where(bb), "both sides are explicit sub-slices")


def _is_const(e, v):
    p = peel(e, through_try=False)
    return p.k == "const" and p.v == v and not isinstance(p.v, bool)


def multiple_of(body, bb, e, c, depth=0):
    """Is expression e provably a multiple of c (c = constant or structurally the same expression)?"""
    e = peel(e, through_try=False)
    if depth > 8 or e is None:
        return False
    _ci = c09._const_int            # also reads `size_of::<i16>()` as the constant 2
    same_c = lambda x: (_ci(x) is not None and _ci(x) == _ci(c)) or same_expr(x, c)
    cv = _ci(c)
    if e.k == "const" and cv:
        return isinstance(e.v, int) and e.v % cv == 0
    if e.k == "bin":
        if e.op == "Mul" and (same_c(e.a) or same_c(e.b)):
            return True
        if e.op == "Sub":
            r = peel(e.b, through_try=False)
            if r.k == "bin" and r.op == "Rem" and same_expr(r.a, e.a) and same_c(r.b):
                return True
            if r.k == "bin" and r.op == "BitAnd" and same_expr(r.a, e.a) and cv and peel(r.b, through_try=False).k == "const" \
                    and peel(r.b, through_try=False).v == cv - 1 and cv & (cv - 1) == 0:
                return True
        if e.op == "BitAnd" and cv and cv & (cv - 1) == 0:
            m = peel(e.b, through_try=False)
            if m.k == "un" and m.op == "Not":
                mm = peel(m.a, through_try=False)
                if mm.k == "const" and mm.v == cv - 1:
                    return True
    if e.k == "call" and (e.q in MIN_CALLS or e.rq in MIN_CALLS or e.q in MAX_CALLS or e.rq in MAX_CALLS):
        return all(multiple_of(body, bb, x, c, depth + 1) for x in e.args)
    for f in facts_at(body, bb):
        if f[0] == "Eq":
            for x, y in ((f[1], f[2]), (f[2], f[1])):
                px, py = peel(x, through_try=False), peel(y, through_try=False)
                if px.k == "bin" and px.op == "Rem" and same_expr(px.a, e) and same_c(px.b) and py.k == "const" and py.v == 0:
                    return True
    return False


def rule_r3(facts, col):
    """rate consistency: when a block commits produce(a / c) for consume(a), a is a multiple of c
    (otherwise the fractional input is dropped and the output depends on how the input was chunked)"""
    for body in facts.impl_bodies(BLOCK_TRAIT, "work"):
        if body.from_derive:
            continue
        body = effects.work_view(facts, body, methods=True)     # the count may be computed by a method of the block
        cons = [(bb, t) for bb, t in body.calls_to(effects.CONSUME)]
        prods = [(bb, t) for bb, t in body.calls_to(effects.PRODUCE)]
        for cb, ct in cons:
            a = body.operand_expr(ct["args"][1])
            for pb, pt in prods:
                b = peel(body.operand_expr(pt["args"][1]), through_try=False)
                if not (b.k == "bin" and b.op == "Div" and same_expr(b.a, a)):
                    continue
                if not (pb in body.reachable(cb) or cb in body.reachable(pb)):
                    continue
                key = "%s:consume/produce" % body.q
                if multiple_of(body, cb, a, b.b):
                    col.ok("C08.R3", key, body.where(cb), "consume(a), produce(a / c) with a established a multiple of c")
                else:
                    col.bad("C08.R3", key, body.where(cb),
                            "work() consumes `a` input items and produces `a / %s` outputs, but nothing makes `a` a multiple of that "
                            "ratio: the left-over input of an odd-sized piece is consumed without being decoded, so the output depends "
                            "on how the input was chunked (and every later sample is misaligned)" % show(b.b)[:30], {})


WRITE_BUF_Q = "stream::WriteStream::write_buf"


def _wb_of(e):
    for x in walk(e):
        if x.k == "call" and x.q == WRITE_BUF_Q and getattr(x, "bb", None) is not None:
            return x.bb
    return None


def rule_r4(facts, col):
    """what is committed was written: every produce(n) with a possibly non-zero n is reachable from (and, outside loops,
    dominated by) a write access to the same write window (slice()/fill_from_*())"""
    for body in facts.impl_bodies(BLOCK_TRAIT, "work"):
        writes = {}
        for bb, t in body.calls():
            q = t["f"].get("q") or ""
            if q.startswith("circular_buffer::BufferWriter::") and t["f"].get("name") in ("slice", "fill_from_slice", "fill_from_iter"):
                w = _wb_of(body.operand_expr(t["args"][0]))
                if w is not None:
                    writes.setdefault(w, []).append(bb)
        k = 0
        for bb, t in body.calls_to(effects.PRODUCE):
            w = _wb_of(body.operand_expr(t["args"][0]))
            n = peel(body.operand_expr(t["args"][1]), through_try=False)
            key = "%s:produce#%d" % (body.q, k)
            k += 1
            if n.k == "const" and n.v == 0:
                continue
            if w is None:
                col.silent("C08.R4", key, body.where(bb), "window origin not visible")
                continue
            ws = writes.get(w, [])
            if any(body.dominates(x, bb) for x in ws):
                col.ok("C08.R4", key, body.where(bb), "commit dominated by a write into the same window")
            elif any(bb in body.reachable(x) for x in ws):
                col.ok("C08.R4", key, body.where(bb), "commit reachable from a write into the same window (write in a loop)")
            else:
                col.bad("C08.R4", key, body.where(bb),
                        "produce() commits samples of a write window that work() never wrote into on any path to this commit: the "
                        "reader is handed whatever the ring held before (stale samples of an earlier lap)", {})


def _self_state_writes(body):
    """blocks with an assignment into a field of *self (carried state)"""
    out = {}
    for bb in sorted(body.reachable(0)):
        for st in body.blocks[bb]["stmts"]:
            if st["k"] == "assign" and st["dst"]["l"] == 1 and st["dst"]["p"] and st["dst"]["p"][0] == "*":
                pj = st["dst"]["p"]
                if len(pj) >= 2 and isinstance(pj[1], dict):
                    out.setdefault(bb, set()).add(pj[1].get("n"))
    return out


def rule_r8(facts, col):
    """what was written into a write window is committed: every fill_from_slice()/fill_from_iter() is followed, on every path
    to a non-error return, by a produce() on the same window (a block that drains its own buffers into the window and then
    forgets the commit loses those samples)"""
    for body in facts.impl_bodies(BLOCK_TRAIT, "work"):
        prods = {}
        for bb, t in body.calls_to(effects.PRODUCE):
            w = _wb_of(body.operand_expr(t["args"][0]))
            if w is not None:
                prods.setdefault(w, set()).add(bb)
        k = 0
        for bb, t in body.calls():
            q = t["f"].get("q") or ""
            if not (q.startswith("circular_buffer::BufferWriter::") and t["f"].get("name") in ("fill_from_slice", "fill_from_iter")):
                continue
            w = _wb_of(body.operand_expr(t["args"][0]))
            key = "%s:fill#%d" % (body.q, k)
            k += 1
            if w is None:
                col.silent("C08.R8", key, body.where(bb), "window origin not visible")
                continue
            start = body.term(bb).get("t")
            if start is None or start in prods.get(w, set()):
                r = set()
            else:
                r = body.reachable(start, avoid=prods.get(w, set()))
            lost = [vb for vb, verdict, e in effects.verdict_defs(body) if verdict != "Err" and vb in r]
            if lost:
                col.bad("C08.R8", key, body.where(bb),
                        "samples are written into the write window here but work() can return (%s) without committing them with "
                        "produce(): whatever was taken out of the block's own buffers / input for them is lost" % body.where(lost[0]), {})
            else:
                col.ok("C08.R8", key, body.where(bb), "every non-error path from the fill commits the window")


def rule_r5(facts, col):
    """a sample that has changed the block's carried state is counted as consumed: in a per-sample loop whose consume() count
    is a counter incremented in the loop, every path from the loop head through a write of self state to a loop exit also
    passes the increment (otherwise the next work() call processes the same sample again on top of its own effect)"""
    for body in facts.impl_bodies(BLOCK_TRAIT, "work"):
        if body.from_derive:
            continue
        for cb, ct in body.calls_to(effects.CONSUME):
            if len(ct["args"]) < 2:
                continue
            p = ct["args"][1].get("c") or ct["args"][1].get("m")
            if p is None or p["p"]:
                continue
            cl = p["l"]
            # follow one copy
            ds = body.defs().get(cl, [])
            if len(ds) == 1 and ds[0][2] == "rv" and ds[0][3]["k"] == "use":
                q = ds[0][3]["a"].get("c") or ds[0][3]["a"].get("m")
                if q is not None and not q["p"]:
                    cl = q["l"]
                    ds = body.defs().get(cl, [])
            incs = set()
            for dbb, si, kind, payload in ds:
                if kind != "rv":
                    continue
                rv = payload
                # `taken = taken + 1` is lowered to a checked add: tmp = AddWithOverflow(taken, 1); taken = move tmp.0
                e = peel(body.rvalue_expr(rv), through_try=False)
                if e.k == "bin" and e.op.startswith("Add") and any(peel(x, through_try=False).k in ("local", "multi") and
                                                                  getattr(peel(x, through_try=False), "local", None) == cl for x in (e.a, e.b)):
                    incs.add(dbb)
            if not incs:
                continue
            # the loop: SCC containing the increments
            comp = None
            for i_ in incs:
                comp = scc_of(body, i_) or comp
            if comp is None:
                continue
            nexts = [b for b, t in body.calls_to("std::iter::Iterator::next") if b in comp]
            if not nexts:
                continue
            head = nexts[0]
            writes = {b: f for b, f in _self_state_writes(body).items() if b in comp}
            key = "%s:consume(counter)" % body.q
            if not writes:
                col.ok("C08.R5", key, body.where(cb), "the per-sample loop writes no carried state")
                continue
            bad = None
            exits = {v for u in comp for v in body.succ[u] if v not in comp and body.term(v)["k"] != "unreachable"}
            for wb, flds in writes.items():
                if wb in incs:
                    continue
                # head -> wb without an increment, and wb -> loop exit without an increment and without starting a new iteration
                r1 = body.reachable(head, avoid=incs, edge_filter=lambda a_, b_: b_ in comp)
                if wb not in r1:
                    continue
                r2 = body.reachable(wb, avoid=incs | {head})
                if exits & r2:
                    bad = (wb, sorted(x for x in flds if x))
                    break
            if bad:
                col.bad("C08.R5", key, body.where(bad[0]),
                        "a sample can update self.%s and the loop can then be left (output full / break) without that sample being added "
                        "to the consume() count: the next work() call processes the same sample again on top of its own effect, so the "
                        "output depends on where the stream buffers happened to fill up" % ",".join(bad[1]), {})
            else:
                col.ok("C08.R5", key, body.where(cb), "every sample that touched carried state is counted before the loop can be left")


TAKERS = {"std::mem::swap", "std::mem::take", "std::mem::replace"}


def rule_r6(facts, col):
    """a state-machine field moved out of self (mem::take/replace/swap) is stored back before every non-error return: an
    early return in between silently resets the machine and drops what it had collected"""
    from ..mir import self_field_path
    for body in facts.impl_bodies(BLOCK_TRAIT, "work"):
        a = facts.adts.get(body.self_adt)
        if not a or a["kind"] != "struct":
            continue
        enum_fields = set()
        for f in a["variants"][0]["fields"]:
            ty = f["ty"]["s"].split("<")[0]
            fa = facts.adts.get(ty)
            if fa and fa["kind"] == "enum":
                enum_fields.add(f["name"])
        if not enum_fields:
            continue
        for bb, t in body.calls():
            if (t["f"].get("q") or "") not in TAKERS:
                continue
            fld = None
            for a_ in t["args"]:
                e = body.operand_expr(a_)
                if e.k == "ref" and e.mut:
                    fp = self_field_path(e.a)
                    if fp and len(fp) == 1 and fp[0] in enum_fields:
                        fld = fp[0]
            if not fld:
                continue
            key = "%s:%s moved out" % (body.q, fld)
            stores = set()
            for b2 in sorted(body.reachable(0)):
                for st in body.blocks[b2]["stmts"]:
                    if st["k"] == "assign" and st["dst"]["l"] == 1 and len(st["dst"]["p"]) == 2 and st["dst"]["p"][0] == "*" \
                            and isinstance(st["dst"]["p"][1], dict) and st["dst"]["p"][1].get("n") == fld:
                        stores.add(b2)
            r = body.reachable(body.term(bb).get("t", bb) if body.term(bb).get("t") is not None else bb, avoid=stores)
            lost = [vb for vb, verdict, e in effects.verdict_defs(body) if verdict not in ("Err",) and vb in r]
            if lost:
                col.bad("C08.R6", key, body.where(lost[0]),
                        "self.%s is moved out at %s and work() can return a non-error verdict without storing a state back: whatever "
                        "the machine had collected is dropped when that path is taken (e.g. a poll on an empty window), so the result "
                        "depends on how the input was chunked" % (fld, body.where(bb)), {})
            else:
                col.ok("C08.R6", key, body.where(bb), "stored back on every non-error path")


def rule_r7(facts, col):
    """carried state that is copied out of self and advanced is stored back: a `mut` local initialised from a self field (or
    the payload of the block's state enum), updated from its own value, whose values reach neither a store into self, nor a
    call, nor the return value, is an update of the block's state that is thrown away at the end of the call"""
    works = list(facts.impl_bodies(BLOCK_TRAIT, "work"))
    n_ok = 0
    for w in works:
        if w.from_derive:
            continue
        for body in [w] + adt_helpers(facts, w):
            defs = body.defs()
            for L, ds in defs.items():
                if L == 0 or L <= body.argc or len(ds) < 2:
                    continue
                if body.locals[L]["ty"] not in ("u8", "u16", "u32", "u64", "usize", "i8", "i16", "i32", "i64", "isize", "f32", "f64", "bool"):
                    continue
                init = None
                others = []
                for dbb, si, kind, payload in ds:
                    if kind != "rv":
                        continue
                    if payload["k"] == "use":
                        p = payload["a"].get("c") or payload["a"].get("m")
                        if p is not None and p["l"] == 1 and p["p"] and p["p"][0] == "*" and len(p["p"]) >= 2:
                            init = (dbb, [x.get("n") if isinstance(x, dict) else x for x in p["p"][1:]])
                            continue
                    others.append(payload)
                self_updates = 0
                if init is not None and others:
                    # values computed from L through temporaries
                    dep = {L}
                    ch = True
                    while ch:
                        ch = False
                        for bb in body.reachable(0):
                            for st in body.blocks[bb]["stmts"]:
                                if st["k"] != "assign" or st["dst"]["p"] or st["dst"]["l"] in dep or st["dst"]["l"] == L:
                                    continue
                                rv = st["rv"]
                                ops = [rv["a"]] if rv["k"] in ("use", "un", "cast") else [rv["a"], rv["b"]] if rv["k"] == "bin" else []
                                if any(((o.get("c") or o.get("m")) or {}).get("l") in dep for o in ops):
                                    dep.add(st["dst"]["l"])
                                    ch = True
                    for payload in others:
                        ops = [payload["a"]] if payload["k"] in ("use", "un", "cast") else [payload["a"], payload["b"]] if payload["k"] == "bin" else []
                        if any(((o.get("c") or o.get("m")) or {}).get("l") in dep for o in ops):
                            self_updates += 1
                if init is None or not self_updates:
                    continue
                # forward taint from L
                tainted = {L}
                changed = True
                sink = None
                while changed and sink is None:
                    changed = False
                    for bb in body.reachable(0):
                        blk = body.blocks[bb]
                        for st in blk["stmts"]:
                            if st["k"] != "assign":
                                continue
                            rv = st["rv"]
                            ops = []
                            if rv["k"] in ("use", "un", "cast", "repeat"):
                                ops = [rv["a"]]
                            elif rv["k"] == "bin":
                                ops = [rv["a"], rv["b"]]
                            elif rv["k"] == "agg":
                                ops = rv["ops"]
                            elif rv["k"] in ("ref", "rawptr") and rv["p"]["l"] in tainted:
                                ops = [{"c": {"l": rv["p"]["l"], "p": []}}]
                            src = any(((o.get("c") or o.get("m")) or {}).get("l") in tainted for o in ops)
                            if not src:
                                continue
                            if rv["k"] == "bin" and rv["op"] in ("Eq", "Ne", "Lt", "Le", "Gt", "Ge"):
                                continue      # a comparison reads the copy, it does not keep it
                            d = st["dst"]
                            if d["l"] == 1 and d["p"] and d["p"][0] == "*":
                                sink = "store into self"
                                break
                            if d["l"] == 0:
                                sink = "return value"
                                break
                            if d["l"] not in tainted:
                                tainted.add(d["l"])
                                changed = True
                        if sink:
                            break
                        t = blk["term"]
                        if t["k"] == "call" and any(((a.get("c") or a.get("m")) or {}).get("l") in tainted for a in t["args"]):
                            if not from_logging(t):
                                sink = "call argument"
                                break
                key = "%s:copy of self.%s" % (body.q, ".".join(str(x) for x in init[1] if x))
                if sink:
                    n_ok += 1
                    col.ok("C08.R7", key, body.where(init[0]), "advanced copy reaches a %s" % sink)
                else:
                    col.bad("C08.R7", key, body.where(init[0]),
                            "a copy of carried state (self.%s) is advanced inside this call but its final value is never stored back, "
                            "passed on or returned: the update is lost at the end of the call, so the block forgets what it had seen "
                            "whenever its input is split at this point" % ".".join(str(x) for x in init[1] if x), {})
    if not n_ok:
        col.ok("C08.R7", "no-advanced-copies", "", "no work() body advances a by-value copy of its carried state")


def _field_writes(facts, body, depth=1):
    """bb -> first-level fields of *self written there: an assignment into (*self).f.., a call with a `&mut (*self).f..`
    receiver, or a call handing `&mut *self` to a method of the same type that writes f (depth-limited)"""
    from ..mir import self_field_path
    out = {}
    for bb in sorted(body.reachable(0)):
        for st in body.blocks[bb]["stmts"]:
            if st["k"] == "assign" and st["dst"]["l"] == 1 and st["dst"]["p"] and st["dst"]["p"][0] == "*":
                pj = st["dst"]["p"]
                if len(pj) >= 2 and isinstance(pj[1], dict):
                    out.setdefault(bb, set()).add(pj[1].get("n"))
        t = body.term(bb)
        if t["k"] == "call" and t.get("args"):
            a0 = body.operand_expr(t["args"][0])
            if a0.k == "ref" and getattr(a0, "mut", False):
                fp = self_field_path(a0.a)
                if fp:
                    out.setdefault(bb, set()).add(fp[0])
                elif fp == [] and depth > 0 and body.self_adt:
                    for q in Body.callee_qs(t):
                        for hb in facts.by_q.get(q, []):
                            if hb.kind != "closure" and hb.self_adt == body.self_adt:
                                for fs in _field_writes(facts, hb, depth - 1).values():
                                    out.setdefault(bb, set()).update(fs)
    return out


def _self_fields_in(e):
    from ..mir import self_field_path
    out = set()
    for x in walk(e):
        if x.k == "field":
            fp = self_field_path(x)
            if fp:
                out.add(fp[0])
    return out


def _limit_resets(facts, body, region, grown):
    """(switch bb, write bb, field) for: a switch in `region` on an ordering comparison between state in `grown` and something
    that is not, one arm of which - and not the other - discards a `grown` field entirely (clear() / assignment of a constant)"""
    from ..mir import self_field_path
    out = []
    resets = {}
    for bb in sorted(region):
        for st in body.blocks[bb]["stmts"]:
            if st["k"] == "assign" and st["dst"]["l"] == 1 and st["dst"]["p"] and st["dst"]["p"][0] == "*":
                pj = st["dst"]["p"]
                if len(pj) == 2 and isinstance(pj[1], dict) and pj[1].get("n") in grown:
                    rv = peel(body.rvalue_expr(st["rv"]), through_try=False)
                    if rv.k == "const" or (rv.k == "agg" and not rv.args):
                        resets.setdefault(bb, set()).add(pj[1].get("n"))
        t = body.term(bb)
        if t["k"] == "call" and t.get("args") and t["f"].get("name") == "clear":
            a0 = body.operand_expr(t["args"][0])
            if a0.k == "ref":
                fp = self_field_path(a0.a)
                if fp and fp[0] in grown:
                    resets.setdefault(bb, set()).add(fp[0])
    if not resets:
        return out
    rets = set(body.return_blocks())
    for sb in sorted(region):
        if body.term(sb)["k"] != "switch":
            continue
        d = peel(switch_discr_expr(body, sb), through_try=False)
        if d.k == "un" and d.op == "Not":
            d = peel(d.a, through_try=False)
        if not (d.k == "bin" and d.op in ("Gt", "Ge", "Lt", "Le")):
            continue
        fa, fb_ = _self_fields_in(d.a) & grown, _self_fields_in(d.b) & grown
        if bool(fa) == bool(fb_):
            continue
        succs = [x for x in body.succ[sb]]
        for wb, fs in resets.items():
            arms_with = [x for x in succs if x == wb or wb in body.reachable(x)]
            bypass = [x for x in succs if x not in arms_with and (body.reachable(x) & rets)]
            if arms_with and bypass:
                for f in sorted(fs):
                    out.append((sb, wb, f))
    return out


def rule_r9(facts, col):
    """carried state is decided per sample, not per work() call: where work() grows carried state inside its per-sample loop,
    a limit on that state (ordering comparison against something the loop does not write) that discards it is not enforced
    after the loop - there it would run once per read window, so whether the state is dropped depends on where the windows
    happen to end"""
    for body in facts.impl_bodies(BLOCK_TRAIT, "work"):
        if body.from_derive:
            continue
        fw = _field_writes(facts, body)
        k = 0
        for c in sorted((c for c in sccs(body) if len(c) > 1), key=min):
            grown = set()
            for bb in c:
                grown |= fw.get(bb, set())
            if not grown:
                continue
            key = "%s:loop#%d" % (body.q, k)
            k += 1
            post = set()
            for u, v in loop_exits(body, c):
                post |= body.reachable(v)
            post -= c
            found = [(body, sb, wb, f) for sb, wb, f in _limit_resets(facts, body, post, grown)]
            # ... or in a method of the block called after the loop
            for bb in sorted(post):
                t = body.term(bb)
                if t["k"] == "call" and t.get("args"):
                    a0 = body.operand_expr(t["args"][0])
                    from ..mir import self_field_path
                    if a0.k == "ref" and self_field_path(a0.a) == [] and body.self_adt:
                        for q in Body.callee_qs(t):
                            for hb in facts.by_q.get(q, []):
                                if hb.kind != "closure" and hb.self_adt == body.self_adt:
                                    found += [(hb, sb, wb, f) for sb, wb, f in _limit_resets(facts, hb, hb.reachable(0), grown)]
            if found:
                hb, sb, wb, f = found[0]
                col.bad("C08.R9", key, hb.where(wb),
                        "self.%s is built up sample by sample in work()'s loop (%s), but the limit check at %s that discards it runs "
                        "after the loop, i.e. once per work() call: whether the state is dropped depends on where the read windows end, so "
                        "the same input delivered in different piece sizes gives different output" % (f, body.where(min(c)), hb.where(sb)), {})
            else:
                col.ok("C08.R9", key, body.where(min(c)),
                       "state written in the loop (%s): no per-call limit/discard of it after the loop" % ", ".join(sorted(grown)))


BULK_COPIES = {"extend_from_slice", "extend", "to_vec", "copy_from_slice", "clone_from_slice", "collect", "append", "to_owned", "from"}


def _container_ty(ty):
    return "Vec<" in ty or "[" in ty or "VecDeque<" in ty


def rule_r10(facts, col):
    """carried state is built from consumed samples only: where work() consumes only part of its read window, no BULK copy of
    the whole window (extend_from_slice(i), i.to_vec(), extend(i.iter().copied()) - anything not bounded by take(..) or a
    sub-slice) flows into a container that is then stored into the block's state.  Such state depends on samples the call did
    not consume: it changes with how much input happened to be waiting.  Per-sample loops that stop early are not bulk copies
    and are not matched (they keep processed == consumed by construction)."""
    from . import c09, c13
    from ..mir import self_field_path
    for body in facts.impl_bodies(BLOCK_TRAIT, "work"):
        if body.from_derive:
            continue
        wins = {}
        for cbb, ct in body.calls_to(effects.CONSUME):
            w = c09.window_of(body.operand_expr(ct["args"][0]))
            if w:
                whole = c09.len_of_window(body.operand_expr(ct["args"][1])) == w
                wins[w] = wins.get(w, True) and whole
        partial = {w for w, whole in wins.items() if not whole}
        if not partial:
            continue

        def unbounded_window_read(e, depth=0):
            """e denotes the whole read window (slice()/iter()/deref chains), with no take()/sub-slice in between"""
            p = peel(e)
            n = 0
            while p is not None and n < 10:
                n += 1
                if p.k == "call":
                    nm = (p.q or "").split("::")[-1]
                    if c09.window_of(p) in partial and nm in ("slice", "iter"):
                        return c09.window_of(p)
                    if nm in ("take", "skip", "step_by", "take_while", "filter", "index", "index_mut", "get", "split_at", "chunks_exact", "rev"):
                        if nm in ("index", "index_mut") and len(p.args) == 2 and (peel(p.args[1], through_try=False).adt or "") == "std::ops::RangeFull":
                            p = peel(p.args[0])
                            continue
                        return None
                    if nm in ("copied", "cloned", "iter", "into_iter", "deref", "as_ref", "borrow", "map", "enumerate") and p.args:
                        p = peel(p.args[0])
                        continue
                    return None
                if p.k in ("ref", "deref"):
                    p = peel(p.a)
                    continue
                return None
            return None

        flow = None
        k = 0
        for bb, t in body.calls():
            if t["f"].get("name") not in BULK_COPIES or not t["args"]:
                continue
            srcs = [a for a in t["args"][(1 if len(t["args"]) > 1 else 0):] if unbounded_window_read(body.operand_expr(a))]
            if not srcs:
                continue
            key = "%s:bulk-copy#%d" % (body.q, k)
            k += 1
            # destination container: the `&mut` receiver, or the call's result
            dests = set()
            if len(t["args"]) > 1:
                q = t["args"][0].get("m") or t["args"][0].get("c")
                if q is not None:
                    dests.add(q["l"])
            if t.get("dst") is not None and _container_ty(body.locals[t["dst"]["l"]]["ty"]):
                dests.add(t["dst"]["l"])
            if flow is None:
                flow = c13._content_flow(body, _container_ty)
            reach = set(dests)
            work = list(dests)
            while work:
                x = work.pop()
                for y in flow.get(x, ()):
                    if y not in reach:
                        reach.add(y)
                        work.append(y)
            hit = None
            # the copy itself may go straight into self state
            if len(t["args"]) > 1 and self_field_path(body.operand_expr(t["args"][0])):
                hit = bb
            for b2, t2 in body.calls():
                if hit is not None or b2 == bb or not t2["args"] or t2["f"].get("name") not in BULK_COPIES:
                    continue
                recv = body.operand_expr(t2["args"][0])
                if len(t2["args"]) > 1 and self_field_path(recv) is not None and any(
                        (a.get("m") or a.get("c") or {}).get("l") in reach for a in t2["args"][1:]):
                    hit = b2
            if hit is not None:
                col.bad("C08.R10", key, body.where(hit),
                        "the whole read window is copied in bulk (%s) and that copy reaches the block's carried state here, although "
                        "work() consumes only part of the window: the state now depends on samples that were not consumed, i.e. on how "
                        "much input happened to be waiting (the next call sees them again, on top of a history that already contains "
                        "them)" % body.where(bb), {})
            else:
                col.ok("C08.R10", key, body.where(bb), "bulk copy of the window does not reach carried state")
        if k == 0:
            col.ok("C08.R10", "%s:no-bulk-copy" % body.q, body.where(), "partial consume, but no unbounded bulk copy of the read window")


STREAM_IN_TYPES = ("stream::ReadStream", "stream::NCReadStream")


def _has_input_stream(facts, body):
    a = facts.adts.get(body.self_adt or "")
    if not a:
        return False
    return any(any(w in f["ty"]["adts"] for w in STREAM_IN_TYPES) for v in a["variants"] for f in v["fields"])


def _is_err_value(e):
    return (e.k == "agg" and e.variant == "Err") or (e.k == "call" and (e.q or "").endswith("from_residual"))


def _closure_consumes(facts, body):
    """blocks of `body` whose call is handed a closure (built in this body) that consumes from a stream window or pops a
    packet: `srcs.iter().try_for_each(|s| { .. w.consume(1); .. })`.  Iteration is taken to happen."""
    out = set()
    for bb, t in body.calls():
        for a in t["args"]:
            e = peel(body.operand_expr(a), through_try=False)
            n = 0
            while e is not None and e.k in ("ref", "deref") and n < 4:
                e = peel(e.a, through_try=False)
                n += 1
            if e is not None and e.k == "agg" and e.ak == "closure" and e.q:
                cb = facts.by_path.get(e.q)
                if cb is None:
                    continue
                for cbb, ct in cb.calls():
                    qs = Body.callee_qs(ct)
                    if effects.CONSUME in qs or effects.POP in qs:
                        out.add(bb)
    return out


def rule_r11(facts, col, rule_id="C08.R11"):
    """output is paid for: in a block that has an input stream, every non-error path of work() that commits output
    (produce() with a count that is not the constant 0, push() of a packet) also takes from an input (consume(), a pop() that
    returned Some) or changes the block's own state (assignment into self, `&mut self.field` handed to a call).  A path
    that commits output and changes nothing else is repeated verbatim by the next call: the number of copies emitted then
    depends on how often the runner calls work(), not on the input."""
    for body0 in facts.impl_bodies(BLOCK_TRAIT, "work"):
        if body0.from_derive or not _has_input_stream(facts, body0):
            continue
        body = effects.work_view(facts, body0, methods=True)
        eff = effects.Effects(facts, body)
        outs, ins = {}, set()
        for bb, t in body.calls():
            qs = Body.callee_qs(t)
            nm = t["f"].get("name")
            if effects.PRODUCE in qs and not effects.count_is_const_zero(body, t):
                outs[bb] = "produce"
            elif nm == "push" and any(q.startswith("stream::") for q in qs):
                outs[bb] = "push"
            elif effects.CONSUME in qs and not effects.count_is_const_zero(body, t):
                ins.add(bb)
        for pbb, tgt in effects.pop_some_targets(body).items():
            ins.add(tgt if tgt is not None else pbb)
        ins |= _closure_consumes(facts, body)
        if not outs:
            continue
        okrets = {rb for rb, si, e in assigns_to_return(body) if not _is_err_value(e)}
        state = set(eff.progress) - set(eff.stream_points)
        avoid = ins | state
        # a loop that contains an input advance is taken to run (`for src in &mut self.srcs { .. consume(1) }`)
        for comp in sccs(body):
            if len(comp) > 1 and comp & ins:
                avoid |= comp
        avoid -= set(outs)
        r = reach_avoiding(body, 0, avoid)
        for bb, kind in sorted(outs.items()):
            key = "%s:%s#%d" % (body0.q, kind, sorted(outs).index(bb))
            if bb in ins or bb in state:
                col.ok(rule_id, key, body.where(bb), "same step also changes state")
                continue
            if bb in r and okrets & reach_avoiding(body, bb, avoid - {bb}):
                col.bad(rule_id, key, body.where(bb),
                        "work() can return Ok after this %s() without having consumed anything from an input and without any change to "
                        "its own state: the next call is in exactly the same situation and commits the same output again - the "
                        "output contains as many copies as the runner made calls%s" % (
                            kind, "" if ins else " (this work() never consumes at all)"), {})
            else:
                col.ok(rule_id, key, body.where(bb), "every non-error path through this %s() also consumes input or changes state" % kind)


def rule_r12(facts, col, rule_id="C08.R12"):
    """output sized by the input is paid for by that input: where the count of a produce() is computed from the length of a
    read window of self.W (`min(i.len(), o.len())`, `i.len() / 2`, ..), every non-error path of work() through that produce()
    also passes a consume() on a window of W.  Changing other state does not substitute here: the samples that sized (and
    filled) the output are still at the front of W on the next call and are emitted again."""
    for body0 in facts.impl_bodies(BLOCK_TRAIT, "work"):
        if body0.from_derive:
            continue
        body = effects.work_view(facts, body0, methods=True)
        cons = {}
        for bb, t in body.calls_to(effects.CONSUME):
            if effects.count_is_const_zero(body, t):
                continue
            w = c09.window_of(body.operand_expr(t["args"][0]))
            cons.setdefault(w[0] if w else None, set()).add(bb)
        for cbb in _closure_consumes(facts, body):
            cons.setdefault(None, set()).add(cbb)
        okrets = {rb for rb, si, e in assigns_to_return(body) if not _is_err_value(e)}
        k = 0
        for bb, t in body.calls_to(effects.PRODUCE):
            if len(t["args"]) < 2:
                continue
            cnt = body.operand_expr(t["args"][1])
            ws = set()
            for x in walk(cnt):
                w = c09.len_of_window(x)
                if w and w[1] == "R":
                    ws.add(w[0])
            key = "%s:produce#%d" % (body0.q, k)
            k += 1
            if not ws:
                col.silent(rule_id, key, body.where(bb), "count not visibly computed from a read window's length")
                continue
            for w in sorted(ws):
                avoid = set(cons.get(w, set())) | set(cons.get(None, set()))
                avoid.discard(bb)
                before = bb in reach_avoiding(body, 0, avoid)
                after = okrets & reach_avoiding(body, bb, avoid)
                if before and after:
                    col.bad(rule_id, key + ":" + w, body.where(bb),
                            "the count of this produce() is computed from the length of self.%s's read window, but work() can return Ok "
                            "through it without consuming from self.%s: the samples that sized and filled this output are still at the "
                            "front of the window on the next call and are emitted again" % (w, w), {})
                else:
                    col.ok(rule_id, key + ":" + w, body.where(bb), "every non-error path through this produce() consumes from self.%s" % w)


WSLICE = "circular_buffer::BufferWriter::slice"
SLICE_VIEWS = {"len", "is_empty", "index_mut", "deref_mut", "as_mut", "as_mut_slice", "borrow_mut", "as_mut_ptr"}


def rule_r13(facts, col, rule_id="C08.R13"):
    """what was written through slice() is committed: where work() stores into the slice of a write window (an indexed
    assignment through it, or the slice handed as `&mut [T]` to copy_from_slice / fill / iter_mut / a filter kernel / ..),
    every non-error path from that write to a return passes a produce() on the same window.  A path that writes and
    returns without committing has spent input (or state) on samples the reader never sees.  (Same obligation as R8,
    for blocks that write through slice() instead of fill_from_*().)"""
    works = [b for b in facts.impl_bodies(BLOCK_TRAIT, "work") if not b.from_derive]
    # ... and the block's own methods that open a write window themselves (`fn pad_output(&mut self) -> Result<usize> { let mut o =
    # self.dst.write_buf()?; ..}`): the window dies when the method returns, so the obligation is the method's own
    own = []
    for w_ in works:
        for hb in adt_helpers(facts, w_):
            if hb.kind != "closure" and hb not in own and hb not in works and "BufferWriter" not in (hb.locals[0]["ty"] if hb.locals else "") \
                    and any((t_["f"].get("name") == "write_buf") for _b, t_ in hb.calls()):
                own.append(hb)
    for body in works + own:
        if body.from_derive:
            continue
        slices = {}
        for bb, t in body.calls_to(WSLICE):
            we = body.operand_expr(t["args"][0])
            # a window held in an Option (`if let Some(s) = clock { s.slice()[..] = ..}` ... `if let Some(s) = clock { s.produce(..) }`):
            # write and commit are correlated through the variant, which a path rule does not see - not decided
            optional = any(x.k == "downcast" and x.variant == "Some" for x in walk(we))
            slices[bb] = None if optional else _wb_of(we)
        if not slices:
            continue

        def derives(e):
            for x in walk(e):
                if x.k == "call" and x.q == WSLICE and x.bb in slices:
                    return x.bb
            return None

        writes = {}
        for bb, t in body.calls():
            if bb in slices or t["f"].get("name") in SLICE_VIEWS:
                continue
            for a, ty in zip(t["args"], t.get("argtys") or []):
                if ty.startswith("&mut ["):
                    sb = derives(body.operand_expr(a))
                    if sb is not None:
                        writes.setdefault(bb, (sb, t["f"].get("name")))
        for bb in sorted(body.reachable(0)):
            for st in body.blocks[bb]["stmts"]:
                if st["k"] == "assign" and st["dst"]["p"] and any(p == "*" or (isinstance(p, dict) and "ix" in p) for p in st["dst"]["p"]):
                    try:
                        sb = derives(body.place_expr(st["dst"]))
                    except Exception:
                        sb = None
                    if sb is not None:
                        writes.setdefault(bb, (sb, "store"))
        prods = {}
        for bb, t in body.calls_to(effects.PRODUCE):
            prods.setdefault(_wb_of(body.operand_expr(t["args"][0])), set()).add(bb)
        okrets = {rb for rb, si, e in assigns_to_return(body) if not _is_err_value(e)}
        k = 0
        for bb, (sb, nm) in sorted(writes.items()):
            key = "%s:write#%d" % (body.q, k)
            k += 1
            w = slices[sb]
            if w is None:
                col.silent(rule_id, key, body.where(bb), "window origin not visible (optional / nested stream)")
                continue
            lost = okrets & reach_avoiding(body, bb, prods.get(w, set()) - {bb})
            if lost:
                col.bad(rule_id, key, body.where(bb),
                        "samples are written into the write window here (%s) but work() can return Ok (%s) without a produce() on that "
                        "window: what was consumed or taken out of the block's state for them never reaches the reader" % (nm, body.where(sorted(lost)[0])), {})
            else:
                col.ok(rule_id, key, body.where(bb), "every non-error path from this write (%s) commits the window" % nm)


FRAME_ADAPTORS = {"chunks_exact_mut", "par_chunks_exact_mut", "chunks_exact", "par_chunks_exact", "as_chunks_mut", "as_chunks"}


def _slice_of_write_window(e):
    """e IS (a sub-range of / a reference to) the slice of a write window: the write_buf() call it comes from, else None"""
    p = peel(e)
    n = 0
    while p is not None and n < 10:
        n += 1
        if p.k in ("ref", "deref"):
            p = peel(p.a)
            continue
        if p.k == "call" and p.q == WSLICE and p.args:
            return _wb_of(p.args[0])
        if p.k == "call" and p.args and (p.q or "").split("::")[-1] in ("index", "index_mut", "deref", "deref_mut", "as_mut", "as_mut_slice", "split_at_mut"):
            p = peel(p.args[0])
            continue
        return None
    return None


def rule_r14(facts, col, rule_id="C08.R14"):
    """whole frames only: where work() processes a write window in frames of c samples (`o.slice().chunks_exact_mut(c)`, also
    the rayon form), the count it commits on that window - and what it consumes for it - is established a multiple of c
    (`x - x % c`, `k * c`, a min of multiples, a dominating `% c == 0`).  chunks_exact skips a trailing partial frame: committed
    with the rest, it reaches the reader untransformed, and every later frame is cut at the wrong offset - only when the
    output happens to be the limiting side, i.e. depending on chunking."""
    for body0 in facts.impl_bodies(BLOCK_TRAIT, "work"):
        if body0.from_derive:
            continue
        body = effects.work_view(facts, body0, methods=True)
        frames = []
        for bb, t in body.calls():
            if t["f"].get("name") in FRAME_ADAPTORS and len(t["args"]) >= 2:
                w = _slice_of_write_window(body.operand_expr(t["args"][0]))
                if w is not None:
                    frames.append((bb, w, t["args"][1]))
        k = 0
        for fbb, w, cop in frames:
            c = body.operand_expr(cop)
            for pbb, pt in body.calls_to(effects.PRODUCE):
                if _wb_of(body.operand_expr(pt["args"][0])) != w or len(pt["args"]) < 2:
                    continue
                if pbb not in body.reachable(fbb):
                    continue      # a commit on another path (the header phase of AuEncode returns before the framed copy)
                key = "%s:frames#%d" % (body0.q, k)
                k += 1
                n = body.operand_expr(pt["args"][1])
                from ..common import _expand_deep
                n2, _ch = _expand_deep(facts, n)       # `whole_blocks(min(..), size)`: a small pure helper doing the rounding
                if multiple_of(body, pbb, n, c) or (_ch and multiple_of(body, pbb, n2, c)):
                    col.ok(rule_id, key, body.where(pbb), "committed count established a multiple of the frame size")
                else:
                    col.bad(rule_id, key, body.where(pbb),
                            "the write window is processed in whole frames of %s samples (%s) but the count committed here is not established "
                            "a multiple of that: when the limiting side is not frame-aligned a partial frame is committed untransformed and "
                            "every later frame is cut at the wrong offset" % (show(peel(c, through_try=False))[:30], body.where(fbb)), {})
        if not frames:
            continue


def _mentions_len_of_param(e, idx):
    for x in walk(e):
        if x.k == "un" and x.op == "PtrMetadata" and x.a is not None:
            a = peel(x.a, through_try=False)
            n = 0
            while a is not None and a.k in ("ref", "deref", "cast") and n < 4:
                a = peel(a.a, through_try=False)
                n += 1
            if a is not None and a.k == "param" and a.idx == idx:
                return True
        if x.k == "call" and (x.q or "").split("::")[-1] == "len" and x.args:
            a = peel(x.args[0], through_try=False)
            n = 0
            while a is not None and a.k in ("ref", "deref", "cast") and n < 4:
                a = peel(a.a, through_try=False)
                n += 1
            if a is not None and a.k == "param" and a.idx == idx:
                return True
    return False


def rule_r15(facts, col, rule_id="C08.R15"):
    """a kernel does not choose its code path by how much lies BEHIND the samples it was asked about: where a function is handed
    an open-ended tail of a slice (`self.filter(&input[i * deci..])` - everything from the current position to the end of what
    happened to be buffered), the callee has no two-way branch on that parameter's length with both arms returning normally
    (an `assert!(input.len() >= taps)` has one arm that panics and is fine).  The tail's length depends on how the input was
    chunked, so a fast path selected by it makes the output depend on chunking (different rounding order, reads past the
    window that turn a later NaN into an earlier one)."""
    n = 0
    for body in facts.bodies:
        for bb, t in body.calls():
            tails = []
            for i, a in enumerate(t["args"]):
                e = peel(body.operand_expr(a), through_try=False)
                k_ = 0
                while e is not None and e.k in ("ref", "deref") and k_ < 4:
                    e = peel(e.a, through_try=False)
                    k_ += 1
                if e is not None and e.k == "call" and (e.q or "").split("::")[-1] in ("index", "index_mut") and len(e.args or []) == 2:
                    rg = peel(e.args[1], through_try=False)
                    if rg.k == "agg" and rg.adt == "std::ops::RangeFrom":
                        tails.append(i)
            if not tails:
                continue
            for q in Body.callee_qs(t):
                for hb in facts.by_q.get(q, []):
                    if hb.kind == "closure" or hb.argc != len(t["args"]):
                        continue
                    for i in tails:
                        n += 1
                        key = "%s:tail-arg%d<-%s" % (hb.q, i, body.q.split("::")[-1])
                        badsw = None
                        for sbb in sorted(hb.reachable(0)):
                            st = hb.term(sbb)
                            if st["k"] != "switch":
                                continue
                            if not _mentions_len_of_param(switch_discr_expr(hb, sbb), i + 1):
                                continue
                            arms = [tg for tg, _ in switch_edges(hb, sbb)]
                            normal = [tg for tg in arms if any(hb.term(x)["k"] == "return" for x in hb.reachable(tg))]
                            if len(set(normal)) >= 2:
                                badsw = sbb
                        if badsw is not None:
                            col.bad(rule_id, key, hb.where(badsw),
                                    "%s is called with an open-ended tail of a slice (%s) and branches on that parameter's length with both "
                                    "arms computing a result: which arm runs depends on how much input happened to be buffered behind the "
                                    "samples in question, i.e. on chunking" % (hb.q, body.where(bb)), {})
                        else:
                            col.ok(rule_id, key, hb.where(), "no result-producing branch on the tail's length")
    if n == 0:
        col.ok(rule_id, "no-tail-calls", "src/fir.rs", "no function is handed an open-ended tail of a slice")


def rule_r18(facts, col, rule_id="C08.R18"):
    """a counter of owed samples pays what was done: where work() clamps a count kept in the block (`self.F`: samples still to
    pad, to skip) to a window - `n = min(self.F, window.len())` - every write to F in work() that lies on a path with that
    clamp is `F - n`.  Zeroing F (`mem::take`, `= 0`) or subtracting the window's length instead forgets the part that did
    not fit: the result then depends on how much room / input the call happened to see.  Reported on affirmative evidence
    (a write to F of another shape on a path with the clamp); other uses of F are not judged."""
    from ..mir import self_field_path
    n_ = 0
    for body0 in facts.impl_bodies(BLOCK_TRAIT, "work"):
        if body0.from_derive:
            continue
        body = effects.work_view(facts, body0, methods=True)

        def field_of(e, depth=0):
            """self field an operand of the clamp stands for: `self.F`, `mem::take(&mut self.F)`, `mem::replace(&mut self.F, _)`"""
            pe = peel(e, through_try=False)
            if pe is None or depth > 3:
                return None
            fp = self_field_path(pe)
            if fp and len(fp) == 1:
                return fp[0]
            if pe.k == "call" and (pe.q or "") in ("std::mem::take", "std::mem::replace") and pe.args:
                a = pe.args[0]
                k_ = 0
                while a is not None and a.k in ("ref", "deref") and k_ < 4:
                    a = a.a
                    k_ += 1
                fp = self_field_path(a) if a is not None else None
                if fp and len(fp) == 1:
                    return fp[0]
            return None

        clamps = []
        for bb, t in body.calls():
            qs = Body.callee_qs(t)
            if any(q in MIN_CALLS for q in qs) and len(t["args"]) == 2:
                ops = [body.operand_expr(a) for a in t["args"]]
            elif any(q in facts.by_q for q in qs) and not t["dst"]["p"]:
                # a small pure helper that is the clamp (`clamp_pending(self.owed, o.len())` = `owed.min(len)`)
                ce = body.call_expr(bb, t)
                ex = peel(expand_local_call(facts, ce), through_try=False)
                if ex is None or ex is ce or not (ex.k == "call" and (ex.q in MIN_CALLS or ex.rq in MIN_CALLS) and len(ex.args or []) == 2):
                    continue
                ops = list(ex.args)
            else:
                continue
            for i in (0, 1):
                f = field_of(ops[i])
                w = c09.len_of_window(ops[1 - i])
                if f and w:
                    clamps.append((bb, f, w))
        for cbb, f, w in clamps:
            writes = []
            for bb in sorted(body.reachable(0)):
                for st in body.blocks[bb]["stmts"]:
                    if st["k"] == "assign" and st["dst"]["l"] == 1 and len(st["dst"]["p"]) == 2 and st["dst"]["p"][0] == "*" \
                            and isinstance(st["dst"]["p"][1], dict) and st["dst"]["p"][1].get("n") == f:
                        writes.append((bb, body.rvalue_expr(st["rv"]), "assignment"))
                t = body.term(bb)
                if t["k"] == "call" and (t["f"].get("q") or "") in ("std::mem::take", "std::mem::replace", "std::mem::swap"):
                    for a in t["args"]:
                        e = body.operand_expr(a)
                        k_ = 0
                        while e is not None and e.k in ("ref", "deref") and k_ < 4:
                            e = e.a
                            k_ += 1
                        fp = self_field_path(e) if e is not None else None
                        if fp == [f] and (t.get("argtys") or [""])[0].startswith("&mut"):
                            writes.append((bb, None, "mem::" + t["f"]["q"].split("::")[-1]))
            for wbb, e, how in writes:
                if not (wbb == cbb or wbb in body.reachable(cbb) or cbb in body.reachable(wbb)):
                    continue
                n_ += 1
                key = "%s:%s:%s" % (body0.q, f, how)
                pe = peel(e, through_try=False) if e is not None else None
                ok = False
                if pe is not None and pe.k == "bin" and pe.op == "Sub":
                    fa = self_field_path(peel(pe.a, through_try=False))
                    pb = peel(pe.b, through_try=False)
                    if fa == [f] and pb is not None and pb.k == "call" and pb.bb == cbb:
                        ok = True
                    elif fa == [f]:
                        # another amount: fine when it is itself bounded by the clamp (`n.min(x)`), else undecided
                        ubs = []
                        c09._upper_bounds(pe.b, ubs)
                        if any(peel(u).k == "call" and peel(u).bb == cbb and not m for u, m in ubs):
                            ok = True
                        elif c09.len_of_window(pb):
                            col.bad(rule_id, key, body.where(wbb),
                                    "self.%s is clamped to the window of self.%s (`min(self.%s, len)`) but reduced by the window's whole length: "
                                    "whenever the counter is the smaller one it underflows / overshoots, and what is owed depends on the room "
                                    "this call happened to see" % (f, w[0], f), {})
                            continue
                        else:
                            col.silent(rule_id, key, body.where(wbb), "reduced by an amount not related to the clamp: not decided")
                            continue
                if ok:
                    col.ok(rule_id, key, body.where(wbb), "self.%s is reduced by the clamped amount" % f)
                elif pe is None or (pe.k == "const") or how.startswith("mem::"):
                    col.bad(rule_id, key, body.where(wbb),
                            "self.%s (samples still owed) is clamped to the window of self.%s - `min(self.%s, len)` - but then overwritten "
                            "(%s) instead of reduced by the clamped amount: the part that did not fit into this call's window is forgotten, "
                            "so the result depends on how much room / input the call happened to see" % (f, w[0], f, how), {})
                else:
                    col.silent(rule_id, key, body.where(wbb), "write of another shape: not decided")
    return n_


def rule_r16(facts, col, rule_id="C08.R16"):
    """a copy stage takes what it gives: where the count of a produce() is `min(len(A), len(B))` of the read window A and the
    write window B (a 1:1 copy limited by both sides), a consume() on A on the same path uses that same count - not A's whole
    length.  Consuming all of A while only min(..) samples were copied drops the rest of A whenever the output is the short side."""
    for body0 in facts.impl_bodies(BLOCK_TRAIT, "work"):
        if body0.from_derive:
            continue
        body = effects.work_view(facts, body0, methods=True)
        k = 0
        for pbb, pt in body.calls_to(effects.PRODUCE):
            if len(pt["args"]) < 2:
                continue
            cnt = peel(body.operand_expr(pt["args"][1]), through_try=False)
            if not (cnt.k == "call" and (cnt.q in MIN_CALLS or cnt.rq in MIN_CALLS) and len(cnt.args) == 2):
                continue
            ws = [c09.len_of_window(a) for a in cnt.args]
            if not (all(ws) and {w[1] for w in ws} == {"R", "W"}):
                continue
            rw = [w for w in ws if w[1] == "R"][0]
            for cbb, ct in body.calls_to(effects.CONSUME):
                w = c09.window_of(body.operand_expr(ct["args"][0]))
                if not w or w[0] != rw[0] or len(ct["args"]) < 2:
                    continue
                if not (cbb in body.reachable(pbb) or pbb in body.reachable(cbb)):
                    continue
                key = "%s:copy#%d" % (body0.q, k)
                k += 1
                cc = peel(body.operand_expr(ct["args"][1]), through_try=False)
                if same_expr(cc, cnt):
                    col.ok(rule_id, key, body.where(cbb), "consume and produce use the same min(len, room)")
                elif c09.len_of_window(cc) and c09.len_of_window(cc)[0] == rw[0]:
                    col.bad(rule_id, key, body.where(cbb),
                            "this stage copies and commits min(len(self.%s), room) samples but consumes the whole read window: whenever the "
                            "output is the short side the samples that did not fit are dropped (the output depends on the free space)" % rw[0], {})
                else:
                    col.silent(rule_id, key, body.where(cbb), "consume count is neither the copy count nor the window length")
        # second form: the WHOLE read window is consumed on a path that also commits output whose count is not that length and
        # with nothing establishing that the output had room for all of it (`n = out.iter_mut().zip(in.iter()).count()`)
        for cbb, ct in body.calls_to(effects.CONSUME):
            if len(ct["args"]) < 2:
                continue
            aw = c09.window_of(body.operand_expr(ct["args"][0]))
            cc = body.operand_expr(ct["args"][1])
            lw = c09.len_of_window(cc)
            if not aw or not lw or lw[0] != aw[0]:
                continue
            for pbb, pt in body.calls_to(effects.PRODUCE):
                if len(pt["args"]) < 2 or not (cbb in body.reachable(pbb) or pbb in body.reachable(cbb)):
                    continue
                bw = c09.window_of(body.operand_expr(pt["args"][0]))
                y = body.operand_expr(pt["args"][1])
                if effects.count_is_const_zero(body, pt) or not bw:
                    continue
                key = "%s:drain#%d" % (body0.q, k)
                k += 1
                py = peel(y, through_try=False)
                if same_expr(py, peel(cc, through_try=False)) or (c09.len_of_window(py) and c09.len_of_window(py)[0] == aw[0]):
                    col.ok(rule_id, key, body.where(cbb), "as many committed as consumed")
                    continue
                room = E("call", q="circular_buffer::BufferWriter::len", args=[E("ref", a=peel(body.operand_expr(pt["args"][0])))])
                try:
                    fits = known_ge(body, cbb, room, cc)
                except Exception:
                    fits = False
                if fits:
                    col.ok(rule_id, key, body.where(cbb), "the output is established to have room for the whole read window")
                else:
                    col.bad(rule_id, key, body.where(cbb),
                            "the whole read window of self.%s is consumed, but the count committed on self.%s is something else and nothing "
                            "establishes that the output had room for all of it: what did not fit is dropped (output depends on free space)"
                            % (aw[0], bw[0]), {})


def from_logging(t):
    sp = t.get("sp") or {}
    return any(x.startswith(("log::", "debug!", "trace!", "info!", "warn!", "error!", "format_args!", "eprintln!", "println!")) or "log" in x
               for x in sp.get("x", []))



# a body that raises an alarm as compiled is judged again on its work view (effects.view_fallback)
rule_r2 = effects.view_fallback(rule_r2)
rule_r3 = effects.view_fallback(rule_r3)
rule_r4 = effects.view_fallback(rule_r4)
rule_r5 = effects.view_fallback(rule_r5)
rule_r6 = effects.view_fallback(rule_r6)
rule_r7 = effects.view_fallback(rule_r7)
rule_r8 = effects.view_fallback(rule_r8)
rule_r9 = effects.view_fallback(rule_r9)
rule_r10 = effects.view_fallback(rule_r10)
rule_r13 = effects.view_fallback(rule_r13)
rule_r14 = effects.view_fallback(rule_r14)
rule_r16 = effects.view_fallback(rule_r16)

def run(ctx):
    facts = ctx.facts("default")
    fam = ctx.facts("family")
    c19.rule_work(fam, ctx, only={"C08.R1"})
    c19.rule_work(facts, ctx, only={"C08.R1"})
    if ctx.tier == "thorough" and ctx.override is None:
        sfx = ctx.suffix
        ctx.suffix = "@big"
        c19.rule_work(ctx.facts("family_big"), ctx, only={"C08.R1"})
        ctx.suffix = sfx
        ctx.explain("THOROUGH: additionally the big generated family (arities up to 5 x 5, field-order variants).")
    rule_r2(facts, ctx)
    rule_r3(facts, ctx)
    rule_r5(facts, ctx)
    rule_r6(facts, ctx)
    rule_r8(facts, ctx)
    ctx.floor("C08.R8", 8, "fill_from_* sites of the crate's work() bodies")
    rule_r10(facts, ctx)
    ctx.floor("C08.R10", 10, "hand-written work() bodies that consume part of a window")
    rule_r11(facts, ctx)
    ctx.floor("C08.R11", 25, "output commitments (produce/push) in hand-written work() bodies of blocks with an input stream")
    from . import c14 as _c14
    # a source that reassembles samples from byte pieces: a shortcut for sample-aligned reads is taken only with no bytes pending
    # (else the output depends on how read() cut the byte stream and on the output room that sized the request; seed s11-c08)
    _c14.rule_r4(facts, c19._Retag(ctx, "C14.R4", "C08.R17"))
    ctx.floor("C08.R17", 1, "FileSource fast path (same rule as C14.R4 / C16.R10)")
    rule_r18(facts, ctx)
    ctx.floor("C08.R18", 1, "owed-sample counters clamped to a window (Delay::current_delay, Delay::skip, Skip::skip today; refactors that clamp through a helper keep fewer)")
    rule_r16(facts, ctx)
    ctx.floor("C08.R16", 3, "1:1 copy stages (Skip, Delay, FftFilterFloat x2 today)")
    rule_r15(facts, ctx)
    ctx.floor("C08.R15", 1, "functions handed an open-ended tail of a slice (Fir::filter from filter_n / filter_n_inplace)")
    rule_r14(facts, ctx)
    ctx.floor("C08.R14", 1, "write windows processed in frames (FftStream: 2 adaptor sites, 1 commit)")
    rule_r13(facts, ctx)
    ctx.floor("C08.R13", 12, "writes through BufferWriter::slice() in hand-written work() bodies (19 today)")
    rule_r12(facts, ctx)
    ctx.floor("C08.R12", 8, "produce() sites of hand-written work() bodies whose count is computed from a read window's length")
    rule_r9(facts, ctx)
    ctx.floor("C08.R9", 5, "per-sample loops of hand-written work() bodies that write carried state (8 today)")
    rule_r7(facts, ctx)
    ctx.floor("C08.R7", 1, "advanced copies of carried state (or the statement that there are none)")
    ctx.floor("C08.R5", 1, "RationalResampler's counted consume")
    ctx.floor("C08.R6", 1, "Il2pDeframer's state swap")
    rule_r4(facts, ctx)
    ctx.floor("C08.R4", 40, "produce sites of the crate's work() bodies")
    ctx.floor("C08.R3", 2, "AuDecode (2 bytes/sample) and FirFilter (decimation)")
    ctx.floor("C08.R1", 54 * 4, "4 loop-shape obligations x (36 family + 18 in-crate sync blocks)")
    ctx.floor("C08.R2", 4, "fill_from_slice / copy_from_slice into write windows (Delay, VectorSource, Skip, FftStream, ...)")
    ctx.explain("C08 (partial): for derive-generated sync/sync_tag blocks the output is a fold of process_sync* over the input sequence "
                "by construction - checked on the generated MIR of every in-crate user and of the generated family: inputs walked in "
                "lock-step from index 0 with take(n) and only take/zip/enumerate/map adaptors, one iter() per input and one slice() per "
                "output, process_sync_tags exactly once per sample on every path, work() itself writes no block state. For "
                "hand-written blocks only the bounded-copy rule is decided (a whole read-window slice is never copied into a write "
                "window). Carried-state arithmetic of hand-written blocks (resampler, clock recovery, ...) is NOT decided.")
