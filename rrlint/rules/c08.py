"""C08 — every block is a pure stream function: output independent of chunking (partial)."""
from ..common import *
from ..mir import peel, walk, show, same_expr
from .. import effects
from . import c19, c09

FILL_SLICE = "circular_buffer::BufferWriter::fill_from_slice"
COPY_FROM_SLICE = {"core::slice::<impl [T]>::copy_from_slice", "[T]::copy_from_slice", "core::slice::<impl [T]>::clone_from_slice",
                   "[T]::clone_from_slice"}


def _is_unbounded_reader_slice(e):
    """e is (a reference to) the WHOLE slice of a read window"""
    p = peel(e)
    return p.k == "call" and p.q in ("circular_buffer::BufferReader::slice",) and c09.window_of(p.args[0]) is not None


def _is_whole_writer_slice(e):
    p = peel(e)
    return p.k == "call" and p.q == "circular_buffer::BufferWriter::slice"


def rule_r2(facts, col):
    """bounded window copy: a whole read-window slice is never copied into a write window"""
    for body in facts.bodies:
        for bb, t in body.calls():
            q = t["f"].get("q") or ""
            name = t["f"].get("name")
            if q == FILL_SLICE:
                src = body.operand_expr(t["args"][1])
                key = "%s:fill_from_slice" % body.q
                if _is_unbounded_reader_slice(src):
                    col.bad("C08.R2", key, body.where(bb),
                            "the whole read window is copied into the write window (fill_from_slice(input.slice())): with more input "
                            "than free output space this panics instead of processing what fits", {})
                else:
                    col.ok("C08.R2", key, body.where(bb), "source is a bounded sub-slice / owned data")
            elif name in ("copy_from_slice", "clone_from_slice") and len(t["args"]) == 2:
                dst = body.operand_expr(t["args"][0])
                src = body.operand_expr(t["args"][1])
                if not any(x.k == "call" and x.q == "circular_buffer::BufferWriter::slice" for x in walk(dst)):
                    continue
                key = "%s:%s" % (body.q, name)
                if _is_unbounded_reader_slice(src) and _is_whole_writer_slice(dst):
                    col.bad("C08.R2", key, body.where(bb), "whole read window copied onto the whole write window: lengths differ "
                            "whenever input and output space differ (panic)", {})
                elif _is_unbounded_reader_slice(src):
                    col.bad("C08.R2", key, body.where(bb), "the whole read window is the source of a copy into a (sub-slice of the) write "
                            "window: panics when the input window is longer", {})
                else:
                    col.ok("C08.R2", key, body.where(bb), "both sides are explicit sub-slices")


def run(ctx):
    facts = ctx.facts("default")
    fam = ctx.facts("family")
    c19.rule_work(fam, ctx, only={"C08.R1"})
    c19.rule_work(facts, ctx, only={"C08.R1"})
    rule_r2(facts, ctx)
    ctx.floor("C08.R1", 54 * 4, "4 loop-shape obligations x (36 family + 18 in-crate sync blocks)")
    ctx.floor("C08.R2", 4, "fill_from_slice / copy_from_slice into write windows (Delay, VectorSource, Skip, FftStream, ...)")
    ctx.explain("C08 (partial): for derive-generated sync/sync_tag blocks the output is a fold of process_sync* over the input sequence "
                "by construction - checked on the generated MIR of every in-crate user and of the generated family: inputs walked in "
                "lock-step from index 0 with take(n) and only take/zip/enumerate/map adaptors, one iter() per input and one slice() per "
                "output, process_sync_tags exactly once per sample on every path, work() itself writes no block state. For "
                "hand-written blocks only the bounded-copy rule is decided (a whole read-window slice is never copied into a write "
                "window). Carried-state arithmetic of hand-written blocks (resampler, clock recovery, ...) is NOT decided.")
