"""C15 — input content can never crash a block, decoder or parser (partial, audited)."""
import os
import re

from ..common import *
from ..mir import peel, walk, show, same_expr, E
from .. import taint as T

PANIC_FNS = {"core::panicking::panic", "core::panicking::panic_fmt", "core::panicking::assert_failed", "core::panicking::panic_explicit",
             "core::panicking::unreachable_display", "core::panicking::panic_display", "core::panicking::panic_nounwind",
             "std::rt::begin_panic", "core::panicking::panic_const::panic_const_div_by_zero"}
SMALL_INTS = {"u8", "i8", "u16", "i16", "u32", "i32"}
AUDIT_FILE = os.path.join(os.path.dirname(os.path.dirname(os.path.abspath(__file__))), "c15_audit.txt")


def scope_bodies(facts):
    cg = CallGraph(facts)
    roots = [b.q for b in facts.impl_bodies(BLOCK_TRAIT, "work")]
    for b in facts.bodies:
        if b.q == "sigmf::parse_meta" or b.self_adt in ("sigmf::SigMFSource", "sigmf::SigMFSourceBuilder") or b.trait == "Sample" \
                or (b.self_adt or "").startswith("il2p_deframer::"):
            roots.append(b.q)
    reach = cg.reachable_bodies(roots)
    # the stream implementation itself is out of scope: its panics are the refusal guards of C01/C03
    return [b for b in facts.bodies if b.q in reach and b.file not in ("src/circular_buffer.rs", "src/stream.rs")]


def norm(s):
    s = re.sub(r"_\d+", "_", s)
    s = re.sub(r"\s+", " ", s)
    return s[:110].strip()


def load_audit(config="default"):
    """entries `file|function|kind|signature :: reason`; a leading `@cfg1,cfg2 ` restricts an entry to those build
    configurations (sites that only exist in feature builds)."""
    out = {}
    if not os.path.exists(AUDIT_FILE):
        return out
    for line in open(AUDIT_FILE):
        line = line.rstrip("\n")
        if not line or line.startswith("#"):
            continue
        if line.startswith("@"):
            cfgs, line = line[1:].split(" ", 1)
            if config not in cfgs.split(","):
                continue
        mult = 1
        m = re.match(r"^\*(\d+) ", line)
        if m:
            mult = int(m.group(1))
            line = line[m.end():]
        if " :: " in line:
            k, why = line.split(" :: ", 1)
            out[k.strip()] = AuditEntry(why.strip(), mult + (out[k.strip()].count if k.strip() in out else 0))
    return out


class AuditEntry(str):
    """reason text of an audit entry + how many sites it covers (`*N ` prefix: N sites share the normalised signature,
    e.g. the three 4-byte header fields of AuDecode; each entry line is a budget of exactly N sites)"""
    def __new__(cls, why, count=1):
        o = str.__new__(cls, why)
        o.count = count
        return o


class Site:
    def __init__(self, body, bb, kind, desc, operands):
        self.body, self.bb, self.kind, self.desc, self.operands = body, bb, kind, desc, operands

    def key(self):
        return "%s|%s|%s" % (self.body.q, self.kind, norm(self.desc))

    def akey(self):
        return "%s|%s" % (self.body.file, self.key())

    def cls(self):
        k = self.kind
        if k.startswith(("overflow", "divzero", "shift")):
            return "D1"
        if k.startswith(("explicit", "unwrap")):
            return "D2"
        return "D3"


def local_ty(body, op):
    p = op.get("c") or op.get("m")
    if p is not None and not p["p"]:
        return body.locals[p["l"]]["ty"]
    if "k" in op:
        return op["k"].get("ty")
    return None


def sites_of(body, tnt):
    """Yield content-tainted panic sites of a body."""
    reach = body.reachable(0)
    for bb in sorted(reach):
        t = body.term(bb)
        if t["k"] == "assert":
            m = t["msg"]
            kind = m["kind"]
            if kind == "Overflow":
                op = m["op"]
                a, b = m["a"], m["b"]
                ba, bb_ = tnt.op_bits(body, a), tnt.op_bits(body, b)
                ea, eb = body.operand_expr(a), body.operand_expr(b)
                if op in ("Shl", "Shr"):
                    if T.C in bb_:
                        yield Site(body, bb, "shift", "%s %s %s" % (show(ea), op, show(eb)), (ea, eb))
                    continue
                if not (T.C in ba or T.C in bb_):
                    continue
                if op in ("Add", "Mul"):
                    ty = local_ty(body, a) or local_ty(body, b) or ""
                    if ty not in SMALL_INTS:
                        continue   # 64-bit counters/lengths: assumed not to overflow
                yield Site(body, bb, "overflow:" + op, "%s %s %s" % (show(ea), op, show(eb)), (ea, eb))
            elif kind in ("DivisionByZero", "RemainderByZero"):
                # the assert's message operand is the dividend; the divisor is in the condition `divisor == 0`
                ce = peel(body.operand_expr(t["cond"]), through_try=False)
                if ce.k == "bin" and ce.op == "Eq":
                    p = t["cond"].get("c") or t["cond"].get("m")
                    div_op = None
                    if p is not None:
                        ds = body.defs().get(p["l"], [])
                        if len(ds) == 1 and ds[0][2] == "rv" and ds[0][3]["k"] == "bin":
                            div_op = ds[0][3]["a"]
                    if div_op is not None and T.C in tnt.op_bits(body, div_op):
                        ea = body.operand_expr(div_op)
                        yield Site(body, bb, "divzero", show(ea), (ea,))
            elif kind == "BoundsCheck":
                ln, ix = m["a"], m["b"]
                if T.C in tnt.op_bits(body, ix):
                    yield Site(body, bb, "bounds", "[%s] len %s" % (show(body.operand_expr(ix)), show(body.operand_expr(ln))),
                               (body.operand_expr(ln), body.operand_expr(ix)))
        elif t["k"] == "call":
            f = t["f"]
            q = f.get("q") or ""
            name = f.get("name") or ""
            args = t["args"]
            if q in PANIC_FNS:
                sp = t.get("sp") or {}
                chain = sp.get("x", [])
                if any("derive(" in x for x in chain):
                    continue  # the generated `assert_ne!(n, 0)` is about window lengths
                # tainted controlling condition? (nearest controlling switch only)
                cond_t = False
                desc = "panic"
                best = None
                for s in sorted(reach):
                    tt = body.term(s)
                    if tt["k"] == "switch" and any(must_pass_edge(body, bb, (s, tg)) for tg, _ in switch_edges(body, s)):
                        if best is None or body.dominates(best, s):
                            best = s
                if best is not None and T.C in tnt.op_bits(body, body.term(best)["d"]):
                    cond_t = True
                    desc = "panic if %s" % show(switch_discr_expr(body, best))
                if cond_t:
                    mac = [x for x in chain if x.endswith("!")]
                    yield Site(body, bb, "explicit:" + (mac[-1] if mac else "panic"), desc, ())
            elif name in ("unwrap", "expect") and f.get("self_adt") in ("std::option::Option", "std::result::Result") and args:
                aty = (t.get("argtys") or [""])[0]
                if "MutexGuard" in aty or "PoisonError" in aty:
                    continue  # lock poisoning is not input content
                if T.C in tnt.op_bits(body, args[0]):
                    yield Site(body, bb, "unwrap:" + f["self_adt"].split("::")[-1], show(body.operand_expr(args[0])), (body.operand_expr(args[0]),))
            elif q in ("std::ops::Index::index", "std::ops::IndexMut::index_mut") and len(args) == 2:
                cb, ib = tnt.op_bits(body, args[0]), tnt.op_bits(body, args[1])
                r = f.get("resolved") or {}
                if (r.get("self_adt") or "") in ("circular_buffer::BufferReader",):
                    cb = set()
                ity = (t.get("argtys") or ["", ""])[1]
                if "RangeFull" in ity:
                    continue
                if T.C in ib or T.L in cb:
                    ec, ei = body.operand_expr(args[0]), body.operand_expr(args[1])
                    yield Site(body, bb, "index", "%s[%s]" % (show(ec), show(ei)), (ec, ei))
            elif q in ("circular_buffer::BufferReader::consume", "circular_buffer::BufferWriter::produce") and len(args) >= 2:
                # the stream refuses (panics on) a consume / commit larger than the window: a count that comes out of the input
                # needs a guard against the window's length
                ce_ = body.operand_expr(args[1])
                sized = any(x.k == "call" and (x.q or "").split("::")[-1] in ("len", "min", "count") for x in walk(ce_))
                # counts built from lengths / minima / loop counters are the business of C09.R10, R11; here: a NUMBER that came out
                # of the input - decoded from bytes, carried in the block's state, or a tag position
                from ..mir import self_field_path as _sfp
                explicit = any((x.k == "call" and ((x.q or "").split("::")[-1] in ("pos",) or "_bytes" in (x.q or ""))) or
                               (x.k in ("field", "downcast") and _sfp(x)) for x in walk(ce_)) \
                    and not any(x.k in ("multi",) or (x.k == "call" and (x.q or "").split("::")[0] not in ("std", "core", "stream", "u8", "u16", "u32", "u64", "usize")
                                                     and "_bytes" not in (x.q or "")) for x in walk(ce_))
                if T.C in tnt.op_bits(body, args[1]) and not sized and explicit and name == "consume":
                    yield Site(body, bb, "window:" + name, "%s(%s)" % (name, show(body.operand_expr(args[1]))),
                               (body.operand_expr(args[0]), body.operand_expr(args[1])))
            elif name in ("split_at", "split_at_mut") and q.startswith("str::") and len(args) == 2:
                # a str is cut at a BYTE index: besides mid <= len the index must be a char boundary - a length guard proves nothing
                if T.C in tnt.op_bits(body, args[0]) or T.L in tnt.op_bits(body, args[0]) or T.C in tnt.op_bits(body, args[1]):
                    yield Site(body, bb, "str:split_at", "%s(%s)" % (name, ", ".join(show(body.operand_expr(a)) for a in args)),
                               tuple(body.operand_expr(a) for a in args))
            elif name in ("split_at", "split_at_mut", "copy_from_slice", "clone_from_slice", "remove", "swap_remove", "drain", "split_off",
                          "swap", "insert", "chunks", "chunks_exact", "windows", "rotate_left", "rotate_right") and args:
                if q.startswith("std::mem::"):
                    continue
                bits = [tnt.op_bits(body, a) for a in args]
                if f.get("self_adt") not in ("std::vec::Vec", "std::collections::VecDeque", None) and "slice" not in q and "[T]" not in q:
                    continue
                if T.L in bits[0] or any(T.C in x for x in bits[1:]):
                    if name in ("chunks", "chunks_exact", "windows") and not any(T.C in x for x in bits[1:]):
                        continue
                    yield Site(body, bb, "slice:" + name, "%s(%s)" % (name, ", ".join(show(body.operand_expr(a)) for a in args)),
                               tuple(body.operand_expr(a) for a in args))


def discharge(site, facts=None):
    """Return a reason string if the site is provably safe by local guard reasoning, else None."""
    body, bb = site.body, site.bb
    k = site.kind
    if k in ("window:consume", "window:produce"):
        w, cnt = site.operands
        lnq = "circular_buffer::BufferReader::len" if k.endswith("consume") else "circular_buffer::BufferWriter::len"
        mine = E("call", q=lnq, args=[E("ref", a=peel(w))])
        if known_ge(body, bb, mine, cnt):
            return "count bounded by the window's len() by a guard / by construction"
        from . import c09 as _c09
        ubs = []
        _c09._upper_bounds(cnt, ubs)
        root = _c09._window_root(w)
        if root is not None and any(_c09._len_root(u) is not None and same_expr(_c09._len_root(u), root) and not m for u, m in ubs):
            return "count bounded by the window's len() by construction"
        if any(known_ge(body, bb, mine, u) for u, m in ubs if not m):
            return "count bounded by a value the window is established to hold"
        return None
    if k == "str:split_at":
        s_, mid = site.operands
        pm = peel(mid, through_try=False)
        if pm.k == "const" and pm.v == 0:
            return "cut at 0"
        for f in facts_at(body, bb):
            if f[0] in ("Bool", "BoolVal") and f[2] is True and f[1] is not None and (getattr(f[1], "q", None) or "").split("::")[-1] == "is_char_boundary" \
                    and len(f[1].args or []) == 2 and same_expr(f[1].args[1], mid):
                return "behind is_char_boundary(mid)"
        return None
    if k == "overflow:Sub":
        a, b = site.operands
        if known_ge(body, bb, a, b):
            return "minuend >= subtrahend on every path"
        if facts is not None:
            # `self.skip -= consume_up_to(window, self.skip)`: a local helper whose single return is min(.., its parameter)
            b2 = expand_local_call(facts, b)
            if b2 is not b and known_ge(body, bb, a, b2):
                return "subtrahend is a local helper's result, which is min(.., minuend)"
            b3 = expand_variant_payload(facts, b)
            if b3 is not None and known_ge(body, bb, a, b3):
                return "subtrahend is the payload a local helper returns, which is min(.., minuend)"
        if facts is not None and known_ge_at_callers(facts, body, a, b):
            return "minuend >= subtrahend established at every call site of this helper"
        pb = peel(b, through_try=False)
        if facts is not None and pb.k == "const" and pb.v == 1:
            from .. import fieldstate
            if fieldstate.positive_at(facts, body, bb, a):
                return "counter field is > 0 on every path reaching the decrement (path-sensitive search over the field's None/0/>0 states)"
        return None
    if k in ("slice:split_at", "slice:split_at_mut", "slice:drain", "slice:remove", "slice:swap_remove", "slice:split_off", "slice:truncate") and len(site.operands) >= 2:
        ec, ei = site.operands[0], site.operands[1]
        lenc = E("call", q="len", args=[ec])
        pi = peel(ei, through_try=False)
        if pi.k != "agg" and known_ge(body, bb, lenc, ei):
            return "position bounded by this container's len()"
        if pi.k == "agg" and pi.adt in ("std::ops::Range", "std::ops::RangeTo") and k == "slice:drain":
            start = pi.args[0] if pi.adt == "std::ops::Range" else None
            end = pi.args[1] if pi.adt == "std::ops::Range" else pi.args[0]
            ps = peel(start, through_try=False) if start is not None else None
            if known_ge(body, bb, lenc, end) and (ps is None or (ps.k == "const" and ps.v == 0) or known_ge(body, bb, end, start)):
                return "drained range ends at a value rounded down from this container's len()"
            if facts is not None and (ps is None or (ps.k == "const" and ps.v == 0)) and known_ge_at_callers(facts, body, lenc, end):
                return "drained range bounded by this container's len() at every call site of this helper"
        return None
    if k in ("slice:copy_from_slice", "slice:clone_from_slice") and len(site.operands) == 2:
        d, src = site.operands
        pd = peel(d, through_try=False)
        n = 0
        while pd is not None and n < 8 and ((pd.k == "call" and (pd.q or "").split("::")[-1] in ("deref_mut", "deref", "as_mut_slice", "as_mut") and pd.args)
                                            or pd.k in ("ref", "deref")):
            pd = peel(pd.args[0] if pd.k == "call" else pd.a, through_try=False)
            n += 1
        # dst[..n].copy_from_slice(&src[..n]) (or [a..b] on both sides): both slices have the length the same range gives
        d0, s0 = peel(d, through_try=False), peel(src, through_try=False)

        def rng(x):
            n_ = 0
            while x is not None and n_ < 4 and x.k in ("ref", "deref"):
                x = peel(x.a, through_try=False)
                n_ += 1
            if x is not None and x.k == "call" and (x.q or "").split("::")[-1] in ("index", "index_mut") and len(x.args) == 2:
                r = peel(x.args[1], through_try=False)
                if r.k == "agg" and r.adt in ("std::ops::RangeTo", "std::ops::Range", "std::ops::RangeInclusive", "std::ops::RangeToInclusive"):
                    return r
            return None
        rd, rs = rng(d0), rng(s0)
        if rd is not None and rs is not None and rd.adt == rs.adt and len(rd.args) == len(rs.args) and \
                all(same_expr(x, y) or (peel(x, through_try=False).k == "const" and peel(y, through_try=False).k == "const"
                                         and peel(x, through_try=False).v == peel(y, through_try=False).v) for x, y in zip(rd.args, rs.args)):
            return "both sides are sub-slices taken with the same range"
        if pd is not None and pd.k == "call" and (pd.q or "").endswith("from_elem") and len(pd.args) == 2:
            ln = peel(pd.args[1], through_try=False)
            if ln.k == "call" and (ln.q or "").split("::")[-1] == "len" and ln.args and \
                    same_expr(peel(ln.args[0], through_try=False), peel(src, through_try=False)):
                return "destination was allocated as vec![_; src.len()] for this very source"
        return None
    if k.startswith("unwrap:Result") and site.operands:
        p0 = peel(site.operands[0], through_try=False)
        if p0.k == "call" and (p0.q or "") in ("std::fmt::Write::write_fmt", "std::fmt::Write::write_str", "std::fmt::Write::write_char"):
            rq = p0.rq or ""
            aty = ""
            if getattr(p0, "bb", None) is not None:
                aty = ((body.term(p0.bb).get("argtys") or [""])[0]) or ""
            if "std::string::String" in rq or aty.replace("&mut ", "").strip() == "std::string::String":
                return "formatting into a String cannot fail (its fmt::Write impl is infallible)"
    if k == "divzero":
        (a,) = site.operands
        if known_nonzero(body, bb, a):
            return "divisor non-zero on every path"
        p = peel(a, through_try=False)
        if p.k == "bin" and p.op == "Add" and any(peel(x, through_try=False).k == "const" and (peel(x, through_try=False).v or 0) > 0 for x in (p.a, p.b)):
            return "divisor is x + positive constant"
        return None
    if k == "bounds":
        ln, ix = site.operands
        pl, pi = peel(ln, through_try=False), peel(ix, through_try=False)
        # slice[len/c] : fine when the slice is non-empty (locally or at every call site)
        if pi.k == "bin" and pi.op == "Div":
            pa_, pb_ = peel(pi.a, through_try=False), peel(pi.b, through_try=False)
            if pa_.k == "call" and (pa_.q or "").split("::")[-1] == "len" and pb_.k == "const" and (pb_.v or 0) >= 2:
                one = E("const", v=1, ty="usize")
                if known_ge(body, bb, pa_, one):
                    return "index = len()/c of a slice established non-empty"
                if facts is not None and known_ge_at_callers(facts, body, pa_, one):
                    return "index = len()/c of a slice established non-empty at every call site of this helper"
        if pl.k == "const" and pl.v is not None:
            # masked index
            for x in walk(pi):
                if x.k == "bin" and x.op == "BitAnd":
                    for c in (x.a, x.b):
                        pc = peel(c, through_try=False)
                        if pc.k == "const" and pc.v is not None and pc.v < pl.v:
                            return "index masked below the array length"
                if x.k == "bin" and x.op == "Rem":
                    pc = peel(x.b, through_try=False)
                    if pc.k == "const" and pc.v is not None and pc.v <= pl.v:
                        return "index reduced modulo the array length"
            if pi.k == "cast":
                pass
        for f in facts_at(body, bb):
            if f[0] == "Lt" and same_expr(f[1], pi) and same_expr(f[2], pl):
                return "index < len guard"
        return None
    if k == "index":
        ec, ei = site.operands
        pi = peel(ei, through_try=False)
        lenc = E("call", q="len", args=[ec])
        # Read contract: `n = reader.read(&mut buf)` => n <= buf.len(); so buf[..n] is in range
        if pi.k == "agg" and pi.adt == "std::ops::RangeTo" and pi.args:
            nb = peel(pi.args[0])
            if nb is not None and nb.k == "call" and nb.q == "std::io::Read::read" and len(nb.args or []) >= 2:
                from ..common import _container_root
                r1, r2 = _container_root(nb.args[1]), _container_root(ec)
                if r1 is not None and r1 == r2:
                    return "bound is the count returned by read() into this very buffer (Read contract: n <= buf.len())"
        if pi.k == "agg" and pi.adt in ("std::ops::Range", "std::ops::RangeTo", "std::ops::RangeFrom", "std::ops::RangeInclusive"):
            start = end = None
            if pi.adt == "std::ops::Range":
                start, end = pi.args[0], pi.args[1]
            elif pi.adt == "std::ops::RangeTo":
                end = pi.args[0]
            elif pi.adt == "std::ops::RangeFrom":
                start = pi.args[0]
            ok_end = end is None or known_ge(body, bb, lenc, end)
            if not ok_end and facts is not None:
                # the bound is what a small pure helper computes (`clamp_pending(owed, o.len())` = `owed.min(len)`)
                end2 = expand_local_call(facts, end)
                if end2 is not end and known_ge(body, bb, lenc, end2):
                    ok_end = True
            if not ok_end and facts is not None and start is None and known_ge_at_callers(facts, body, lenc, end):
                ok_end = True       # `window.slice()[..samples]` in a helper whose callers pass samples <= window.len()
            if start is None:
                ok_start = True
            elif end is None:
                ok_start = known_ge(body, bb, lenc, start)
            else:
                ok_start = known_ge(body, bb, end, start)
            if ok_end and ok_start:
                return "range bounds established against this container's len()"
        elif pi.k != "agg":
            # constant index c: need len >= c + 1
            if pi.k == "const" and isinstance(pi.v, int) and known_ge(body, bb, lenc, E("const", v=pi.v + 1, ty="usize")):
                return "constant index below an established minimum length"
            # index = len(container) / c (c >= 2) on a non-empty container
            if pi.k == "bin" and pi.op == "Div":
                pa_, pb_ = peel(pi.a, through_try=False), peel(pi.b, through_try=False)
                if pa_.k == "call" and (pa_.q or "").split("::")[-1] == "len" and pa_.args and pb_.k == "const" and (pb_.v or 0) >= 2:
                    from ..common import _container_root
                    if _container_root(pa_.args[0]) is not None and _container_root(pa_.args[0]) == _container_root(ec) \
                            and known_ge(body, bb, lenc, E("const", v=1, ty="usize")):
                        return "index = len()/c of a container established non-empty"
            # index drawn from `lo..hi` (a `for i in 0..n` loop): need len >= hi
            x_ = pi
            n_ = 0
            while x_ is not None and n_ < 6 and x_.k in ("field", "downcast"):
                x_ = peel(x_.a, through_try=False)
                n_ += 1
            if x_ is not None and x_.k == "call" and (x_.q or "").endswith("Iterator::next") and x_.args:
                it = x_.args[0]
                rng_ = None
                for y in walk(it):
                    if y.k == "agg" and y.adt == "std::ops::Range" and len(y.args) == 2:
                        rng_ = y
                        break
                if rng_ is not None and not any(y.k == "call" and (y.q or "").split("::")[-1] in ("map", "rev", "step_by", "chain", "zip", "flat_map", "skip")
                                                for y in walk(it)):
                    if known_ge(body, bb, lenc, rng_.args[1]):
                        return "index drawn from lo..hi with this container's len() >= hi"
            # scalar index: need index < len
            for edge, f in facts_at_e(body, bb):
                if f[0] in ("Lt", "Gt"):
                    x, y = (f[1], f[2]) if f[0] == "Lt" else (f[2], f[1])
                    if same_expr(x, pi):
                        py = peel(y, through_try=False)
                        if py.k == "call" and (py.q or "").split("::")[-1] == "len" and py.args:
                            from ..common import _container_root
                            if _container_root(py.args[0]) is not None and _container_root(py.args[0]) == _container_root(ec):
                                return "index < len() of this container"
        # guard relating this index to this container's length (for a method called on `self` by another method of the same
        # type, the guard may sit in that caller: `self.buf` is the same container there)
        fs = list(facts_at(body, bb))
        if facts is not None and body.self_adt and body.kind != "closure":
            sites = call_sites_of(facts, body)
            if sites and len(sites) == 1:
                cb, cbb, actual = sites[0]
                a1 = peel(actual.get(1), through_try=False) if actual.get(1) is not None else None
                n_ = 0
                while a1 is not None and a1.k in ("ref", "deref") and n_ < 4:
                    a1 = peel(a1.a, through_try=False)
                    n_ += 1
                if cb.self_adt == body.self_adt and a1 is not None and a1.k == "param" and a1.idx == 1:
                    fs += facts_at_with_callers(facts, cb, cbb, 1)
        for f in fs:
            if f[0] in ("Lt", "Le", "Gt", "Ge"):
                for x, y in ((f[1], f[2]), (f[2], f[1])):
                    px = peel(x, through_try=False)
                    if px.k == "call" and (px.q or "").split("::")[-1] == "len" and px.args and same_expr(px.args[0], ec):
                        return "guarded by a comparison with this container's len()"
        return None
    return None


def _audit_cls(akey):
    kind = akey.split("|")[2] if akey.count("|") >= 3 else ""
    if kind.startswith(("overflow", "divzero", "shift")):
        return "D1"
    if kind.startswith(("explicit", "unwrap")):
        return "D2"
    return "D3"


def rule_scope(facts, col, pred=None, rule_id="C15"):
    tnt = _taint(facts)
    audit = load_audit(getattr(facts, "config", "default")) if facts.crate == "rustradio" else {}
    bodies = [b for b in scope_bodies(facts) if pred is None or pred(b)]
    seen_keys = set()
    pending = []      # undischarged, not exactly audited
    used_count = {}
    for body in bodies:
        for site in sites_of(body, tnt):
            key = site.key()
            if key in seen_keys:
                key = key + "#2"
            seen_keys.add(key)
            rid = ("%s.%s" % (rule_id, site.cls())) if rule_id == "C15" else rule_id
            why = discharge(site, facts)
            if why:
                col.ok(rid, key, body.where(site.bb), why)
            elif site.akey() in audit and used_count.get(site.akey(), 0) < audit[site.akey()].count:
                used_count[site.akey()] = used_count.get(site.akey(), 0) + 1
                col.ok(rid, key, body.where(site.bb), "audited: " + audit[site.akey()])
            else:
                pending.append((rid, key, site))
    # Slot reuse: an audited site that no longer exists (renamed operands, extracted helper, method form ...)
    # frees one slot for an un-audited site of the same class in the same file.  A removed guard adds a site
    # without freeing a slot and is still reported.
    free = {}
    files_in_scope = {b.file for b in bodies}
    for ak in audit:
        left = audit[ak].count - used_count.get(ak, 0)
        if left <= 0:
            continue
        fl = ak.split("|", 1)[0]
        if fl not in files_in_scope:
            continue
        free[(fl, _audit_cls(ak))] = free.get((fl, _audit_cls(ak)), 0) + left
    # A KNOWN finding whose site has moved (extracted into a helper, `assert!` spelled as `if .. { panic! }`): when no site has
    # the recorded key any more and exactly one un-audited site of the same class shows the same condition text, that site IS
    # the known finding - reported under its recorded key (exact-key suppression stays exact), with its new location.
    if rule_id == "C15":
        from ..core import load_known
        known = load_known().get("C15", {})
        for kk in known:
            m_ = re.match(r"C15\.(D\d):(.*)\|([^|]*)\|([^|]*)$", kk)
            if not m_:
                continue
            kcls, kfn, kkind, kdesc = m_.groups()
            if any(k2 == "%s|%s|%s" % (kfn, kkind, kdesc) for k2 in seen_keys):
                continue          # still where it was
            cands = [(rid, key, site) for rid, key, site in pending if site.cls() == kcls and norm(site.desc) == kdesc
                     and kkind.split(":")[0] == site.kind.split(":")[0]]
            if len(cands) == 1:
                rid, key, site = cands[0]
                pending.remove(cands[0])
                col.bad(rid, "%s|%s|%s" % (kfn, kkind, kdesc), site.body.where(site.bb),
                        "content-dependent panic edge without a dominating guard: %s (%s) - the known finding recorded for %s, now in %s"
                        % (site.desc[:160], site.kind, kfn, site.body.q), {"kind": site.kind, "moved_to": site.body.q})
    groups = {}
    for rid, key, site in pending:
        groups.setdefault((site.body.file, site.cls()), []).append((rid, key, site))
    for (fl, cls), lst in groups.items():
        if len(lst) <= free.get((fl, cls), 0):
            for rid, key, site in lst:
                col.ok(rid, key, site.body.where(site.bb),
                       "within the audited budget of %s/%s: an audited site of this class no longer exists in this file (reshaped code)" % (fl, cls))
        else:
            for rid, key, site in lst:
                col.bad(rid, key, site.body.where(site.bb),
                        "content-dependent panic edge without a dominating guard: %s (%s). Input content reaches these operands; nothing on "
                        "the path establishes the condition that keeps this from panicking (%d un-audited site(s) of class %s in %s, %d "
                        "free audited slot(s))" % (site.desc[:160], site.kind, len(lst), cls, fl, free.get((fl, cls), 0)), {"kind": site.kind})
    return len(bodies)


_taint_cache = {}


def _taint(facts):
    k = id(facts)
    if k not in _taint_cache:
        _taint_cache[k] = T.Taint(facts)
    return _taint_cache[k]


def run(ctx):
    facts = ctx.facts("default")
    n = rule_scope(facts, ctx)
    # "spins forever": the two structural no-spin rules of C09 - no Again without possible progress, no already-satisfied
    # wait without certain progress (a block parked on a condition that already holds is called again at once, forever)
    from . import c09, c19
    c09.rule_r7(facts, ctx, rule_id="C15.S1")
    c09.rule_r2(facts, c19._Retag(ctx, "C09.R2", "C15.S2"))
    c09.rule_r4(facts, c19._Retag(ctx, "C09.R4", "C15.S3"))     # a wait for less than the test required is satisfied at once: spin
    ctx.floor("C15.S3", 30, "WaitForStream sites with a plain short-window test (same floor as C09.R4)")
    ctx.floor("C15.S1", 40, "WaitForStream verdicts with a constant amount (same floor as C09.R7)")
    ctx.floor("C15.S2", 50, "Again return sites / work bodies (same floor as C09.R2)")
    from .. import controls
    controls.expect(ctx, "C15.D1", lambda f, c: rule_scope(f, c), "BadSource", "content - 1 unguarded")
    controls.expect(ctx, "C15.D2", lambda f, c: rule_scope(f, c), "BadSource", "unwrap on a content-dependent Option")
    controls.expect(ctx, "C15.D3", lambda f, c: rule_scope(f, c), "BadSource", "table indexed by content")
    ctx.floor("C15.D1", 10, "content-tainted checked arithmetic sites")
    ctx.floor("C15.D2", 5, "content-tainted asserts/unwraps")
    ctx.floor("C15.D3", 10, "content-tainted indexing sites")
    ctx.explain("C15 (partial, audited): explicit-flow content taint (window elements, popped packets, bytes read, deserialised metadata; "
                "window lengths are not content) is propagated through the MIR of everything reachable from Block::work and the "
                "parsers; every panic edge (checked arithmetic on narrow or subtractive operations, division, explicit "
                "assert/panic, unwrap/expect, indexing and slice operations) whose operands are content-tainted must be discharged by a "
                "dominating guard (a >= b, b != 0, masked/bounded index, comparison with the indexed container's len()) or be listed, with a "
                "reason, in rrlint/c15_audit.txt (one entry per function + kind + operand signature, never by line). A new tainted "
                "unguarded site is reported until audited. 'Spins forever' is decided only in its structural form (S1/S2 = C09.R7/R2: no "
                "verdict that makes the runner call work() again at once is reachable without progress). Not decided: other non-termination, panics inside dependencies, implicit flows, "
                "overflow of 64-bit counters.")
    ctx.assume("64-bit counters and lengths do not overflow; dependencies (serde_json, tar, rustfft) do not panic; audited sites are safe "
               "for the stated reason")
