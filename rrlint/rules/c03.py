"""C03 — one producer thread and one consumer thread can share a stream safely (structural)."""
from ..common import *
from ..mir import peel, walk, show, same_expr
from .. import witness
from . import c01, c04

FULL_BUFFER = "circular_buffer::Circ::full_buffer"
BUF_SLICE = "circular_buffer::Buffer::slice"
BUF_SLICE_MUT = "circular_buffer::Buffer::slice_mut"
WIN_SLICE_R = "circular_buffer::BufferReader::slice"
WIN_SLICE_W = "circular_buffer::BufferWriter::slice"
READER_NEW = "circular_buffer::BufferReader::new"
WRITER_NEW = "circular_buffer::BufferWriter::new"
BUF_READ = "circular_buffer::Buffer::read_buf"
BUF_WRITE = "circular_buffer::Buffer::write_buf"
RAWISH = {"std::slice::from_raw_parts_mut", "std::slice::from_raw_parts", "std::mem::transmute", "std::mem::transmute_copy",
          "std::ptr::read", "std::ptr::write", "std::ptr::copy", "std::ptr::copy_nonoverlapping"}
ALLOWED_CALLERS = {
    FULL_BUFFER: {BUF_SLICE, BUF_SLICE_MUT},
    BUF_SLICE: {WIN_SLICE_R},
    BUF_SLICE_MUT: {WIN_SLICE_W},
    READER_NEW: {BUF_READ},
    WRITER_NEW: {BUF_WRITE},
}


def _window_method_with_own_bounds(body, t, callee):
    """`self.parent.slice(self.start, self.end)` from another method of the window type that owns those bounds (an accessor such
    as iter() that does what slice() does): still inside the window API, still the snapshot bounds"""
    want = "circular_buffer::BufferReader" if callee == BUF_SLICE else "circular_buffer::BufferWriter"
    if body.self_adt != want or body.kind == "closure" or len(t["args"]) < 3:
        return False
    from ..mir import self_field_path
    a, b = self_field_path(body.operand_expr(t["args"][1])), self_field_path(body.operand_expr(t["args"][2]))
    return a == ["start"] and b == ["end"]


def rule_r1(facts, col):
    """raw memory is reachable only through the window API"""
    for callee, allowed in sorted(ALLOWED_CALLERS.items()):
        n = 0
        for body, bb, t in facts.callers_of(callee):
            n += 1
            key = "%s<-%s" % (callee.split("::")[-2] + "::" + callee.split("::")[-1], body.q)
            if body.q in allowed:
                col.ok("C03.R1", key, body.where(bb), "allowed caller")
            elif callee in (BUF_SLICE, BUF_SLICE_MUT) and _window_method_with_own_bounds(body, t, callee):
                col.ok("C03.R1", key, body.where(bb), "another method of the same window type, called with the window's own (start, end)")
            else:
                col.bad("C03.R1", key, body.where(bb),
                        "%s is called from %s: raw ring memory / window bounds escape the window API (allowed callers: %s)"
                        % (callee, body.q, sorted(allowed)), {})
        if n == 0:
            col.bad("C03.R1", "anchor:%s" % callee, "", "no caller of %s found (API moved?)" % callee, {})
    # raw-pointer primitives in the stream modules
    for body, bb, t in facts.callers_of(lambda q: q in RAWISH):
        key = "%s:%s" % (body.q, t["f"]["name"])
        if body.file in ("src/circular_buffer.rs", "src/stream.rs"):
            if body.q == FULL_BUFFER:
                col.ok("C03.R1", key, body.where(bb), "the one raw slice (C01.R3 bounds it)")
            else:
                col.bad("C03.R1", key, body.where(bb), "raw memory primitive %s in the stream modules outside Circ::full_buffer" % t["f"]["q"], {})
    # signature rule: &self -> &mut [T]
    for f in facts.fns:
        ins = f.get("inputs") or []
        out = (f.get("output") or {}).get("s", "")
        if not ins:
            continue
        a0 = ins[0]["s"]
        if a0.startswith("&") and not a0.startswith("&mut") and out.startswith("&mut") and f["span"]["f"] in ("src/circular_buffer.rs", "src/stream.rs"):
            key = "mut_from_ref:%s" % f["q"]
            if f["q"] in (FULL_BUFFER, BUF_SLICE_MUT):
                col.ok("C03.R1", key, "%s:%d" % (f["span"]["f"], f["span"]["l"]), "known &self -> &mut accessor (callers restricted above)")
            else:
                col.bad("C03.R1", key, "%s:%d" % (f["span"]["f"], f["span"]["l"]),
                        "a new `&self -> &mut` accessor hands out mutable access to shared stream memory", {})


def rule_r2(facts, col):
    """window bounds are snapshots taken under the state lock"""
    for ctor, rng in ((READER_NEW, "circular_buffer::BufferState::read_range"), (WRITER_NEW, "circular_buffer::BufferState::write_range")):
        for body, bb, t in facts.callers_of(ctor):
            key = "%s:%s" % (body.q, ctor.split("::")[-2])
            _, held = guards_held_at_entry(body)
            probs = []
            srcs = set()
            for i in range(1, len(t["args"])):
                e = peel(body.operand_expr(t["args"][i]), through_try=False)
                # a bound is a component of the range snapshot: `r.0` / `r.1`, or a small struct built from them
                # (`Window { start: r.0, end: r.1 }`)
                comps = []
                for x in ([e] if e.k == "field" else (e.args or []) if e.k == "agg" else [e]):
                    x = peel(x, through_try=False)
                    src = None
                    if x.k == "field" and x.a is not None:
                        c = peel(x.a, through_try=False)
                        if c.k == "call" and c.q == rng:
                            src = c
                    comps.append(src)
                if not comps or any(c is None for c in comps):
                    probs.append("bound %d is not a component of %s()" % (i, rng.split("::")[-1]))
                for src in comps:
                    if src is None:
                        continue
                    if not held.get(src.bb):
                        probs.append("%s() is evaluated without the state lock held" % rng.split("::")[-1])
                    srcs.add(src.bb)
            if len(srcs) > 1:
                probs.append("start and end come from two separate snapshots (state can change in between)")
            if probs:
                col.bad("C03.R2", key, body.where(bb), "; ".join(sorted(set(probs))), {})
            else:
                col.ok("C03.R2", key, body.where(bb), "(start,end) = %s() evaluated under the state MutexGuard" % rng.split("::")[-1])


def rule_r3(facts, col):
    """the ring state only lives inside a Mutex and is never accessed around it"""
    n = 0
    for path, a in facts.adts.items():
        for v in a["variants"]:
            for f in v["fields"]:
                if c01.STATE_ADT in f["ty"]["adts"]:
                    n += 1
                    key = "%s.%s" % (path, f["name"])
                    if "std::sync::Mutex<%s>" % c01.STATE_ADT in f["ty"]["s"]:
                        col.ok("C03.R3", key, "", "BufferState inside a Mutex")
                    else:
                        col.bad("C03.R3", key, "", "BufferState stored outside a Mutex (%s)" % f["ty"]["s"], {})
    for body, bb, t in facts.callers_of({"std::sync::Mutex::get_mut", "std::sync::Mutex::into_inner", "std::sync::Mutex::try_lock",
                                         "std::sync::Mutex::clear_poison"}):
        if c01.STATE_ADT in " ".join(t["f"].get("substs") or []):
            col.bad("C03.R3", "%s:%s" % (body.q, t["f"]["name"]), body.where(bb), "ring state accessed around its lock with %s" % t["f"]["q"], {})


def rule_r5(facts, col):
    """unsafe impl inventory"""
    for im in facts.impls:
        if not im.get("unsafe"):
            continue
        key = "unsafe impl %s for %s" % (im["trait"], im["self_adt"] or im["self_ty"])
        if im["self_adt"] == "circular_buffer::Circ" and im["trait"] in ("std::marker::Send", "std::marker::Sync"):
            col.ok("C03.R5", key, "%s:%d" % (im["span"]["f"], im["span"]["l"]), "the known Send/Sync for Circ (justified by R1-R4)")
        elif im["span"]["f"] in ("src/circular_buffer.rs", "src/stream.rs") and not im.get("derived"):
            col.bad("C03.R5", key, "%s:%d" % (im["span"]["f"], im["span"]["l"]),
                    "a new unsafe impl on a type of the stream modules: thread-safety is asserted, not checked", {})
        else:
            col.ok("C03.R5", key, "%s:%d" % (im["span"]["f"], im["span"]["l"]), "outside the stream modules (listed, not alarmed)")


def lock_classes(facts):
    """per local function: set of Mutex classes (inner type) it locks directly"""
    direct = {}
    for b in facts.bodies:
        s = set()
        for bb, t in b.calls_to(MUTEX_LOCK):
            subs = t["f"].get("substs") or ["?"]
            s.add(subs[0])
        if s:
            direct[b.q] = s
    return direct


def rule_r6(facts, col):
    """lock order is acyclic"""
    cg = CallGraph(facts)
    direct = lock_classes(facts)
    # transitive closure
    trans = {q: set(s) for q, s in direct.items()}
    changed = True
    while changed:
        changed = False
        for q, outs in cg.out.items():
            acc = set(trans.get(q, set()))
            for o in outs:
                if o in trans and o != q:
                    acc |= trans[o]
            if acc != trans.get(q, set()):
                trans[q] = acc
                changed = True
    edges = {}
    for b in facts.bodies:
        gl = guard_locals(b)
        if not gl:
            continue
        _, held = guards_held_at_entry(b)
        for bb, t in b.calls():
            hs = held.get(bb)
            if not hs:
                continue
            qs = Body.callee_qs(t)
            if MUTEX_LOCK in qs:
                inner = {(t["f"].get("substs") or ["?"])[0]}
            else:
                inner = set()
                for q in qs:
                    inner |= trans.get(q, set())
            if not inner:
                continue
            for g in hs:
                cls = _guard_class(b, g)
                for c2 in inner:
                    if cls and c2 and cls != c2:
                        edges.setdefault((cls, c2), (b, bb))
                    elif cls and cls == c2 and MUTEX_LOCK in qs:
                        edges.setdefault((cls, c2), (b, bb))
    graph = {}
    for (a, c), _ in edges.items():
        graph.setdefault(a, set()).add(c)
    for (a, c), (b, bb) in sorted(edges.items()):
        key = "%s->%s" % (_short_cls(a), _short_cls(c))
        # cycle through this edge?
        seen, stack = set(), [c]
        cyc = False
        while stack:
            x = stack.pop()
            if x == a:
                cyc = True
                break
            if x in seen:
                continue
            seen.add(x)
            stack.extend(graph.get(x, ()))
        if cyc:
            col.bad("C03.R6", key, b.where(bb), "lock-order cycle: %s is held while (transitively) locking %s and vice versa "
                    "(deadlock between producer and consumer threads)" % (_short_cls(a), _short_cls(c)), {})
        else:
            col.ok("C03.R6", key, b.where(bb), "edge in an acyclic lock order")


def _short_cls(c):
    return c.replace("std::collections::", "").replace("std::", "")[:80]


def _guard_class(body, g):
    ty = body.locals[g]["ty"]
    i = ty.find("MutexGuard<")
    if i < 0:
        return None
    rest = ty[i + len("MutexGuard<"):]
    depth = 1
    out = ""
    for ch in rest:
        if ch == "<":
            depth += 1
        elif ch == ">":
            depth -= 1
            if depth == 0:
                break
        out += ch
    out = out.strip()
    if out.startswith("'"):
        out = out.split(",", 1)[1].strip() if "," in out else out
    return out


def rule_r7(facts, col):
    """refcount ceiling before a window is handed to a caller"""
    cg = CallGraph(facts)
    locking = c04.locking_fns(facts, cg)
    live_wr = c04.liveness_wrappers(facts, cg, locking)
    for body in facts.bodies:
        if body.self_adt not in ("stream::ReadStream", "stream::WriteStream") or body.kind == "closure":
            continue
        # the opener may be handed to a helper as a function item: `open_window(&self.circ, "read_buf", Buffer::read_buf)`,
        # which performs the ceiling test and then calls it
        for bb, t in body.calls():
            fnargs = [a["k"]["fn"] for a in t["args"] if "k" in a and isinstance(a["k"], dict) and a["k"].get("fn")]
            fnargs = [f_ for f_ in fnargs if f_.get("q") in (BUF_READ, BUF_WRITE)]
            if not fnargs:
                continue
            key = "%s:%s" % (body.q, fnargs[0]["name"])
            ok = False
            for q in Body.callee_qs(t):
                for hb in facts.by_q.get(q, []):
                    indirect = [(b2, t2) for b2, t2 in hb.calls() if (t2["f"].get("q") or "") in ("std::ops::FnOnce::call_once", "std::ops::Fn::call", "std::ops::FnMut::call_mut")
                                and t2["args"] and peel(hb.operand_expr(t2["args"][0]), through_try=False).k == "param"]
                    if not indirect:
                        continue
                    good = True
                    for b2, t2 in indirect:
                        dom = False
                        for edge, fact in edge_facts(hb):
                            if fact[0] in ("Lt", "Le", "Gt", "Ge") and (c04.is_liveness_expr(fact[1], live_wr) or c04.is_liveness_expr(fact[2], live_wr)) \
                                    and must_pass_edge(hb, b2, edge):
                                dom = True
                        good = good and dom
                    if good:
                        ok = True
            if ok:
                col.ok("C03.R7", key, body.where(bb), "window handed out by a helper that calls the opener only behind a strong_count ceiling test")
            else:
                col.bad("C03.R7", key, body.where(bb),
                        "the window opener is handed to a helper that can call it without a handle-count ceiling test", {})
        for bb, t in body.calls_to({BUF_READ, BUF_WRITE}):
            key = "%s:%s" % (body.q, t["f"]["name"])
            # handed to the caller? (the call result is the return value)
            handed = t["dst"]["l"] == 0 or any(peel(e, through_try=False).k == "call" and peel(e, through_try=False).bb == bb
                                               for _, _, e in assigns_to_return(body))
            if not handed:
                col.ok("C03.R7", key, body.where(bb), "window used internally and dropped (not handed out)")
                continue
            ok = False
            for edge, fact in edge_facts(body):
                if fact[0] in ("Lt", "Le", "Gt", "Ge") and (c04.is_liveness_expr(fact[1], live_wr) or c04.is_liveness_expr(fact[2], live_wr)):
                    if must_pass_edge(body, bb, edge):
                        ok = True
            if not ok:
                # ceiling test delegated to a helper:  check(count)?  whose Ok edge dominates the hand-out and which
                # compares that parameter and returns Err on one side
                from .c17 import ok_edge_of_result
                for cb, ct in body.calls():
                    qs = [q for q in Body.callee_qs(ct) if q in facts.by_q]
                    if not qs:
                        continue
                    pidx = [i + 1 for i, a in enumerate(ct["args"]) if c04.is_liveness_expr(body.operand_expr(a), live_wr)]
                    if not pidx:
                        continue
                    sw, okt = ok_edge_of_result(body, cb)
                    if okt is None or not must_pass_edge(body, bb, (sw, okt)):
                        continue
                    helper = facts.by_q[qs[0]][0]
                    for e2, f2 in edge_facts(helper):
                        if f2[0] in ("Lt", "Le", "Gt", "Ge"):
                            ps = [peel(f2[1], through_try=False), peel(f2[2], through_try=False)]
                            if any(x.k == "param" and x.idx in pidx for x in ps):
                                errs = [1 for rb, si, r in assigns_to_return(helper) if r.k == "agg" and r.variant == "Err"]
                                if errs:
                                    ok = True
            if ok:
                col.ok("C03.R7", key, body.where(bb), "window handed out only behind a strong_count ceiling test")
            else:
                col.bad("C03.R7", key, body.where(bb),
                        "a stream window is handed out without the handle-count ceiling test: a second live window on the "
                        "same side (aliasing &mut memory) is no longer refused", {})


def _lock_bbs(e):
    return {x.bb for x in walk(e) if x.k == "call" and (x.q == MUTEX_LOCK or x.q in CONDVAR_TIMED or x.q in CONDVAR_UNTIMED)}


_locking_cache = {}


def _state_locking_fns(facts):
    k = id(facts)
    if k not in _locking_cache:
        from . import c04
        cg = CallGraph(facts)
        _locking_cache[k] = {q for q in c04.locking_fns(facts, cg) if q.startswith("circular_buffer::Buffer")}
    return _locking_cache[k]


def _stale_control(facts, body, bb, rv, wl):
    """a controlling condition of the written value (the arms of an `if` that computes it, or the write itself) that reads the
    ring state through a call which takes the state lock on its own"""
    lockers = _state_locking_fns(facts)
    blocks = {bb}
    p = peel(rv, through_try=False)
    if p is not None and p.k == "multi":
        for dbb, si, kind, payload in body.defs().get(p.local, []):
            blocks.add(dbb)
    for b2 in blocks:
        for f in facts_at(body, b2):
            for e in f[1:]:
                if isinstance(e, (int, bool)) or e is None:
                    continue
                for x in walk(e):
                    if x.k == "call" and ((x.q in lockers) or (x.rq in lockers)) and getattr(x, "bb", None) is not None:
                        # the locking call is not the acquisition the write happens under
                        if not (_lock_bbs(x) & wl):
                            return show(x)[:60]
    return None


def rule_r9(facts, col, rule_id="C03.R9"):
    """read-modify-write of the ring state happens under ONE lock acquisition"""
    for body in facts.bodies:
        if body.kind == "closure":
            continue
        for bb, fld, st in c01.ring_writes(body):
            key = "%s:%s" % (body.q, fld)
            wl = _lock_bbs(c01.rw_dst_expr(body, st))
            rv = c01.rw_rv_expr(body, st)
            stale = []
            nreads = 0
            for x in walk(rv):
                is_read = (x.k == "field" and x.owner == c01.STATE_ADT) or \
                    (x.k == "call" and (x.q or "").startswith(c01.STATE_ADT + "::"))
                if not is_read:
                    continue
                rl = _lock_bbs(x)
                if not rl:
                    continue
                nreads += 1
                if wl and not (rl & wl):
                    stale.append(show(x)[:60])
            # control dependence: the choice of what is written is made on a value obtained under ANOTHER lock acquisition (a
            # call that locks the state itself, e.g. `let fills = n == self.free();` before taking the lock)
            if wl and not stale:
                ctl = _stale_control(facts, body, bb, rv, wl)
                if ctl:
                    stale.append("branch on " + ctl)
            if not wl:
                col.silent(rule_id, key, body.where(bb), "write not through a visible guard")
            elif stale:
                col.bad(rule_id, key, "%s:%d" % (st["sp"]["f"], st["sp"]["l"]),
                        "BufferState.%s is written from a value that was read under a DIFFERENT lock acquisition (%s): a commit or "
                        "consume by the other thread between the two acquisitions is overwritten (lost update; windows then overlap "
                        "or committed samples vanish)" % (fld, stale[0]), {})
            else:
                col.ok(rule_id, key, body.where(bb), "state read and written under the same guard (%d state reads)" % nreads)


_RB = {"stream::ReadStream::read_buf": "R", "stream::WriteStream::write_buf": "W"}


def rule_r12(facts, col, rule_id="C03.R12"):
    """one live window per stream end: where a body asks a stream for a window (read_buf / write_buf on a field of self), no
    window obtained earlier from the same end is still alive - it has been committed/consumed by value, handed on, or dropped
    on every path in between.  (Every window holds a handle on the shared ring; the handle-count ceiling of R7 is budgeted
    for one per side, so a second one makes the block itself or its peer fail with 'refcount 4' - depending only on when the
    peer's own window happens to exist.)  Liveness follows the window through its holders (`Result` -> `?` -> `let o`);
    dropping or moving out of the last holder ends it."""
    from ..mir import self_field_path
    for body in facts.bodies:
        calls = []
        for bb, t in body.calls():
            q = t["f"].get("q")
            if q in _RB and t["args"]:
                fp = self_field_path(body.operand_expr(t["args"][0]))
                if fp:
                    calls.append((bb, ".".join(fp), _RB[q]))
        if not calls:
            continue
        holders = {}
        for l, loc in enumerate(body.locals):
            ty = loc["ty"]
            if ("circular_buffer::BufferWriter<" not in ty and "circular_buffer::BufferReader<" not in ty) or ty.startswith("&"):
                continue
            org = None
            for x in walk(body.local_expr(l)):
                if x.k == "call" and x.q in _RB and getattr(x, "bb", None) is not None:
                    org = x.bb
                    break
            if org is not None:
                holders.setdefault(org, set()).add(l)
        for k_, (cbb, fld, kind) in enumerate(calls):
            key = "%s:%s(%s)#%d" % (body.q, "read_buf" if kind == "R" else "write_buf", fld, k_)
            hs = holders.get(cbb, set())
            start = body.term(cbb).get("t")
            if not hs or start is None:
                col.silent(rule_id, key, body.where(cbb), "window holder not visible")
                continue
            nonleaf = set()
            for l2 in hs:
                for dbb, si, k, payload in body.defs().get(l2, []):
                    ops = []
                    if k == "rv" and payload["k"] in ("use", "cast"):
                        ops = [payload["a"]]
                    elif k == "rv" and payload["k"] == "agg":
                        ops = payload["ops"]
                    elif k == "call":
                        ops = payload["args"]
                    for o in ops:
                        p = o.get("m")
                        if p is not None and p["l"] in hs and p["l"] != l2:
                            nonleaf.add(p["l"])
            leaves = hs - nonleaf
            kills = set()
            for bb in body.reachable(0):
                blk = body.blocks[bb]
                t = blk["term"]
                if t["k"] == "drop" and t["p"]["l"] in leaves:
                    kills.add(bb)
                ops = []
                for st in blk["stmts"]:
                    if st["k"] == "assign":
                        rv = st["rv"]
                        if rv["k"] in ("use", "cast"):
                            ops.append((rv["a"], st["dst"]["l"]))
                        elif rv["k"] == "agg":
                            ops += [(o, st["dst"]["l"]) for o in rv["ops"]]
                if t["k"] == "call":
                    ops += [(a, t["dst"]["l"] if t.get("dst") else None) for a in t["args"]]
                for o, dst in ops:
                    p = o.get("m")
                    if p is not None and p["l"] in leaves and dst not in hs:
                        kills.add(bb)
            r = body.reachable(start, avoid=kills) if start not in kills else set()
            again = [c2 for c2, f2, k2 in calls if f2 == fld and k2 == kind and c2 in r]
            if again:
                col.bad(rule_id, key, body.where(again[0]),
                        "a second window is requested from self.%s (%s) while the one obtained at %s can still be alive: the block "
                        "holds two handles on that ring, the stream's handle-count guard is budgeted for one per side, and the block "
                        "(or, innocently, its peer) fails with 'refcount 4' whenever the peer's window exists at the same moment - "
                        "never in a single-threaded run" % (fld, "read_buf" if kind == "R" else "write_buf", body.where(cbb)), {})
            else:
                col.ok(rule_id, key, body.where(cbb), "the window is consumed/committed, handed on or dropped before the next request on this end")


def run(ctx):
    facts = ctx.facts("default")
    from . import c02
    from .c19 import _Retag as c19_Retag
    sfacts = c02.stream_view(facts)      # the ring's entry points with private helpers / lock-and-run closures substituted in
    rule_r1(facts, ctx)
    rule_r2(sfacts, ctx)
    rule_r3(facts, ctx)
    n = witness.report(ctx, "C03.R4", "w_c03_r4_")
    rule_r5(facts, ctx)
    rule_r6(facts, ctx)
    rule_r7(facts, ctx)
    rule_r12(facts, ctx)
    ctx.floor("C03.R12", 80, "read_buf()/write_buf() requests of the crate's bodies")
    rule_r9(facts, ctx)
    ctx.floor("C03.R9", 4, "writes of rpos/used (consume) and wpos/used (produce)")
    from . import c02
    c02.rule_r7(sfacts, ctx, rule_id="C03.R10")
    ctx.floor("C03.R10", 1, "atomic commit: tags under the lock acquisition that advances wpos")
    c04.rule_r2(facts, c19_Retag(ctx, "C04.R2", "C03.R15"))     # "no more data will come" only from the handle count (seed s10-c03: a closed flag raised on handle drop)
    ctx.floor("C03.R15", 6, "non-false end-of-stream verdicts (same rule as C04.R2)")
    c04.rule_r1(facts, c19_Retag(ctx, "C04.R1", "C03.R14"))     # two reads that are not one snapshot: liveness must be read first (seed s9-c03)
    ctx.floor("C03.R14", 3, "end-of-stream verdicts of the read ends (same rule as C04.R1)")
    c01.rule_r4(facts, ctx, rule_id="C03.R8")
    from . import c19
    # a release that is not checked against the fill level (`consume_all()`: rpos = wpos, used = 0) frees samples the other side
    # committed after the window was taken: C01's refusal rule is a necessary condition of the sharing protocol too
    c01.rule_r1(facts, c19._Retag(ctx, "C01.R1", "C03.R11"))
    c02.rule_r6(sfacts, ctx, rule_id="C03.R13")      # the consumer releases only tags of the interval it consumed (never the producer's newer ones)
    ctx.floor("C03.R13", 2, "tag removal bounded by both ends of the consumed interval (same rule as C02.R6)")
    ctx.floor("C03.R11", 4, "writes of the ring positions / fill level (same rule as C01.R1)")
    ctx.floor("C03.R8", 2, "consume and produce bodies write only their own position")
    ctx.floor("C03.R1", 8, "callers of full_buffer/slice/slice_mut/window constructors + raw slice + 2 &self->&mut accessors")
    ctx.floor("C03.R2", 2, "BufferReader::new / BufferWriter::new call sites")
    ctx.floor("C03.R3", 1, "Buffer.state")
    ctx.floor("C03.R4", 28, "compile-fail witnesses and twins")
    ctx.floor("C03.R5", 2, "unsafe impl Send/Sync for Circ")
    ctx.floor("C03.R6", 1, "storage -> state lock edge")
    ctx.floor("C03.R7", 3, "ReadStream::read_buf, ReadStream::eof, WriteStream::write_buf")
    ctx.explain("C03 (structural): the protocol that justifies `unsafe impl Sync for Circ` has the required shape - raw ring "
                "memory and window constructors are reachable only through the window API (call-graph + signature rule), "
                "window bounds are read_range()/write_range() snapshots taken under the state MutexGuard, the ring state "
                "lives only inside a Mutex, compile-fail witnesses show one handle per side / by-value commit / unique "
                "borrow of the write slice, the unsafe-impl inventory is unchanged, the lock order is acyclic and windows "
                "are handed out only behind the handle-count ceiling. Disjointness of the two snapshot ranges (a value "
                "invariant) and linearizability as such are NOT decided.")
    ctx.assume("Rust's borrow checker / privacy rules (compile-fail witnesses are compiled by the same nightly rustc)")
