"""C17 — file sink: documented open modes, and consumed means on disk."""
from ..common import *
from ..mir import peel, walk, show, self_field_path, same_expr
from .. import effects

MODE_ADT = "file_sink::Mode"
OO = "std::fs::OpenOptions::"
SETTERS = {"read", "write", "append", "truncate", "create", "create_new"}
SHORTCUTS = {
    "std::fs::File::create": {"write", "create", "truncate"},
    "std::fs::File::create_new": {"read", "write", "create_new"},
    "std::fs::File::open": {"read"},
    "std::fs::File::options": set(),
    "std::fs::OpenOptions::new": set(),
}
REQUIRED = {
    "Create": dict(must={"write", "create_new"}, mustnot=set(),
                   doc="create a new file, fail if it exists"),
    "Overwrite": dict(must={"write", "create", "truncate"}, mustnot={"append", "create_new"},
                      doc="overwrite existing file, or create a new one"),
    "Append": dict(must={"append", "create"}, mustnot={"truncate", "create_new"},
                   doc="append to existing file, or create a new file if it doesn't exist"),
}
WRITE_ALL = "std::io::Write::write_all"
FLUSH = "std::io::Write::flush"


def _mode_switches(facts, body, variants):
    out = []
    for s in sorted(body.reachable(0)):
        t = body.term(s)
        if t["k"] != "switch":
            continue
        e = switch_discr_expr(body, s)
        if e.k != "discr":
            continue
        x = e.a
        while x is not None and x.k in ("ref", "deref"):
            x = x.a
        ty = None
        if x is not None and x.k == "param":
            ty = body.locals[x.idx]["ty"]
        elif x is not None and x.k in ("local", "multi"):
            ty = body.locals[x.local]["ty"]
        if ty is None or ty.lstrip("&").replace("mut ", "") != MODE_ADT:
            continue
        out.append(s)
    return out


def mode_table(facts, body, variants):
    """{variant: ('flags', frozenset) | ('silent', why)} for a function that matches on a Mode value and opens a file.
    Per variant the function is restricted to the sub-CFG in which the Mode switch takes only that variant's edge; every
    OpenOptions setter / File::create shortcut that can reach an open in that sub-CFG is interpreted over the finite flag set.
    A setter that is not on every path to the open (conditional flag) makes the arm 'silent'."""
    sws = _mode_switches(facts, body, variants)
    if not sws:
        return None
    s = sws[0]
    table = {}
    all_targets = {}
    for v in variants:
        tg = variant_target(body, s, variants.index(v), len(variants))
        if tg is not None:
            all_targets[v] = tg
    for v, tg in all_targets.items():
        cut = {(s, b) for b in body.succ[s] if b != tg}
        # when several variants share the target (otherwise edge) they are not separated: leave those silent
        if sum(1 for t2 in all_targets.values() if t2 == tg) > 1:
            table[v] = ("silent", "arm shared with another variant")
            continue
        sub = reachable_without_edges(body, 0, cut)
        opens = []
        setters = []
        for bb in sorted(sub):
            tt = body.term(bb)
            if tt["k"] != "call":
                continue
            q = tt["f"].get("q") or ""
            if q in ("std::fs::File::create", "std::fs::File::create_new", "std::fs::File::open"):
                opens.append(bb)
                setters.append((bb, None, SHORTCUTS[q]))
            elif q in SHORTCUTS:
                pass
            elif q.startswith(OO) and q[len(OO):] in SETTERS and len(tt["args"]) >= 2:
                val = peel(body.operand_expr(tt["args"][1]))
                name = q[len(OO):]
                setters.append((bb, name, True if (val.k == "const" and val.v is True) else False if (val.k == "const" and val.v is False) else None))
            elif q == OO + "open":
                opens.append(bb)
        if not opens and "OpenOptions" in body.locals[0]["ty"]:
            # the function hands the configured builder back: its caller opens it
            opens = [bb for bb in sub if body.term(bb)["k"] == "return"]
        if not opens:
            table[v] = ("silent", "no open on this variant's paths")
            continue
        flags = set()
        why = None

        def on_all_paths(bb):
            # every path (in the sub-CFG) from entry to each open passes bb, or bb is after the switch arm exclusive region
            for o in opens:
                if o == bb:
                    continue
                if bb not in body.reachable(0):
                    return False
                r = body.reachable(0, avoid={bb}, edge_filter=lambda a, b: (a, b) not in cut)
                if o in r and bb != 0:
                    # o reachable without bb: fine only if bb cannot reach o at all (belongs to another open)
                    if o in body.reachable(bb, edge_filter=lambda a, b: (a, b) not in cut):
                        return False
            return True
        seen_names = {}
        for bb, name, val in setters:
            if name is None:
                if len(opens) > 1 and not all(o == bb or bb not in sub for o in opens):
                    pass
                flags |= val
                continue
            if val is None:
                why = "non-constant flag %s" % name
                break
            if not on_all_paths(bb):
                why = "flag %s set on some paths only" % name
                break
            if name in seen_names and seen_names[name] != val:
                why = "flag %s set to both true and false" % name
                break
            seen_names[name] = val
        if why:
            table[v] = ("silent", why)
            continue
        for name, val in seen_names.items():
            if val:
                flags.add(name)
            else:
                flags.discard(name)
        table[v] = ("flags", frozenset(flags), s)
    return table


def rule_r1(facts, col):
    variants = enum_variants(facts, MODE_ADT)
    if not variants:
        return
    tables = {}
    for body in facts.bodies:
        if body.kind == "closure":
            continue
        t = mode_table(facts, body, variants)
        if t:
            tables[body.q] = (body, t)
    seen_tables = {}

    def judge(v, flags):
        req = REQUIRED.get(v)
        missing = req["must"] - flags
        forbidden = req["mustnot"] & flags
        if missing or forbidden:
            return "Mode::%s is documented as '%s' but opens with flags {%s}: %s%s" % (
                v, req["doc"], ",".join(sorted(flags)),
                ("missing " + ",".join(sorted(missing))) if missing else "",
                (" forbidden " + ",".join(sorted(forbidden))) if forbidden else "")
        return None

    verdicts = {}
    for q, (body, t) in tables.items():
        for v, r in t.items():
            key = "%s:%s" % (body.q, v)
            if v not in REQUIRED:
                continue
            if r[0] == "silent":
                col.silent("C17.R1", key, body.where(), r[1])
                continue
            flags, s = r[1], r[2]
            seen_tables.setdefault(v, {})[body.q] = flags
            bad = judge(v, flags)
            verdicts[(q, v)] = (bad, flags)
            if bad:
                col.bad("C17.R1", key, body.where(s), bad, {"flags": sorted(flags)})
            else:
                col.ok("C17.R1", key, body.where(s), "flags {%s}" % ",".join(sorted(flags)))
    # constructors that take a Mode and delegate the open to a function with a table
    cg = CallGraph(facts)
    for body in facts.bodies:
        if body.kind == "closure" or body.q in tables:
            continue
        if not any(l["ty"].lstrip("&").replace("mut ", "") == MODE_ADT for l in body.locals[1:1 + body.argc]):
            continue
        callee = None
        for bb, t in body.calls():
            for q in Body.callee_qs(t):
                if q in tables:
                    callee = q
        if callee is None:
            continue
        for v in variants:
            if (callee, v) not in verdicts:
                continue
            bad, flags = verdicts[(callee, v)]
            key = "%s:%s" % (body.q, v)
            if bad:
                col.bad("C17.R1", key, body.where(), "opens through %s: %s" % (callee, bad), {"flags": sorted(flags)})
            else:
                col.ok("C17.R1", key, body.where(), "opens through %s with flags {%s}" % (callee, ",".join(sorted(flags))))
    # sibling agreement
    for v, per in seen_tables.items():
        if len(set(per.values())) > 1:
            col.bad("C17.R1", "siblings:%s" % v, "", "the sinks disagree on the open flags of Mode::%s: %s" % (
                v, {k: sorted(x) for k, x in per.items()}), {})


def ok_edge_of_result(body, call_bb):
    """(switch_bb, ok_target) where the Result produced by call_bb is branched on (`?` or match)."""
    for s in sorted(body.reachable(0)):
        t = body.term(s)
        if t["k"] != "switch":
            continue
        e = switch_discr_expr(body, s)
        if e.k != "discr":
            continue
        x = e.a
        while x is not None and x.k in ("ref", "deref"):
            x = x.a
        if x is None or x.k != "call":
            continue
        if x.bb == call_bb:
            return s, variant_target(body, s, 0, 2)
        if x.q == "std::ops::Try::branch" and x.args:
            y = peel(x.args[0], through_try=False)
            if y.k == "call" and y.bb == call_bb:
                return s, variant_target(body, s, 0, 2)
    return None, None


def durable_write_fns(facts):
    """Local helper functions that, on every non-Err return, have passed the Ok edge of write_all and then the Ok
    edge of flush (wrapper summary: the helper 'is' a write_all+flush)."""
    out = set()
    for b in facts.bodies:
        if b.kind == "closure":
            continue
        wa = [bb for bb, t in b.calls_to(WRITE_ALL)]
        fl = [bb for bb, t in b.calls_to(FLUSH)]
        if len(wa) == 1 and not fl and b.name != "work":
            # `f.write_all(bytes).and_then(|()| f.flush())` as the helper's whole result: the closure runs exactly when the write
            # was Ok, and the helper's Ok is the flush's Ok
            good = False
            for bb, t in b.calls():
                if (t["f"].get("q") or "").startswith("std::result::Result::") and t["f"].get("name") == "and_then" and len(t["args"]) == 2:
                    r0 = peel(b.operand_expr(t["args"][0]), through_try=False)
                    if not (r0.k == "call" and r0.bb == wa[0]):
                        continue
                    for x in walk(b.operand_expr(t["args"][1])):
                        if x.k == "agg" and x.ak == "closure" and x.q:
                            cb = facts.by_path.get(x.q)
                            if cb is None:
                                continue
                            cfl = [b2 for b2, t2 in cb.calls_to(FLUSH)]
                            rets = set(cb.return_blocks())
                            if cfl and (0 in cfl or not (cb.reachable(0, avoid=set(cfl)) & rets)):
                                rr = [peel(e) for _, _, e in assigns_to_return(b)]
                                if rr and all(any(y.k == "call" and y.bb == bb for y in walk(r)) for r in rr):
                                    good = True
            if good:
                out.add(b.q)
            continue
        if len(wa) != 1 or len(fl) != 1 or b.name == "work":
            continue
        wsw, wok = ok_edge_of_result(b, wa[0])
        fsw, fok = ok_edge_of_result(b, fl[0])
        if wok is None or not must_pass_edge(b, fl[0], (wsw, wok)):
            continue
        good = True
        for rb, si, e in assigns_to_return(b):
            is_err = (e.k == "agg" and e.variant == "Err") or (e.k == "call" and (e.q or "").endswith("from_residual"))
            if is_err:
                continue
            if fok is None:
                # `w.write_all(b)?; w.flush()`: the flush result itself is what the helper returns - its Ok IS the flush's Ok
                r = peel(e)
                if not (any(x.k == "call" and x.bb == fl[0] for x in walk(r)) and must_pass_edge(b, rb, (wsw, wok))):
                    good = False
            elif not (must_pass_edge(b, rb, (fsw, fok)) and must_pass_edge(b, rb, (wsw, wok))):
                good = False
        if good:
            out.add(b.q)
    return out


def flush_fns(facts):
    """local methods that ARE a flush: one io::Write::flush call on a field of self whose Ok edge every non-error return
    passes (e.g. `pub fn flush(&mut self) -> Result<()> { Ok(self.f.flush()?) }`)"""
    out = set()
    for b in facts.bodies:
        if b.kind == "closure" or b.name == "work" or list(b.calls_to(WRITE_ALL)):
            continue
        fl = [bb for bb, t in b.calls_to(FLUSH)]
        if len(fl) != 1 or not self_field_path(b.operand_expr(b.term(fl[0])["args"][0])):
            continue
        fsw, fok = ok_edge_of_result(b, fl[0])
        good = True
        if fok is None:
            # `self.f.flush().map_err(..)`: the flush result itself is the return value (mapped)
            rets = [peel(e) for rb, si, e in assigns_to_return(b)]
            good = all(any(x.k == "call" and x.bb == fl[0] for x in walk(r)) for r in rets) and bool(rets)
        else:
            for rb, si, e in assigns_to_return(b):
                is_err = (e.k == "agg" and e.variant == "Err") or (e.k == "call" and (e.q or "").endswith("from_residual"))
                if not is_err and not must_pass_edge(b, rb, (fsw, fok)):
                    good = False
        if good:
            out.add(b.q)
    return out


def rule_r2(facts, col):
    wrappers = durable_write_fns(facts)
    flushers = flush_fns(facts)
    for body in facts.impl_bodies(BLOCK_TRAIT, "work"):
        if not (body.self_adt or "").startswith("file_sink::"):
            continue
        wa = [bb for bb, t in body.calls_to(WRITE_ALL)]
        fl = [bb for bb, t in body.calls_to(FLUSH)]
        if not fl and flushers:
            fl = [bb for bb, t in body.calls_to(flushers)]
        wr = [bb for bb, t in body.calls_to(wrappers)] if wrappers else []
        if wa and not fl:
            # `self.f.write_all(&line).and_then(|()| self.f.flush())?`: the flush runs in a closure, exactly when the write was
            # Ok, and the `?` sees the result of both - the and_then call stands for "write_all ok, then flush"
            for bb, t in body.calls():
                if (t["f"].get("q") or "").startswith("std::result::Result::") and t["f"].get("name") == "and_then" and len(t["args"]) == 2:
                    r0 = peel(body.operand_expr(t["args"][0]), through_try=False)
                    if not (r0.k == "call" and r0.bb in wa):
                        continue
                    for x in walk(body.operand_expr(t["args"][1])):
                        if x.k == "agg" and x.ak == "closure" and x.q:
                            cb = facts.by_path.get(x.q)
                            if cb is None:
                                continue
                            cfl = [b2 for b2, t2 in cb.calls_to(FLUSH)]
                            rets = set(cb.return_blocks())
                            if cfl and (0 in cfl or not (cb.reachable(0, avoid=set(cfl)) & rets)):
                                wa, fl = [bb], [bb]
        if wr and not wa and not fl:
            # the helper stands for write_all followed by flush
            wa, fl = [wr[0]], [wr[0]]
        key = body.q
        if not wa:
            col.bad("C17.R2", key + ":write_all", body.where(), "file sink work() never calls write_all", {})
            continue
        if not fl:
            col.bad("C17.R2", key + ":flush", body.where(), "file sink work() never flushes: consumed samples sit in the BufWriter "
                    "and are lost if the process is killed", {})
            continue
        # same file object
        def target(bb):
            return self_field_path(body.operand_expr(body.term(bb)["args"][0]))
        wsw, wok = ok_edge_of_result(body, wa[0])
        fsw, fok = ok_edge_of_result(body, fl[0])
        if wok is None or fok is None:
            col.bad("C17.R2", key + ":errors", body.where(wa[0]),
                    "the result of write_all/flush is not checked: a failed write is acknowledged as consumed", {})
            continue
        fl_is_wrapper = any(q in flushers for q in Body.callee_qs(body.term(fl[0])))
        if wa[0] != fl[0] and not fl_is_wrapper and target(wa[0]) != target(fl[0]):
            col.bad("C17.R2", key + ":same_file", body.where(fl[0]), "flush and write_all act on different objects", {})
            continue
        eff = effects.Effects(facts, body)
        consumes = [pt for pt, d in eff.stream_points.items() if not isinstance(pt, tuple) and "consume" in d]
        pops = [pt for pt in eff.stream_points if isinstance(pt, tuple)]
        probs = []
        for c in consumes:
            if not must_pass_edge(body, c, (fsw, fok)):
                probs.append("consume() at %s is reachable without a successful flush()" % body.where(c))
            if wa[0] != fl[0] and not must_pass_edge(body, fl[0], (wsw, wok)):
                probs.append("flush() is reachable without a successful write_all()")
            if not ((wa[0] == fl[0] or body.dominates(wa[0], fl[0])) and body.dominates(fl[0], c)):
                probs.append("order is not write_all -> flush -> consume")
        for (_, pbb, some_t) in pops:
            # every Ok(non-Err) return reachable from the Some edge passes write_all-ok then flush-ok
            for rb, verdict, e in effects.verdict_defs(body):
                if verdict == "Err":
                    continue
                if rb not in body.reachable(some_t):
                    continue
                cut1 = reachable_without_edges(body, some_t, {(wsw, wok)})
                cut2 = reachable_without_edges(body, some_t, {(fsw, fok)})
                if rb in cut1:
                    probs.append("a popped packet can be acknowledged (Ok return) without a successful write_all()")
                if rb in cut2:
                    probs.append("a popped packet can be acknowledged (Ok return) without a successful flush()")
                if wa[0] != fl[0] and not must_pass_edge(body, fl[0], (wsw, wok)):
                    probs.append("flush() is reachable without a successful write_all()")
        if not consumes and not pops:
            col.silent("C17.R2", key, body.where(), "no consumption point found")
            continue
        if probs:
            col.bad("C17.R2", key, body.where(fl[0]), "; ".join(sorted(set(probs))), {})
        else:
            col.ok("C17.R2", key, body.where(fl[0]), "write_all ok -> flush ok -> consumption acknowledged, on every path")


TRUNCATING = {"take", "skip", "step_by", "take_while", "skip_while", "filter", "filter_map", "nth", "last", "map_while", "chunks_exact", "rchunks"}


def rule_r3(facts, col, rule_id="C17.R3", scope=None):
    """what is acknowledged is what was processed: where a block consumes the WHOLE read window (`consume(i.len())`), what it
    does with the samples covers the whole window - no iterator adaptor or sub-slice that drops samples sits on the window,
    unless it is bounded by the very count that is consumed (`i.iter().take(MAX)` with `consume(i.len())` throws the rest away)"""
    from . import c09
    for body in facts.impl_bodies(BLOCK_TRAIT, "work"):
        if body.from_derive or not (scope(body) if scope is not None else (body.self_adt or "").startswith("file_sink::")):
            continue
        for cbb, ct in body.calls_to(effects.CONSUME):
            w = c09.window_of(body.operand_expr(ct["args"][0]))
            if not w:
                continue
            cnt = body.operand_expr(ct["args"][1])
            if not (c09.len_of_window(cnt) == w):
                continue        # a partial consume: which part was processed is a value question (C08.R3 / R5 look at some forms)
            key = "%s:consume(%s)" % (body.q, w[0])
            bad = None
            for bb, t in body.calls():
                nm = t["f"].get("name")
                q = t["f"].get("q") or ""
                if not t["args"]:
                    continue
                recv = body.operand_expr(t["args"][0])
                on_window = any(c09.window_of(x) == w for x in walk(recv))
                if not on_window:
                    continue
                if not (cbb in body.reachable(bb) or bb in body.reachable(cbb)):
                    continue        # another arm of a state machine: not the same call's window walk
                if nm in TRUNCATING and (q.startswith("std::iter::") or q.startswith("core::iter::") or "[T]::" in q or "slice" in q):
                    if nm == "take" and len(t["args"]) == 2 and same_expr(body.operand_expr(t["args"][1]), cnt):
                        continue
                    bad = (bb, "`.%s(..)` on the window's samples" % nm)
                elif nm in ("index", "index_mut") and len(t["args"]) == 2:
                    r = peel(body.operand_expr(t["args"][1]), through_try=False)
                    if r.k == "agg" and (r.adt or "").startswith("std::ops::Range") and r.adt != "std::ops::RangeFull":
                        if r.adt == "std::ops::RangeTo" and same_expr(r.args[0], cnt):
                            continue
                        bad = (bb, "a sub-slice of the window")
            if bad:
                col.bad(rule_id, key, body.where(bad[0]),
                        "work() consumes the whole window of self.%s (%s) but goes through its samples with %s that is not bounded by "
                        "that same count: the samples beyond it are acknowledged as consumed without ever having been processed "
                        "(dropped from the output / never written to the file)" % (w[0], show(cnt)[:40], bad[1]), {})
            else:
                col.ok(rule_id, key, body.where(cbb), "the whole consumed window is walked: no dropping adaptor or sub-slice on it")



# a body that raises an alarm as compiled is judged again on its work view (effects.view_fallback)
rule_r2 = effects.view_fallback(rule_r2)
rule_r3 = effects.view_fallback(rule_r3)

LENGTH_CHANGERS = {"set_len", "set_times", "set_permissions", "seek", "rewind", "set_modified"}


def rule_r4(facts, col, rule_id="C17.R4"):
    """what is already in the file is touched only by the open flags: no function of src/file_sink.rs (constructors, work(),
    their helpers and closures) calls File::set_len / Seek::seek / rewind on the sink's file.  `overwrite` truncates through the
    open flag that R1 checks; `append` and `create` must not shorten, rewrite or reposition anything - a set_len() 'tidying' a
    trailing partial sample, or a seek before the first write, changes bytes that were on disk before the sink existed."""
    n = 0
    for b in facts.bodies:
        if b.file != "src/file_sink.rs":
            continue
        n += 1
        hits = []
        for bb, t in b.calls():
            nm = t["f"].get("name") or ""
            q = t["f"].get("q") or ""
            if nm in LENGTH_CHANGERS and (q.startswith("std::fs::File::") or q.startswith("std::io::Seek::") or "BufWriter" in q):
                hits.append((bb, q))
        if hits:
            col.bad(rule_id, "%s:%s" % (b.q, hits[0][1].split("::")[-1]), b.where(hits[0][0]),
                    "%s is called on the sink's file: the open mode's flags are the only thing that may decide what happens to bytes "
                    "that were in the file before (append keeps ALL of them, create refuses an existing file, overwrite truncates "
                    "through its flag)" % hits[0][1], {})
        else:
            col.ok(rule_id, b.q, b.where(), "no set_len / seek on the file")
    return n


def rule_r5(facts, col, rule_id="C17.R5"):
    """what is acknowledged is what was written: a stream file sink's work() takes ONE read window per call - the bytes
    it serialises and the samples it consumes belong to the same window.  A second read_buf() after the write ("don't hold the
    window across file I/O") sees whatever the producer committed meanwhile; consuming by that window's length acknowledges
    samples that were never written."""
    for body in facts.impl_bodies(BLOCK_TRAIT, "work"):
        if not (body.self_adt or "").startswith("file_sink::"):
            continue
        v = effects.work_view(facts, body, methods=True)
        rb = [bb for bb, t in v.calls() if any(q == "stream::ReadStream::read_buf" for q in Body.callee_qs(t))]
        if not rb:
            continue
        key = "%s:one-window" % body.q
        if len(rb) == 1:
            col.ok(rule_id, key, v.where(rb[0]), "one read window per call")
        else:
            col.bad(rule_id, key, v.where(rb[1]),
                    "work() takes %d read windows in one call: samples committed between the acquisitions are counted in the later "
                    "window but were not part of what was written, so consuming by it acknowledges unwritten samples" % len(rb), {})


def run(ctx):
    facts = ctx.facts("default")
    ctx.anchor("C17", MODE_ADT in facts.adts, "enum file_sink::Mode")
    rule_r1(facts, ctx)
    rule_r2(facts, ctx)
    rule_r3(facts, ctx)
    rule_r5(facts, ctx)
    ctx.floor("C17.R5", 1, "FileSink::work")
    rule_r4(facts, ctx)
    ctx.floor("C17.R4", 4, "functions of src/file_sink.rs (constructors, work(), closures)")
    ctx.floor("C17.R3", 1, "FileSink::work's consume")
    ctx.floor("C17.R1", 6, "3 modes x {FileSink::new, NoCopyFileSink::new}")
    ctx.floor("C17.R2", 2, "FileSink::work, NoCopyFileSink::work")
    ctx.explain("C17: abstract interpretation of the OpenOptions builder over the finite flag set per `match mode` arm "
                "(File::create = write+create+truncate) against the documented table, both sinks agreeing (R1); "
                "dominance/must-pass: samples are consumed (or a popped packet acknowledged) only behind the Ok edge of "
                "flush(), itself behind the Ok edge of write_all(), on the same BufWriter (R2).")
    ctx.assume("OpenOptions flag semantics and BufWriter::flush reaching the kernel (write(2)) are as documented; kernel "
               "buffers survive SIGKILL of the process")
