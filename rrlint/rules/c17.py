"""C17 — file sink: documented open modes, and consumed means on disk."""
from ..common import *
from ..mir import peel, walk, show, self_field_path
from .. import effects

MODE_ADT = "file_sink::Mode"
OO = "std::fs::OpenOptions::"
SETTERS = {"read", "write", "append", "truncate", "create", "create_new"}
SHORTCUTS = {
    "std::fs::File::create": {"write", "create", "truncate"},
    "std::fs::File::create_new": {"read", "write", "create_new"},
    "std::fs::File::open": {"read"},
    "std::fs::File::options": set(),
    "std::fs::OpenOptions::new": set(),
}
REQUIRED = {
    "Create": dict(must={"write", "create_new"}, mustnot=set(),
                   doc="create a new file, fail if it exists"),
    "Overwrite": dict(must={"write", "create", "truncate"}, mustnot={"append", "create_new"},
                      doc="overwrite existing file, or create a new one"),
    "Append": dict(must={"append", "create"}, mustnot={"truncate", "create_new"},
                   doc="append to existing file, or create a new file if it doesn't exist"),
}
WRITE_ALL = "std::io::Write::write_all"
FLUSH = "std::io::Write::flush"


def rule_r1(facts, col):
    variants = enum_variants(facts, MODE_ADT)
    if not variants:
        return
    seen_tables = {}
    for body in facts.bodies:
        for s in sorted(body.reachable(0)):
            t = body.term(s)
            if t["k"] != "switch":
                continue
            e = switch_discr_expr(body, s)
            if e.k != "discr":
                continue
            x = e.a
            while x is not None and x.k in ("ref", "deref"):
                x = x.a
            ty = None
            if x is not None and x.k == "param":
                ty = body.locals[x.idx]["ty"]
            elif x is not None and x.k in ("local", "multi"):
                ty = body.locals[x.local]["ty"]
            if ty is None or ty.lstrip("&").replace("mut ", "") != MODE_ADT:
                continue
            arms = discr_switch_arms(body, facts, s, variants)
            regions = {}
            for v in variants:
                tg = variant_target(body, s, variants.index(v), len(variants))
                if tg is not None:
                    regions[v] = body.reachable(tg)
            for v, reg in regions.items():
                excl = set(reg)
                for v2, reg2 in regions.items():
                    if v2 != v:
                        excl -= reg2
                flags = set()
                opens = 0
                for bb in sorted(excl):
                    tt = body.term(bb)
                    if tt["k"] != "call":
                        continue
                    q = tt["f"].get("q") or ""
                    if q in SHORTCUTS:
                        flags |= SHORTCUTS[q]
                        if q in ("std::fs::File::create", "std::fs::File::create_new", "std::fs::File::open"):
                            opens += 1
                    elif q.startswith(OO) and q[len(OO):] in SETTERS:
                        val = peel(body.operand_expr(tt["args"][1]))
                        name = q[len(OO):]
                        if val.k == "const" and val.v is True:
                            flags.add(name)
                        elif val.k == "const" and val.v is False:
                            flags.discard(name)
                        else:
                            flags.add("?" + name)
                    elif q == OO + "open":
                        opens += 1
                key = "%s:%s" % (body.q, v)
                req = REQUIRED.get(v)
                if req is None or opens == 0:
                    col.silent("C17.R1", key, body.where(s), "no requirement / no open in this arm")
                    continue
                if any(f.startswith("?") for f in flags):
                    col.silent("C17.R1", key, body.where(s), "non-constant flag")
                    continue
                missing = req["must"] - flags
                forbidden = req["mustnot"] & flags
                seen_tables.setdefault(v, {})[body.q] = frozenset(flags)
                if missing or forbidden:
                    col.bad("C17.R1", key, body.where(s),
                            "Mode::%s is documented as '%s' but opens with flags {%s}: %s%s" % (
                                v, req["doc"], ",".join(sorted(flags)),
                                ("missing " + ",".join(sorted(missing))) if missing else "",
                                (" forbidden " + ",".join(sorted(forbidden))) if forbidden else ""),
                            {"flags": sorted(flags)})
                else:
                    col.ok("C17.R1", key, body.where(s), "flags {%s}" % ",".join(sorted(flags)))
    # sibling agreement
    for v, per in seen_tables.items():
        if len(set(per.values())) > 1:
            col.bad("C17.R1", "siblings:%s" % v, "", "the sinks disagree on the open flags of Mode::%s: %s" % (
                v, {k: sorted(x) for k, x in per.items()}), {})


def ok_edge_of_result(body, call_bb):
    """(switch_bb, ok_target) where the Result produced by call_bb is branched on (`?` or match)."""
    for s in sorted(body.reachable(0)):
        t = body.term(s)
        if t["k"] != "switch":
            continue
        e = switch_discr_expr(body, s)
        if e.k != "discr":
            continue
        x = e.a
        while x is not None and x.k in ("ref", "deref"):
            x = x.a
        if x is None or x.k != "call":
            continue
        if x.bb == call_bb:
            return s, variant_target(body, s, 0, 2)
        if x.q == "std::ops::Try::branch" and x.args:
            y = peel(x.args[0], through_try=False)
            if y.k == "call" and y.bb == call_bb:
                return s, variant_target(body, s, 0, 2)
    return None, None


def durable_write_fns(facts):
    """Local helper functions that, on every non-Err return, have passed the Ok edge of write_all and then the Ok
    edge of flush (wrapper summary: the helper 'is' a write_all+flush)."""
    out = set()
    for b in facts.bodies:
        if b.kind == "closure":
            continue
        wa = [bb for bb, t in b.calls_to(WRITE_ALL)]
        fl = [bb for bb, t in b.calls_to(FLUSH)]
        if len(wa) != 1 or len(fl) != 1 or b.name == "work":
            continue
        wsw, wok = ok_edge_of_result(b, wa[0])
        fsw, fok = ok_edge_of_result(b, fl[0])
        if wok is None or fok is None or not must_pass_edge(b, fl[0], (wsw, wok)):
            continue
        good = True
        for rb, si, e in assigns_to_return(b):
            is_err = (e.k == "agg" and e.variant == "Err") or (e.k == "call" and (e.q or "").endswith("from_residual"))
            if is_err:
                continue
            if not (must_pass_edge(b, rb, (fsw, fok)) and must_pass_edge(b, rb, (wsw, wok))):
                good = False
        if good:
            out.add(b.q)
    return out


def rule_r2(facts, col):
    wrappers = durable_write_fns(facts)
    for body in facts.impl_bodies(BLOCK_TRAIT, "work"):
        if not (body.self_adt or "").startswith("file_sink::"):
            continue
        wa = [bb for bb, t in body.calls_to(WRITE_ALL)]
        fl = [bb for bb, t in body.calls_to(FLUSH)]
        wr = [bb for bb, t in body.calls_to(wrappers)] if wrappers else []
        if wr and not wa and not fl:
            # the helper stands for write_all followed by flush
            wa, fl = [wr[0]], [wr[0]]
        key = body.q
        if not wa:
            col.bad("C17.R2", key + ":write_all", body.where(), "file sink work() never calls write_all", {})
            continue
        if not fl:
            col.bad("C17.R2", key + ":flush", body.where(), "file sink work() never flushes: consumed samples sit in the BufWriter "
                    "and are lost if the process is killed", {})
            continue
        # same file object
        def target(bb):
            return self_field_path(body.operand_expr(body.term(bb)["args"][0]))
        wsw, wok = ok_edge_of_result(body, wa[0])
        fsw, fok = ok_edge_of_result(body, fl[0])
        if wok is None or fok is None:
            col.bad("C17.R2", key + ":errors", body.where(wa[0]),
                    "the result of write_all/flush is not checked: a failed write is acknowledged as consumed", {})
            continue
        if wa[0] != fl[0] and target(wa[0]) != target(fl[0]):
            col.bad("C17.R2", key + ":same_file", body.where(fl[0]), "flush and write_all act on different objects", {})
            continue
        eff = effects.Effects(facts, body)
        consumes = [pt for pt, d in eff.stream_points.items() if not isinstance(pt, tuple) and "consume" in d]
        pops = [pt for pt in eff.stream_points if isinstance(pt, tuple)]
        probs = []
        for c in consumes:
            if not must_pass_edge(body, c, (fsw, fok)):
                probs.append("consume() at %s is reachable without a successful flush()" % body.where(c))
            if wa[0] != fl[0] and not must_pass_edge(body, fl[0], (wsw, wok)):
                probs.append("flush() is reachable without a successful write_all()")
            if not ((wa[0] == fl[0] or body.dominates(wa[0], fl[0])) and body.dominates(fl[0], c)):
                probs.append("order is not write_all -> flush -> consume")
        for (_, pbb, some_t) in pops:
            # every Ok(non-Err) return reachable from the Some edge passes write_all-ok then flush-ok
            for rb, verdict, e in effects.verdict_defs(body):
                if verdict == "Err":
                    continue
                if rb not in body.reachable(some_t):
                    continue
                cut1 = reachable_without_edges(body, some_t, {(wsw, wok)})
                cut2 = reachable_without_edges(body, some_t, {(fsw, fok)})
                if rb in cut1:
                    probs.append("a popped packet can be acknowledged (Ok return) without a successful write_all()")
                if rb in cut2:
                    probs.append("a popped packet can be acknowledged (Ok return) without a successful flush()")
                if wa[0] != fl[0] and not must_pass_edge(body, fl[0], (wsw, wok)):
                    probs.append("flush() is reachable without a successful write_all()")
        if not consumes and not pops:
            col.silent("C17.R2", key, body.where(), "no consumption point found")
            continue
        if probs:
            col.bad("C17.R2", key, body.where(fl[0]), "; ".join(sorted(set(probs))), {})
        else:
            col.ok("C17.R2", key, body.where(fl[0]), "write_all ok -> flush ok -> consumption acknowledged, on every path")


def run(ctx):
    facts = ctx.facts("default")
    ctx.anchor("C17", MODE_ADT in facts.adts, "enum file_sink::Mode")
    rule_r1(facts, ctx)
    rule_r2(facts, ctx)
    ctx.floor("C17.R1", 6, "3 modes x {FileSink::new, NoCopyFileSink::new}")
    ctx.floor("C17.R2", 2, "FileSink::work, NoCopyFileSink::work")
    ctx.explain("C17: abstract interpretation of the OpenOptions builder over the finite flag set per `match mode` arm "
                "(File::create = write+create+truncate) against the documented table, both sinks agreeing (R1); "
                "dominance/must-pass: samples are consumed (or a popped packet acknowledged) only behind the Ok edge of "
                "flush(), itself behind the Ok edge of write_all(), on the same BufWriter (R2).")
    ctx.assume("OpenOptions flag semantics and BufWriter::flush reaching the kernel (write(2)) are as documented; kernel "
               "buffers survive SIGKILL of the process")
