"""C06 — single-threaded runner returns only at quiescence."""
from ..common import *
from ..mir import peel, walk, show
from ..runners import *
from .. import effects

INDEX = "std::ops::Index::index"
INDEX_MUT = "std::ops::IndexMut::index_mut"


def st_sites(facts):
    ts = thread_side_paths(facts)
    out = []
    for body in runner_bodies(facts):
        if body.path in ts:
            continue
        for ws in work_sites(facts, body):
            out.append(ws)
    return out


def outer_loop(body, wbb):
    comp = scc_of(body, wbb)
    if comp is None:
        return None, None
    heads = [b for b in comp if any(p not in comp for p in body.pred[b])]
    return comp, heads


def rule_r1(facts, col, sites):
    """no `return Ok` in a pass with a live verdict"""
    for ws in sites:
        body = ws.body
        base = body.q
        if not ws.complete():
            col.bad("C06.R1", base + ":shape", body.where(ws.wbb), "work() result is not matched on", {})
            continue
        comp, heads = outer_loop(body, ws.wbb)
        if comp is None:
            col.bad("C06.R1", base + ":loop", body.where(ws.wbb), "work() is not called in a loop", {})
            continue
        cancel_edges = {(s, t) for (_, s, t) in cancel_polls(body)}
        for v in ("Again", "Pending"):
            tgt = ws.arms.get(v)
            key = "%s:%s" % (base, v)
            if tgt is None:
                col.bad("C06.R1", key, body.where(ws.ret_switch), "no arm for BlockRet::%s" % v, {})
                continue
            r, _ = flag_search(body, [tgt], stop=set(heads) | {ws.wbb}, cut_edges=cancel_edges)
            rets = [b for b in r if body.term(b)["k"] == "return"]
            if rets:
                col.bad("C06.R1", key, body.where(tgt),
                        "in a pass where a block answered %s the runner can still return Ok without another pass: it "
                        "returns with a block that asked to be called again (data left unprocessed)" % v,
                        {"returns": rets})
            else:
                col.ok("C06.R1", key, body.where(tgt), "a pass containing %s always continues with another pass" % v)


def rule_r5(facts, col, sites):
    """a pass in which no block asked to be called again ends the run: from the head of the pass loop, with the Again and
    Pending arms (and the error / cancel exits) cut away, a `return` is reachable and the head is NOT reached again - otherwise
    run() spins forever over blocks that all said they are waiting"""
    for ws in sites:
        body = ws.body
        base = body.q
        if not ws.complete():
            continue
        comp, heads = outer_loop(body, ws.wbb)
        if comp is None or not heads:
            continue
        cut = {(s, t) for (_, s, t) in cancel_polls(body)}
        for v in ("Again", "Pending"):
            tgt = ws.arms.get(v)
            if tgt is not None:
                cut.add((ws.ret_switch, tgt))
        if ws.err_edge and ws.err_edge[1] is not None:
            cut.add(ws.err_edge)
        key = base + ":settled-pass-ends"
        h = heads[0]
        r, edges = flag_search(body, [h], cut_edges=cut)
        if edges is None:
            col.silent("C06.R5", key, body.where(h), "path search gave up")
            continue
        rets = [b for b in r if body.term(b)["k"] == "return"]
        back = [(a, b) for (a, b) in edges if b == h and a in comp]
        if not rets:
            col.bad("C06.R5", key, body.where(h), "after a pass of settled verdicts (no Again/Pending) run() can never return: the graph "
                    "hangs at quiescence", {})
        elif back:
            col.bad("C06.R5", key, body.where(back[0][0]),
                    "after a pass in which every block reported a settled verdict (wait / EOF) the runner can start another pass "
                    "instead of returning: with nothing left to do it spins (or sleeps) forever", {})
        else:
            col.ok("C06.R5", key, body.where(h), "a pass without Again/Pending leads to return and never to another pass")


def _expr_root_local(e, depth=0, body=None):
    """the container local an element expression is taken from: `*index(&V, i)`, or an item of `V.iter_mut()` (possibly
    zipped with other iterators): follows ref/deref/field/downcast and the first argument of calls"""
    n = 0
    while e is not None and n < 40:
        n += 1
        if e.k in ("local", "multi"):
            return e.local
        if e.k in ("ref", "deref", "field", "downcast", "cast"):
            e = e.a
            continue
        if e.k == "call":
            nm = (e.q or "").split("::")[-1]
            if nm == "zip" and e.args and len(e.args) == 2:
                # the bool cell is the zip side whose item type is bool: try the second (most recent) then the first
                for a in (e.args[1], e.args[0]):
                    r = _expr_root_local(a, depth + 1, body) if depth < 6 else None
                    if r is not None:
                        return r
                return None
            if body is not None and nm in ("from_elem", "new", "with_capacity", "collect", "to_vec") and getattr(e, "bb", None) is not None:
                t_ = body.term(e.bb)
                if t_["k"] == "call" and t_.get("dst") is not None and not t_["dst"]["p"]:
                    return t_["dst"]["l"]       # the vector built here (a single-assignment local shows as its constructor)
            if e.args:
                e = e.args[0]
                continue
        return None
    return None


def _bool_vec_local(body, l):
    return l is not None and 0 <= l < len(body.locals) and ("Vec<bool>" in body.locals[l]["ty"] or "[bool" in body.locals[l]["ty"])


def _flag_tests(body):
    """[(switch bb, container local, true target, false target)] for bool switches on an element of a bool vector: either
    `v[i]` or the item of an iterator over it (`for (b, done) in blocks.iter_mut().zip(v.iter_mut())`)"""
    out = []
    for s in sorted(body.reachable(0)):
        t = body.term(s)
        if t["k"] != "switch" or t.get("dty") != "bool":
            continue
        e = switch_discr_expr(body, s)
        neg = False
        while e is not None and e.k == "un" and e.op == "Not":
            neg = not neg
            e = e.a
        x = e
        while x is not None and x.k in ("deref", "ref"):
            x = x.a
        if x is None:
            continue
        root = None
        if x.k == "call" and x.q == INDEX:
            root = _root_local(body, body.term(x.bb)["args"][0])
        elif x.k in ("field", "downcast") or (x.k == "call" and (x.q or "").endswith("Iterator::next")):
            # zipped candidates: pick a bool-vector root
            cands = []
            for y in walk(x):
                if y.k == "call" and (y.q or "").split("::")[-1] in ("iter_mut", "iter") and y.args:
                    r = _expr_root_local(y.args[0], 0, body)
                    if _bool_vec_local(body, r):
                        cands.append(r)
            if len(set(cands)) == 1:
                root = cands[0]
        if root is None or not _bool_vec_local(body, root):
            continue
        bt = bool_edge_targets(body, s)
        if not bt:
            continue
        out.append((s, root, bt[1] if neg else bt[0], bt[0] if neg else bt[1]))
    return out


def _flag_stores(body, vl):
    """(blocks storing `true`, blocks storing something else) into an element of bool vector `vl` - through index_mut or
    through an iterator item `*item = ..`"""
    good, bad = set(), set()
    handles = set()
    for bb, t in body.calls_to(INDEX_MUT):
        if _root_local(body, t["args"][0]) == vl:
            handles.add(t["dst"]["l"])
    for l, loc in enumerate(body.locals):
        if loc["ty"].replace(" ", "") == "&mutbool" and l not in handles:
            e = body.local_expr(l)
            cands = []
            for y in walk(e):
                if y.k == "call" and (y.q or "").split("::")[-1] == "iter_mut" and y.args:
                    r = _expr_root_local(y.args[0], 0, body)
                    if _bool_vec_local(body, r):
                        cands.append(r)
            if cands and set(cands) == {vl}:
                handles.add(l)
    for b2 in range(body.n):
        for st in body.blocks[b2]["stmts"]:
            if st["k"] == "assign" and st["dst"]["l"] in handles and st["dst"]["p"] == ["*"]:
                if is_const(body.rvalue_expr(st["rv"]), True):
                    good.add(b2)
                else:
                    bad.add(b2)
    return good, bad


def _retired_vec(body, ws):
    """Find the `retired` flag container: work() is dominated by the false edge of a switch on an element of a bool vector
    (`v[i]`, or the item of an iterator over it). Returns (local V, switch bb, skip target)"""
    for s, root, tr, fa in _flag_tests(body):
        if must_pass_edge(body, ws.wbb, (s, fa)):
            return root, s, tr
    return None, None, None


def _root_local(body, op):
    """Follow `&_x` / `&mut _x` temporaries to the local they borrow."""
    p = op.get("m") or op.get("c")
    if p is None:
        return None
    l = p["l"]
    for _ in range(6):
        ds = body.defs().get(l, [])
        if len(ds) == 1 and ds[0][2] == "rv" and ds[0][3]["k"] in ("ref", "rawptr") and not ds[0][3]["p"]["p"]:
            l = ds[0][3]["p"]["l"]
        elif len(ds) == 1 and ds[0][2] == "rv" and ds[0][3]["k"] == "use":
            q = ds[0][3]["a"].get("m") or ds[0][3]["a"].get("c")
            if q is None or q["p"]:
                break
            l = q["l"]
        else:
            break
    return l


def rule_r2(facts, col, sites):
    """retirement: retired blocks are skipped; EOF / closed / eof() retire; nothing un-retires"""
    for ws in sites:
        body = ws.body
        base = body.q
        if not ws.complete():
            continue
        vl, sw, skip = _retired_vec(body, ws)
        if vl is None:
            col.bad("C06.R2", base + ":skip", body.where(ws.wbb),
                    "work() is not guarded by a per-block retired flag: a block that reported EOF / a closed stream is "
                    "called again", {})
            continue
        col.ok("C06.R2", base + ":skip", body.where(sw), "work() only behind the false edge of retired[_%d][n]" % vl)
        # initial state: nobody is retired before the first pass
        inits = body.defs().get(vl, [])
        init_ok = None
        for dbb, si, kind, payload in inits:
            if kind == "rv":
                continue
            t0 = body.term(dbb)
            q0 = t0["f"].get("q") or ""
            if q0 == "std::vec::from_elem" and t0["args"]:
                v0 = peel(body.operand_expr(t0["args"][0]), through_try=False)
                init_ok = is_const(v0, False)
                if not init_ok:
                    col.bad("C06.R2", base + ":init", body.where(dbb),
                            "the per-block retired flags do not start out all-false (%s): blocks are skipped from the first pass on and "
                            "run() returns Ok with nothing (or not everything) executed" % show(v0)[:20], {})
        if init_ok:
            col.ok("C06.R2", base + ":init", body.where(inits[0][0]), "retired flags start all-false")
        elif init_ok is None:
            col.silent("C06.R2", base + ":init", body.where(sw), "initialisation of the retired flags not recognised")
        # stores into the retired vector
        store_blocks, bad_store = _flag_stores(body, vl)
        bad_store = sorted(bad_store)
        for b2 in bad_store:
            col.bad("C06.R2", base + ":store", body.where(b2), "the retired flag is assigned something other than `true`", {})
        comp = scc_of(body, ws.wbb)
        nexts = [b for b in finite_next_blocks(body) if b in comp]
        stop = set(nexts)
        # EOF arm must retire
        tgt = ws.arms.get("EOF")
        key = base + ":EOF"
        if tgt is None:
            col.bad("C06.R2", key, body.where(ws.ret_switch), "no arm for BlockRet::EOF", {})
        else:
            r, _ = flag_search(body, [tgt], stop=stop | {ws.wbb}, avoid=store_blocks)
            if tgt in store_blocks:
                r = set()
            if r & (stop | {ws.wbb}):
                col.bad("C06.R2", key, body.where(tgt), "BlockRet::EOF does not retire the block (it will be called again forever: run() never returns)", {})
            else:
                col.ok("C06.R2", key, body.where(tgt), "EOF retires the block")
        for v in ("WaitForStream", "WaitForFunc"):
            tgt = ws.arms.get(v)
            if tgt is None:
                col.bad("C06.R2", "%s:%s" % (base, v), body.where(ws.ret_switch), "no arm for BlockRet::%s" % v, {})
                continue
            arm_blocks = body.reachable(tgt, avoid=stop | {ws.wbb})
            tests = [(b, "eof()") for b in call_blocks(body, EOFQ) if b in arm_blocks]
            if v == "WaitForStream":
                cl = [(b, "closed()") for b in call_blocks(body, CLOSEDQ) if b in arm_blocks]
                if not cl:
                    col.bad("C06.R2", "%s:%s:closed" % (base, v), body.where(tgt),
                            "the WaitForStream arm does not ask the stream whether its peer is gone: a block waiting on a "
                            "dead stream is never retired and run() never returns", {})
                tests += cl
            if not [t for t in tests if t[1] == "eof()"]:
                col.bad("C06.R2", "%s:%s:eof" % (base, v), body.where(tgt), "the %s arm does not consult the block's eof()" % v, {})
            for cb, what in tests:
                key = "%s:%s:%s" % (base, v, what)
                r, _ = flag_search(body, [cb], stop=stop | {ws.wbb}, avoid=store_blocks, call_results={cb: True})
                if r & (stop | {ws.wbb}):
                    col.bad("C06.R2", key, body.where(cb),
                            "%s returned true in the %s arm but the block is not retired on some path" % (what, v), {})
                else:
                    col.ok("C06.R2", key, body.where(cb), "%s == true retires the block" % what)


def runner_premise(body, ws):
    """Can the runner return Ok at the end of a pass in which every verdict was settled, without
    re-examining stream state after the last block ran?  (True for today's Graph::run.)"""
    comp, heads = outer_loop(body, ws.wbb)
    if comp is None:
        return False
    cancel_edges = {(s, t) for (_, s, t) in cancel_polls(body)}
    for v in ("WaitForStream", "WaitForFunc", "EOF"):
        tgt = ws.arms.get(v)
        if tgt is None:
            continue
        r, _ = flag_search(body, [tgt], stop=set(heads) | {ws.wbb}, cut_edges=cancel_edges)
        if any(body.term(b)["k"] == "return" for b in r):
            return True
    return False


def rule_r3(facts, col, sites):
    """quiescence inference vs. block summaries (assume/guarantee)"""
    prem = False
    for ws in sites:
        if ws.complete() and runner_premise(ws.body, ws):
            prem = True
            col.ok("C06.R3", ws.body.q + ":premise", ws.body.where(ws.wbb),
                   "runner may return Ok right after a pass of settled verdicts (so it relies on the blocks' guarantee)")
    if not prem:
        return
    for body in facts.impl_bodies(BLOCK_TRAIT, "work"):
        summ = effects.settled_after_effect(facts, body)
        for verdict, info in sorted(summ.items()):
            key = "settled-after-effect:%s:%s" % (body.q, verdict)
            if info["violating"]:
                col.bad("C06.R3", key, body.where(info["ret_bb"]),
                        "work() can move stream data (%s) and then answer %s in the same call; Graph::run takes a pass of "
                        "such verdicts as quiescence, so it can return Ok with data still in flight depending on the order "
                        "blocks were added" % (info["effect"], verdict),
                        {"effect_at": info.get("effect_where")})
            else:
                col.ok("C06.R3", key, body.where(info["ret_bb"]), "%s is only returned before any stream effect" % verdict)


def _skip_vectors(body, ws):
    """every bool-vector element test whose false edge must be passed to reach work(): [(vector local, switch bb)]"""
    return [(root, s) for s, root, tr, fa in _flag_tests(body) if must_pass_edge(body, ws.wbb, (s, fa))]


def rule_r6(facts, col, sites):
    """a block is skipped only when it is finished: for EVERY per-block flag vector that keeps work() from being called, `true`
    is stored only where the block has reported EOF or its awaited stream is closed / its inputs are at end-of-stream (the EOF
    arm, or behind the true edge of closed() / eof()).  A flag that parks a block on an ordinary WaitForStream makes the pass
    logic blind to data handed over by calls that do not answer Again (a source's last piece + EOF, a resampler's
    WaitForStream after moving data): run() returns Ok with samples still in a stream."""
    for ws in sites:
        body = ws.body
        if not ws.complete():
            continue
        vecs = _skip_vectors(body, ws)
        cut = set()
        for q in (CLOSEDQ, EOFQ):
            for cbb, t in body.calls_to(q):
                for sw, tr, fa in result_switches(body, cbb):
                    cut.add((sw, tr))
        eof_arm = ws.arms.get("EOF")
        avoid = {eof_arm} if eof_arm is not None else set()
        reached, _ = flag_search(body, [ws.ret_switch], cut_edges=cut, avoid=avoid | {ws.wbb})
        for vl, sw in vecs:
            key = "%s:skip-flag(_%s)" % (body.q, body.var_name_of_local(vl) or vl)
            stores = sorted(_flag_stores(body, vl)[0])
            early = [b2 for b2 in stores if b2 in reached]
            if early:
                col.bad("C06.R6", key, body.where(early[0]),
                        "a per-block flag that keeps work() from being called is set on a path where the block has neither reported EOF "
                        "nor been found at end-of-stream (closed()/eof() true): the block is skipped while it may still have work, and a "
                        "pass in which the remaining blocks hand data over without answering Again ends the run with samples in flight", {})
            else:
                col.ok("C06.R6", key, body.where(sw), "set only when the block is finished (EOF arm / closed() / eof())")


def run(ctx):
    facts = ctx.facts("default")
    sites = st_sites(facts)
    ctx.anchor("C06", len(sites) >= 1, "a non-threaded GraphRunner::run impl calling dyn Block::work()")
    rule_r1(facts, ctx, sites)
    rule_r2(facts, ctx, sites)
    rule_r3(facts, ctx, sites)
    rule_r5(facts, ctx, sites)
    ctx.floor("C06.R5", 1, "Graph::run pass loop")
    rule_r6(facts, ctx, sites)
    ctx.floor("C06.R6", 1, "per-block skip flags of Graph::run (the retired vector)")
    from . import c09
    c09.rule_r5(facts, ctx, rule_id="C06.R4")
    # "does not depend on the stream buffer size": carried state built from samples the call did not consume changes with how
    # much input happened to be waiting (seed s8-c06) - same rule as C08.R10
    from . import c08, c19
    c09.rule_r9(facts, ctx, rule_id="C06.R9")           # a wait answered without looking at the stream reads as quiescence (seed s10-c06)
    ctx.floor("C06.R9", 40, "WaitForStream verdicts on effect-free paths (same rule as C09.R9)")
    c08.rule_r14(facts, ctx, rule_id="C06.R8")          # frames cut at a point that depends on the free output space (seed s9-c06)
    ctx.floor("C06.R8", 1, "write windows processed in frames (same rule as C08.R14)")
    c08.rule_r10(facts, c19._Retag(ctx, "C08.R10", "C06.R7"))
    ctx.floor("C06.R7", 10, "hand-written work() bodies that consume part of a window (same rule as C08.R10)")
    ctx.floor("C06.R4", 60, "WaitForStream verdicts with a visible amount (no demand that grows with a peer's backlog)")
    from .. import controls
    controls.expect(ctx, "C06.R1", lambda f, c: rule_r1(f, c, st_sites(f)), "BadRunner", "Again arm leaves done == true")
    ctx.floor("C06.R1", 2, "Again and Pending arms of Graph::run")
    ctx.floor("C06.R2", 5, "skip test, EOF arm, closed()/eof() tests of Graph::run")
    ctx.floor("C06.R3", 40, "premise + (work body, settled verdict) pairs")
    ctx.explain("C06: on the MIR of Graph::run, flag-sensitive path search shows that a pass containing an Again or "
                "Pending verdict cannot reach `return` before the outer loop header (R1); work() is only reachable "
                "behind the false edge of the per-block retired flag, EOF / closed()==true / eof()==true always store "
                "true into it and nothing stores false (R2). R3 is an assume/guarantee check: because the runner "
                "returns after a pass of settled verdicts without re-examining streams, every Block::work body is "
                "summarised (stream effects vs. returned verdict); bodies that can move data and then report "
                "WaitForStream/WaitForFunc/EOF break the runner's inference (known findings, one per block+verdict).")
    ctx.assume("verdict contract of blocks (C09); closed()/eof() soundness (C04)")
