"""C13 — HDLC deframer: nothing invalid is emitted (partial)."""
from ..common import *
from ..mir import peel, walk, show, self_field_path, same_expr
from .. import effects

DEFRAMER = "hdlc_deframer::HdlcDeframer"
PUSH = effects.PUSH
STATE_ENUM = "hdlc_deframer::State"


def _has(e, pred):
    return any(pred(x) for x in walk(e))


def _is_len_of_bits(e):
    """len() of a Vec/slice (the collected bits)"""
    p = peel(e, through_try=False)
    return p.k == "call" and (p.q or "").split("::")[-1] == "len"


def rule_r1(facts, col):
    """every packet emission is dominated by the length, minimum-size and (checksum on) CRC-equality guards"""
    for body in facts.bodies:
        if body.self_adt != DEFRAMER or body.kind == "closure":
            continue
        pushes = [bb for bb, t in body.calls_to(PUSH)]
        for i, pb in enumerate(pushes):
            fs = facts_at_with_callers(facts, body, pb)
            key = "%s:push#%d" % (body.q, i)
            mult8 = minsz = False
            crc_on = None
            crc_eq = False
            for f in fs:
                rel = f[0]
                if rel in ("Eq", "IntEq"):
                    a = f[1]
                    b = f[2] if rel == "Eq" else None
                    sides = [a] + ([b] if b is not None else [])
                    zero = (rel == "IntEq" and f[2] == 0) or any(peel(x, through_try=False).k == "const" and peel(x, through_try=False).v == 0 for x in sides)
                    if zero and any(_has(x, lambda y: y.k == "bin" and y.op == "Rem" and peel(y.b, through_try=False).k == "const" and peel(y.b, through_try=False).v == 8) for x in sides):
                        mult8 = True
                if rel in ("Ge", "Gt", "Le", "Lt"):
                    a, b = f[1], f[2]
                    if rel in ("Le", "Lt"):
                        a, b = b, a
                    # a >= b : a is len/8, b is self.min_size
                    fb = self_field_path(b)
                    if fb and fb[-1] == "min_size" and _has(a, lambda y: y.k == "bin" and y.op == "Div"):
                        minsz = True
                if rel == "BoolVal":
                    fp = self_field_path(f[1])
                    if fp and fp[-1] == "strip_checksum":
                        crc_on = f[2]
                if rel == "Eq":
                    sides = [f[1], f[2]]
                    from_calc = [_has(x, lambda y: y.k == "call" and (y.q or "").endswith("find_right_crc")) for x in sides]
                    from_wire = [_has(x, lambda y: y.k == "call" and (y.q or "").endswith("from_le_bytes")) for x in sides]
                    if (from_calc[0] and from_wire[1]) or (from_calc[1] and from_wire[0]):
                        crc_eq = True
            probs = []
            if not mult8:
                probs.append("not behind `bits.len() % 8 == 0`")
            if not minsz:
                probs.append("not behind `bits.len() / 8 >= self.min_size`")
            if crc_on is True and not crc_eq:
                probs.append("checksum checking is on but the frame is emitted without passing `computed CRC == received FCS`")
            if crc_on is None:
                probs.append("emission does not depend on the checksum setting")
            if probs:
                col.bad("C13.R1", key, body.where(pb), "a frame is emitted " + "; ".join(probs), {})
            else:
                col.ok("C13.R1", key, body.where(pb), "emission behind len%%8==0, len/8>=min_size%s" % (", CRC equality" if crc_on else " (checksum off branch)"))


def rule_r2(facts, col):
    """over-long accumulation is abandoned; short FCS arithmetic is guarded"""
    for body in facts.bodies:
        if body.self_adt != DEFRAMER or body.name != "update_state":
            continue
        variants = enum_variants(facts, STATE_ENUM) or []
        found = False
        for bb, si, e in assigns_to_return(body):
            if e.k == "agg" and e.args and peel(e.args[0], through_try=False).k == "agg" and peel(e.args[0], through_try=False).variant == "Unsynced":
                for f in facts_at(body, bb):
                    if f[0] in ("Gt", "Ge", "Lt", "Le"):
                        sides = [f[1], f[2]]
                        if any(_has(x, lambda y: y.k == "field" and y.name == "max_size") for x in sides) and any(_is_len_of_bits(x) for x in sides):
                            found = True
        if found:
            col.ok("C13.R2", body.q + ":too_long", body.where(), "accumulation longer than max_size*8 bits returns to Unsynced")
        else:
            col.bad("C13.R2", body.q + ":too_long", body.where(), "no path abandons an over-long frame (bits.len() > max_size*8 -> Unsynced): "
                    "the bit buffer grows without bound on flag-free input", {})


def _state_variants(facts, e, depth=0):
    """variants of hdlc State an expression can denote: an aggregate, or a call to a local function all of whose
    returns are State aggregates"""
    st = peel(e, through_try=False)
    if st is None or depth > 3:
        return []
    if st.k == "agg" and st.adt == STATE_ENUM:
        return [st.variant]
    if st.k == "multi" and st.alts:
        out = []
        for a in st.alts:
            out += _state_variants(facts, a, depth + 1)
        return out
    if st.k == "call":
        out = []
        for q in (st.rq, st.q):
            for cb in facts.by_q.get(q, []):
                for bb, si, r in assigns_to_return(cb):
                    out += _state_variants(facts, r, depth + 1)
            if out:
                return out
    return []


def rule_r3(facts, col):
    """once the closing flag has been recognised the deframer stays Synced (the flag may open the next frame)"""
    for body in facts.bodies:
        if body.self_adt != DEFRAMER or body.name != "update_state":
            continue
        # anchor: the point where the partial closing flag is stripped from the collected bits (len - 7)
        anchors = []
        for bb in sorted(body.reachable(0)):
            t = body.term(bb)
            if t["k"] == "assert" and t["msg"]["kind"] == "Overflow" and t["msg"].get("op") == "Sub":
                b = peel(body.operand_expr(t["msg"]["b"]), through_try=False)
                if b.k == "const" and b.v == 7:
                    anchors.append(bb)
        if not anchors:
            col.silent("C13.R3", body.q, body.where(), "flag-strip point not found")
            continue
        after = body.reachable(anchors[0])
        bad = []
        n = 0
        for bb, si, e in assigns_to_return(body):
            if bb not in after:
                continue
            if e.k == "agg" and e.variant == "Ok" and e.args:
                inner = e.args[0]
                cands = []
                if inner.k == "multi":
                    # a `match` result: only the arms that lie after the closing flag count
                    for dbb, si, kind, payload in body.defs().get(inner.local, []):
                        if dbb in after:
                            cands.append((dbb, body.rvalue_expr(payload) if kind == "rv" else body.call_expr(dbb, payload)))
                else:
                    cands.append((bb, inner))
                for cbb, ce in cands:
                    for variant in _state_variants(facts, ce):
                        n += 1
                        if variant != "Synced":
                            bad.append((cbb, variant))
        key = body.q + ":after_flag"
        if bad:
            col.bad("C13.R3", key, body.where(bad[0][0]),
                    "after a complete closing flag was seen the deframer returns to State::%s: that flag is also the opening flag of the "
                    "next frame, so a rejected frame makes the following (valid) frame disappear" % bad[0][1], {})
        elif n:
            col.ok("C13.R3", key, body.where(anchors[0]), "all %d state results after the closing flag are Synced" % n)


def run(ctx):
    facts = ctx.facts("default")
    ctx.anchor("C13", DEFRAMER in facts.adts, "hdlc_deframer::HdlcDeframer")
    rule_r1(facts, ctx)
    rule_r2(facts, ctx)
    rule_r3(facts, ctx)
    from . import c15
    c15.rule_scope(facts, ctx, lambda b: b.file == "src/hdlc_deframer.rs", rule_id="C13.R4")
    ctx.floor("C13.R1", 2, "the two push sites (checksum on / off)")
    ctx.floor("C13.R2", 1, "too-long abandonment")
    ctx.floor("C13.R3", 1, "state after the closing flag")
    ctx.explain("C13 (partial - 'nothing invalid is emitted'): every NCWriteStream::push in the deframer is dominated by the guards "
                "len % 8 == 0 and len/8 >= min_size and, on the checksum-enabled branch, by equality of a value derived from "
                "find_right_crc() with the received little-endian FCS; over-long accumulations return to Unsynced; after the closing "
                "flag every resulting state is Synced (a rejected frame does not disturb the next one); arithmetic on frame lengths is "
                "guarded (R4 = C15 rules restricted to this file). 'Every valid frame is recovered' (round trip) is NOT decided.")
