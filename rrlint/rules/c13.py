"""C13 — HDLC deframer: nothing invalid is emitted (partial)."""
from ..common import *
from ..mir import peel, walk, show, self_field_path, same_expr
from .. import effects

DEFRAMER = "hdlc_deframer::HdlcDeframer"
PUSH = effects.PUSH
STATE_ENUM = "hdlc_deframer::State"


def _has(e, pred):
    return any(pred(x) for x in walk(e))


def _is_len_of_bits(e):
    """len() of a Vec/slice (the collected bits)"""
    p = peel(e, through_try=False)
    return p.k == "call" and (p.q or "").split("::")[-1] == "len"


def _crc_eq_fact(f):
    if f[0] != "Eq":
        return False
    sides = [f[1], f[2]]
    from_calc = [_has(x, lambda y: y.k == "call" and (y.q or "").endswith("find_right_crc")) for x in sides]
    from_wire = [_has(x, lambda y: y.k == "call" and (y.q or "").endswith("from_le_bytes")) for x in sides]
    return (from_calc[0] and from_wire[1]) or (from_calc[1] and from_wire[0])


def _crc_guarded_option_fns(facts):
    """local functions every `Some(..)` result of which (plain or inside Ok) is built behind the CRC-equality edge"""
    out = set()
    for b in facts.bodies:
        if b.kind == "closure" or b.self_adt != DEFRAMER:
            continue
        somes = []
        for bb in sorted(b.reachable(0)):
            for st in b.blocks[bb]["stmts"]:
                if st["k"] == "assign" and st["rv"]["k"] == "agg" and st["rv"].get("adt") == "std::option::Option" and st["rv"].get("variant") == "Some":
                    somes.append(bb)
        if somes and all(any(_crc_eq_fact(f) for f in facts_at(b, bb)) for bb in somes):
            out.add(b.q)
    return out


def _pushed_value_crc_guarded(facts, body, pb):
    t = body.term(pb)
    if len(t["args"]) < 2:
        return None
    x = peel(body.operand_expr(t["args"][1]), through_try=False)
    while x is not None and x.k in ("field", "downcast", "ref", "deref") and x.a is not None:
        x = peel(x.a, through_try=False)
    if x is None or x.k != "multi":
        return None
    guarded = _crc_guarded_option_fns(facts)
    for dbb, si, kind, payload in body.defs().get(x.local, []):
        setting = None
        for f in facts_at(body, dbb):
            if f[0] == "BoolVal":
                fp = self_field_path(f[1])
                if fp and fp[-1] == "strip_checksum":
                    setting = f[2]
        if setting is False:
            continue
        e = body.rvalue_expr(payload) if kind == "rv" else body.call_expr(dbb, payload)
        if setting is True and any(y.k == "call" and ((y.q in guarded) or (y.rq in guarded)) for y in walk(e)):
            continue
        if setting is True and any(_crc_eq_fact(f) for f in facts_at(body, dbb)):
            continue
        if setting is None:
            return "the pushed frame is produced on a path that does not depend on the checksum setting"
        return "with checksum checking on, the pushed frame is not the result of a step guarded by `computed CRC == received FCS`"
    return True


def rule_r1(facts, col):
    """every packet emission is dominated by the length, minimum-size and (checksum on) CRC-equality guards"""
    for body in facts.bodies:
        if body.self_adt != DEFRAMER or body.kind == "closure":
            continue
        pushes = [bb for bb, t in body.calls_to(PUSH)]
        for i, pb in enumerate(pushes):
            fs = facts_at_with_callers(facts, body, pb)
            key = "%s:push#%d" % (body.q, i)
            mult8 = minsz = False
            crc_on = None
            crc_eq = False
            for f in fs:
                rel = f[0]
                if rel in ("Eq", "IntEq"):
                    a = f[1]
                    b = f[2] if rel == "Eq" else None
                    sides = [a] + ([b] if b is not None else [])
                    zero = (rel == "IntEq" and f[2] == 0) or any(peel(x, through_try=False).k == "const" and peel(x, through_try=False).v == 0 for x in sides)
                    if zero and any(_has(x, lambda y: y.k == "bin" and y.op == "Rem" and peel(y.b, through_try=False).k == "const" and peel(y.b, through_try=False).v == 8) for x in sides):
                        mult8 = True
                if rel in ("Ge", "Gt", "Le", "Lt"):
                    a, b = f[1], f[2]
                    if rel in ("Le", "Lt"):
                        a, b = b, a
                    # a >= b : a is len/8, b is self.min_size
                    fb = self_field_path(b)
                    if fb and fb[-1] == "min_size" and _has(a, lambda y: y.k == "bin" and y.op == "Div"):
                        minsz = True
                if rel == "BoolVal":
                    fp = self_field_path(f[1])
                    if fp and fp[-1] == "strip_checksum":
                        crc_on = f[2]
                if rel == "Eq":
                    sides = [f[1], f[2]]
                    from_calc = [_has(x, lambda y: y.k == "call" and (y.q or "").endswith("find_right_crc")) for x in sides]
                    from_wire = [_has(x, lambda y: y.k == "call" and (y.q or "").endswith("from_le_bytes")) for x in sides]
                    if (from_calc[0] and from_wire[1]) or (from_calc[1] and from_wire[0]):
                        crc_eq = True
            probs = []
            if not mult8:
                probs.append("not behind `bits.len() % 8 == 0`")
            if not minsz:
                probs.append("not behind `bits.len() / 8 >= self.min_size`")
            if crc_on is True and not crc_eq:
                probs.append("checksum checking is on but the frame is emitted without passing `computed CRC == received FCS`")
            if crc_on is None:
                # the two settings merged before the push: judge the value that is pushed, arm by arm - with checking on it
                # must come out of a local function that yields Some(..) only behind `computed CRC == received FCS`
                why = _pushed_value_crc_guarded(facts, body, pb)
                if why is not True:
                    probs.append(why or "emission does not depend on the checksum setting")
            if probs:
                col.bad("C13.R1", key, body.where(pb), "a frame is emitted " + "; ".join(probs), {})
            else:
                col.ok("C13.R1", key, body.where(pb), "emission behind len%%8==0, len/8>=min_size%s" % (", CRC equality" if crc_on else " (checksum off branch)"))


def rule_r2(facts, col):
    """over-long accumulation is abandoned; short FCS arithmetic is guarded"""
    for body in facts.bodies:
        if body.self_adt != DEFRAMER or body.name != "update_state":
            continue
        variants = enum_variants(facts, STATE_ENUM) or []
        found = False
        for bb, si, e in assigns_to_return(body):
            if e.k == "agg" and e.args and "Unsynced" in _state_variants(facts, e.args[0]):
                for f in facts_at(body, bb):
                    if f[0] in ("Gt", "Ge", "Lt", "Le"):
                        sides = [f[1], f[2]]
                        if any(_has(x, lambda y: y.k == "field" and y.name == "max_size") for x in sides) and any(_is_len_of_bits(x) for x in sides):
                            found = True
        if found:
            col.ok("C13.R2", body.q + ":too_long", body.where(), "accumulation longer than max_size*8 bits returns to Unsynced")
        else:
            col.bad("C13.R2", body.q + ":too_long", body.where(), "no path abandons an over-long frame (bits.len() > max_size*8 -> Unsynced): "
                    "the bit buffer grows without bound on flag-free input", {})


def _state_variants(facts, e, depth=0):
    """variants of hdlc State an expression can denote: an aggregate, or a call to a local function all of whose
    returns are State aggregates"""
    st = peel(e, through_try=False)
    if st is None or depth > 3:
        return []
    if st.k == "agg" and st.adt == STATE_ENUM:
        return [st.variant]
    if st.k == "multi" and st.alts:
        out = []
        for a in st.alts:
            out += _state_variants(facts, a, depth + 1)
        return out
    if st.k == "call":
        out = []
        for q in (st.rq, st.q):
            for cb in facts.by_q.get(q, []):
                for bb, si, r in assigns_to_return(cb):
                    out += _state_variants(facts, r, depth + 1)
            if out:
                return out
    return []


def rule_r3(facts, col):
    """once the closing flag has been recognised the deframer stays Synced (the flag may open the next frame)"""
    for body in facts.bodies:
        if body.self_adt != DEFRAMER or body.name != "update_state":
            continue
        # anchor: the point where the partial closing flag is stripped from the collected bits (len - 7)
        # anchor: inside the FinalCheck arm (six ones seen), the edge on which the next bit is NOT a one: that bit completes a
        # flag whatever has been collected so far (also a flag sharing its zero with the previous one)
        anchors = _flag_complete_points(facts, body) or _flag_strip_points(body)
        if not anchors:
            col.silent("C13.R3", body.q, body.where(), "flag-completion point not found")
            continue
        after = set()
        for a_ in anchors:
            after |= body.reachable(a_)
        bad = []
        n = 0
        for bb, si, e in assigns_to_return(body):
            if bb not in after:
                continue
            if e.k == "agg" and e.variant == "Ok" and e.args:
                inner = e.args[0]
                cands = []
                if inner.k == "multi":
                    # a `match` result: only the arms that lie after the closing flag count
                    for dbb, si, kind, payload in body.defs().get(inner.local, []):
                        if dbb in after:
                            cands.append((dbb, body.rvalue_expr(payload) if kind == "rv" else body.call_expr(dbb, payload)))
                else:
                    cands.append((bb, inner))
                for cbb, ce in cands:
                    for variant in _state_variants(facts, ce):
                        n += 1
                        if variant != "Synced":
                            bad.append((cbb, variant))
        key = body.q + ":after_flag"
        if bad:
            col.bad("C13.R3", key, body.where(bad[0][0]),
                    "after a complete closing flag was seen the deframer returns to State::%s: that flag is also the opening flag of the "
                    "next frame, so a rejected frame makes the following (valid) frame disappear" % bad[0][1], {})
        elif n:
            col.ok("C13.R3", key, body.where(anchors[0]), "all %d state results after the closing flag are Synced" % n)


FRESH_VEC = {"std::vec::Vec::new", "std::vec::Vec::with_capacity", "std::default::Default::default", "std::vec::from_elem"}
VEC_CLEAR = "std::vec::Vec::clear"


def _op_local(op):
    p = op.get("c") or op.get("m")
    if p is not None and not p["p"]:
        return p["l"]
    return None


def _fresh_in(body, local):
    """Forward must-analysis: the set of blocks at whose END `local` certainly holds an empty Vec.  Events, in statement order:
    assignment from a fresh constructor / a `clear()` call -> fresh; any other assignment, any `&mut local` borrow that does
    not feed clear() in the same block, any call receiving the local -> not fresh."""
    n = body.n
    reach = sorted(body.reachable(0))
    # per block transfer: None (no event) / True / False = state after the last event
    xfer = {}
    for bb in reach:
        st = None
        blk = body.blocks[bb]
        borrows = set()
        for s_ in blk["stmts"]:
            if s_["k"] != "assign":
                continue
            d, rv = s_["dst"], s_["rv"]
            if not d["p"] and d["l"] == local:
                st = False
            if rv["k"] in ("ref", "rawptr") and rv["p"]["l"] == local:
                if rv.get("mut"):
                    borrows.add(d["l"])
                    st = False
        t = blk["term"]
        if t["k"] == "call":
            q = t["f"].get("q")
            rq = (t["f"].get("resolved") or {}).get("q")
            d = t["dst"]
            args = [_op_local(a) for a in t["args"]]
            if q == VEC_CLEAR or rq == VEC_CLEAR:
                if args and args[0] in borrows:
                    st = True
            if not d["p"] and d["l"] == local:
                st = True if (q in FRESH_VEC or rq in FRESH_VEC) else False
        xfer[bb] = st
    out = {bb: True for bb in reach}
    out_entry = False
    changed = True
    while changed:
        changed = False
        for bb in reach:
            preds = [p_ for p_ in body.pred[bb] if p_ in out]
            inn = out_entry if bb == 0 else (all(out[p_] for p_ in preds) if preds else False)
            o = inn if xfer[bb] is None else xfer[bb]
            if o != out[bb]:
                out[bb] = o
                changed = True
    return out, xfer


def _follow_moves(body, local, bb, depth=0):
    """local is a temporary defined once in bb by `use` of another local or by a call: return ('call', q) / ('local', l)"""
    defs = body.defs().get(local, [])
    if len(defs) == 1 and depth < 6:
        dbb, si, kind, payload = defs[0]
        if kind == "rv" and payload["k"] == "use":
            l2 = _op_local(payload["a"])
            if l2 is not None:
                return _follow_moves(body, l2, dbb, depth + 1)
        if kind != "rv":
            t = body.term(dbb)
            return ("call", t["f"].get("q"), (t["f"].get("resolved") or {}).get("q"), local, dbb)
    return ("local", local, bb)


def _check_restarts(facts, col, body, region, owner_q, counter):
    """judge every `State::Synced((ones, bits))` aggregate built in `region` of `body`"""
    for bb in sorted(region):
        for si, s_ in enumerate(body.blocks[bb]["stmts"]):
            if s_["k"] != "assign" or s_["rv"]["k"] != "agg" or s_["rv"].get("adt") != STATE_ENUM or s_["rv"].get("variant") != "Synced":
                continue
            ops = s_["rv"]["ops"]
            tl = _op_local(ops[0]) if ops else None
            tup = None
            for dbb, dsi, kind, payload in body.defs().get(tl, []) if tl is not None else []:
                if kind == "rv" and payload["k"] == "agg" and payload.get("ak") == "tuple" and len(payload["ops"]) == 2:
                    tup = (dbb, payload)
            if tup is None and len(ops) == 2:
                # struct variant `Synced { ones, bits }`: the two operands are the payload themselves
                tup = (bb, {"ops": ops})
            key = "%s:restart#%d" % (owner_q, counter[0])
            counter[0] += 1
            if tup is None:
                col.silent("C13.R5", key, body.where(bb), "payload of Synced is not a visible tuple")
                continue
            dbb, payload = tup
            ones = peel(body.operand_expr(payload["ops"][0]), through_try=False)
            bl = _op_local(payload["ops"][1])
            problems = []
            if not (ones.k == "const" and ones.v == 0):
                problems.append("run-of-ones counter restarts at %s, not 0" % show(ones)[:30])
            if bl is None:
                problems.append("bit vector operand not a local")
            else:
                r = _follow_moves(body, bl, dbb)
                if r[0] == "call" and (r[1] in FRESH_VEC or r[2] in FRESH_VEC) and len(body.defs().get(r[3], [])) == 1 and \
                        not _borrowed_mut(body, r[3]):
                    pass
                else:
                    l = r[1] if r[0] == "local" else r[3]
                    fresh, xfer = _fresh_in(body, l)
                    preds = [p_ for p_ in body.pred[dbb] if p_ in fresh]
                    inn = all(fresh[p_] for p_ in preds) if preds else False
                    st = inn if xfer.get(dbb) is None else xfer[dbb]
                    if not st:
                        problems.append("the bit vector carried into the next frame (%s) is neither freshly constructed nor cleared on "
                                        "every path: bits of the rejected/finished frame become a prefix of the next one, whose CRC "
                                        "then fails" % (body.locals[l].get("name") or "_%d" % l))
            if problems:
                col.bad("C13.R5", key, body.where(bb), "; ".join(problems), {})
            else:
                col.ok("C13.R5", key, body.where(bb), "restarts with (0, empty vector)")


def rule_r5(facts, col):
    """after a complete closing flag the deframer restarts with NO collected bits (a fresh or cleared vector, ones = 0);
    restarts built by a local helper returning State are judged inside the helper"""
    for body in facts.bodies:
        if body.self_adt != DEFRAMER or body.name != "update_state":
            continue
        anchors = _flag_strip_points(body)
        if not anchors:
            col.silent("C13.R5", body.q, body.where(), "flag-strip point not found")
            continue
        after = body.reachable(anchors[0])
        counter = [0]
        _check_restarts(facts, col, body, after, body.q, counter)
        seen = set()
        for bb in sorted(after):
            t = body.term(bb)
            if t["k"] != "call":
                continue
            d = t["dst"]
            if d["p"] or STATE_ENUM not in body.locals[d["l"]]["ty"]:
                continue
            for q in Body.callee_qs(t):
                for hb in facts.by_q.get(q, []):
                    if hb.path in seen or hb.kind == "closure" or hb is body:
                        continue
                    seen.add(hb.path)
                    _check_restarts(facts, col, hb, hb.reachable(0), body.q + "->" + hb.name, counter)


def _borrowed_mut(body, local):
    for bb in body.reachable(0):
        for s_ in body.blocks[bb]["stmts"]:
            if s_["k"] == "assign" and s_["rv"]["k"] in ("ref", "rawptr") and s_["rv"]["p"]["l"] == local and s_["rv"].get("mut"):
                return True
    return False


def _flag_complete_points(facts, body):
    """first blocks after `six ones + a non-one bit` in the FinalCheck arm of the state switch"""
    variants = enum_variants(facts, STATE_ENUM) or []
    if "FinalCheck" not in variants:
        return []
    out = []
    for s0 in sorted(body.reachable(0)):
        t0 = body.term(s0)
        if t0["k"] != "switch":
            continue
        e0 = switch_discr_expr(body, s0)
        if e0.k != "discr":
            continue
        x = e0.a
        while x is not None and x.k in ("ref", "deref"):
            x = x.a
        if not (x is not None and x.k == "field" and x.name == "state"):
            continue
        fc = variant_target(body, s0, variants.index("FinalCheck"), len(variants))
        if fc is None:
            continue
        others = set()
        for v in variants:
            if v != "FinalCheck":
                tg = variant_target(body, s0, variants.index(v), len(variants))
                if tg is not None:
                    others |= body.reachable(tg)
        region = body.reachable(fc) - others
        for edge, f in edge_facts(body):
            if edge[0] not in region:
                continue
            # bit == 1 false edge / bit != 1 true edge / bit == 0 true edge
            e1, e2 = f[1], (f[2] if len(f) > 2 else None)
            def is_bit(e):
                p = peel(e, through_try=False) if e is not None and not isinstance(e, (int, bool)) else None
                while p is not None and p.k == "cast":
                    p = peel(p.a, through_try=False)
                return p is not None and p.k == "param" and p.idx == 2
            def cval(e):
                if isinstance(e, bool):
                    return None
                if isinstance(e, int):
                    return e
                p = peel(e, through_try=False) if e is not None else None
                return p.v if (p is not None and p.k == "const" and isinstance(p.v, int) and not isinstance(p.v, bool)) else None
            if not (is_bit(e1) or is_bit(e2)):
                continue
            c = cval(e2) if is_bit(e1) else cval(e1)
            rel = f[0]
            not_one = (rel in ("Ne", "IntNe") and c == 1) or (rel in ("Eq", "IntEq") and c == 0) or (rel == "Lt" and is_bit(e1) and c == 1) or \
                (rel == "Le" and is_bit(e1) and c == 0)
            if not_one:
                out.append(edge[1])
        if out:
            return out
    return out


def _flag_strip_points(body):
    anchors = []
    for bb in sorted(body.reachable(0)):
        t = body.term(bb)
        if t["k"] == "assert" and t["msg"]["kind"] == "Overflow" and t["msg"].get("op") == "Sub":
            b = peel(body.operand_expr(t["msg"]["b"]), through_try=False)
            if b.k == "const" and b.v == 7:
                anchors.append(bb)
        elif t["k"] == "call" and t["f"].get("name") in ("checked_sub", "saturating_sub", "wrapping_sub") and len(t["args"]) == 2:
            b = peel(body.operand_expr(t["args"][1]), through_try=False)       # `bits.len().checked_sub(7)`
            if b.k == "const" and b.v == 7:
                anchors.append(bb)
    return anchors


class _Retag6:
    """C08.R7 (an advanced by-value copy of carried state is stored back) reported under C13 for the deframer"""
    def __init__(self, ctx):
        self.ctx = ctx

    def ok(self, rule, key, *a, **k):
        if "hdlc_deframer" in key or key == "no-advanced-copies":
            self.ctx.ok("C13.R6", key, *a, **k)

    def bad(self, rule, key, *a, **k):
        if "hdlc_deframer" in key:
            self.ctx.bad("C13.R6", key, *a, **k)

    def silent(self, rule, key, *a, **k):
        pass


def _bytes_ty(ty):
    return "Vec<u8>" in ty or "[u8" in ty


def _content_flow(body, ty_ok=None):
    """flow-insensitive def-use edges between locals whose type can hold frame bytes (Vec<u8>, [u8], tuples/options/references of
    them): src local -> dst local.  Scalars (lengths, CRCs, flags) carry no frame content and are not followed."""
    from ..common import _rv_operands
    edges = {}

    def loc(op):
        for k in ("m", "c"):
            if isinstance(op, dict) and k in op:
                return op[k]["l"]
        return None

    ty_ok = ty_ok or _bytes_ty

    def ok(l):
        return l is not None and ty_ok(body.locals[l]["ty"])

    for bb in sorted(body.reachable(0)):
        for st in body.blocks[bb]["stmts"]:
            if st["k"] != "assign":
                continue
            d = st["dst"]["l"]
            if not ok(d):
                continue
            rv = st["rv"]
            srcs = []
            if rv["k"] in ("ref", "rawptr"):
                srcs.append(rv["p"]["l"])
            else:
                srcs += [loc(o) for o in _rv_operands(rv)]
            for x in srcs:
                if ok(x):
                    edges.setdefault(x, set()).add(d)
        t = body.term(bb)
        if t["k"] == "call" and t.get("dst") is not None:
            d = t["dst"]["l"]
            if ok(d):
                for a in t["args"]:
                    x = loc(a)
                    if ok(x):
                        edges.setdefault(x, set()).add(d)
                # `&mut` in, `&mut` out (index_mut, deref_mut, as_mut_slice): writes through the result land in the argument
                if "&mut" in body.locals[d]["ty"]:
                    for a in t["args"]:
                        x = loc(a)
                        if ok(x) and "&mut" in body.locals[x]["ty"]:
                            edges.setdefault(d, set()).add(x)
            # a `&mut` byte container handed to a call together with other byte data receives it (extend_from_slice, copy_from_slice, ..)
            ls = [loc(a) for a in t["args"]]
            ls = [x for x in ls if ok(x)]
            if len(ls) >= 2 and "&mut" in body.locals[ls[0]]["ty"]:
                for x in ls[1:]:
                    edges.setdefault(x, set()).add(ls[0])
    # a reference and the container it borrows are one object for `&mut` receivers: ref -> owner
    for bb in sorted(body.reachable(0)):
        for st in body.blocks[bb]["stmts"]:
            if st["k"] == "assign" and st["rv"]["k"] == "ref" and st["rv"].get("mut") and ok(st["dst"]["l"]) and ok(st["rv"]["p"]["l"]):
                edges.setdefault(st["dst"]["l"], set()).add(st["rv"]["p"]["l"])
    return edges


def rule_r7(facts, col):
    """what is emitted is what was validated: where the deframer runs a bit-fixing step that hands back a repaired buffer (a local
    function given self.fix_bits whose result holds a Vec<u8>), every frame pushed downstream of that step carries content that
    flows from the step's result (not only its length or CRC): otherwise a successful repair is validated and the unrepaired bytes
    are sent"""
    n = 0
    for body in facts.bodies:
        if body.self_adt != DEFRAMER or body.kind == "closure":
            continue
        repairs = []
        for bb, t in body.calls():
            if t.get("dst") is None or not _bytes_ty(body.locals[t["dst"]["l"]]["ty"]):
                continue
            if not any(facts.by_q.get(q) for q in Body.callee_qs(t)):
                continue      # crate-local only
            uses_flag = False
            for a in t["args"]:
                fp = self_field_path(body.operand_expr(a))
                if fp and fp[-1] == "fix_bits":
                    uses_flag = True
            if uses_flag:
                repairs.append((bb, t))
        if not repairs:
            continue
        flow = _content_flow(body)
        for rbb, rt in repairs:
            src = rt["dst"]["l"]
            reach = {src}
            work = [src]
            while work:
                x = work.pop()
                for y in flow.get(x, ()):
                    if y not in reach:
                        reach.add(y)
                        work.append(y)
            after = body.reachable(rt.get("t")) if rt.get("t") is not None else set()
            for i, (pb, pt) in enumerate(body.calls_to(PUSH)):
                if pb not in after or len(pt["args"]) < 2:
                    continue
                key = "%s:push-after-repair#%d" % (body.q, i)
                n += 1
                a = pt["args"][1]
                l = None
                for k in ("m", "c"):
                    if k in a:
                        l = a[k]["l"]
                if l is not None and l in reach:
                    col.ok("C13.R7", key, body.where(pb), "the pushed frame's bytes flow from the bit-fixing step's result")
                else:
                    col.bad("C13.R7", key, body.where(pb),
                            "the frame pushed here, after the bit-fixing step at %s, does not take its bytes from that step's result "
                            "(at most its length or CRC): when a single-bit error is repaired, the CRC check passes on the repaired copy "
                            "and the unrepaired bytes are emitted - a frame whose CRC does not verify" % body.where(rbb), {})
    if n == 0:
        col.ok("C13.R7", "no-buffer-returning-repair-step", "src/hdlc_deframer.rs",
               "no bit-fixing step that returns a repaired buffer: nothing to relate")


def rule_r9(facts, col, rule_id="C13.R9"):
    """the size limit is looked at for every collected bit: in the deframer's state update (helpers inlined), every `push` of
    a bit into the frame accumulator lies behind the size comparison (`bits.len()` against `max_size`), i.e. on the side of
    that test that goes on collecting.  If only some appends are checked (say, only zeros), the abandon-and-resync step - which
    drops the bit that tripped it - can fire on the first bit of the closing flag instead of inside the over-long frame, and
    the next frame, sharing that flag, is lost."""
    n = 0
    for body0 in facts.bodies:
        if body0.self_adt != DEFRAMER or body0.name != "update_state":
            continue
        from ..inline import inline_body
        body, _ = inline_body(facts, body0, lambda hb: hb.self_adt == DEFRAMER or hb.file == "src/hdlc_deframer.rs", depth=2)
        for bb, t in body.calls():
            if t["f"].get("name") != "push" or not (t["f"].get("q") or "").startswith("std::vec::Vec") or len(t["args"]) < 2:
                continue
            aty = (t.get("argtys") or [""])[0]
            if "Vec<u8>" not in aty:
                continue
            if t.get("sp", {}).get("x"):
                continue      # inside a macro expansion (logging)
            pv = peel(body.operand_expr(t["args"][1]), through_try=False)
            if not (pv.k in ("const", "param") or (pv.k == "cast" and pv.a is not None and peel(pv.a, through_try=False).k in ("const", "param"))):
                continue      # a computed byte (bits packed into bytes after the frame ended), not a collected bit
            n += 1
            key = "%s:push#%d" % (body0.q, n)
            ok = False
            for f in facts_at(body, bb):
                if f[0] in ("Gt", "Ge", "Lt", "Le"):
                    sides = [f[1], f[2]]
                    if any(_has(x, lambda y: y.k == "field" and y.name == "max_size") for x in sides) and any(_is_len_of_bits(x) for x in sides):
                        ok = True
            if ok:
                col.ok(rule_id, key, body.where(bb), "append behind the size comparison")
            else:
                col.bad(rule_id, key, body.where(bb),
                        "a bit is appended to the frame accumulator on a path that has not compared its length with max_size: the "
                        "over-length check no longer runs on every collected bit, so it can trip on the first bit of the closing flag "
                        "(swallowing the flag the next frame shares) instead of inside the over-long frame", {})
    return n


def run(ctx):
    facts = ctx.facts("default")
    ctx.anchor("C13", DEFRAMER in facts.adts, "hdlc_deframer::HdlcDeframer")
    rule_r1(facts, ctx)
    rule_r2(facts, ctx)
    rule_r3(facts, ctx)
    from . import c08
    c08.rule_r7(facts, _Retag6(ctx))
    ctx.floor("C13.R6", 1, "advanced copies of the deframer's carried state (or the statement that there are none)")
    from . import c17
    c17.rule_r3(facts, ctx, rule_id="C13.R8", scope=lambda b: b.self_adt == DEFRAMER)
    ctx.floor("C13.R8", 1, "HdlcDeframer::work consumes its whole window (same rule as C17.R3)")
    rule_r9(facts, ctx)
    ctx.floor("C13.R9", 1, "bit appends in the Synced state (2 today)")
    rule_r7(facts, ctx)
    ctx.floor("C13.R7", 1, "push downstream of find_right_crc (or the statement that no repair step returns a buffer)")
    rule_r5(facts, ctx)
    ctx.floor("C13.R5", 1, "Synced restarts after the closing flag (3 today, 1 when built by a helper)")
    from . import c15
    c15.rule_scope(facts, ctx, lambda b: b.file == "src/hdlc_deframer.rs", rule_id="C13.R4")
    ctx.floor("C13.R1", 1, "frame push sites (2 today: checksum on / off; 1 when the settings merge before the push)")
    ctx.floor("C13.R2", 1, "too-long abandonment")
    ctx.floor("C13.R3", 1, "state after the closing flag")
    ctx.explain("C13 (partial - 'nothing invalid is emitted'): every NCWriteStream::push in the deframer is dominated by the guards "
                "len % 8 == 0 and len/8 >= min_size and, on the checksum-enabled branch, by equality of a value derived from "
                "find_right_crc() with the received little-endian FCS; over-long accumulations return to Unsynced; after the closing "
                "flag every resulting state is Synced (a rejected frame does not disturb the next one); arithmetic on frame lengths is "
                "guarded (R4 = C15 rules restricted to this file). 'Every valid frame is recovered' (round trip) is NOT decided.")
