"""C19 — derive-generated blocks behave as documented for any stream arity.
Also hosts the generated-code parts of C08 (R1 sync-loop theorem) and C12 (R2 tag path)."""
from ..common import *
from ..mir import peel, walk, show, self_field_path, same_expr
from .. import effects, witness
from . import c04, c09

FOLD = "std::iter::Iterator::fold"
CONSUME = effects.CONSUME
PRODUCE = effects.PRODUCE
ALLOWED_ADAPTORS = {"take", "zip", "enumerate", "map", "next", "fold", "into_iter", "iter", "iter_mut", "for_each"}
FORBIDDEN_ADAPTORS = {"rev", "skip", "step_by", "filter", "skip_while", "take_while", "chain", "cycle", "filter_map", "flat_map",
                      "peekable", "scan", "last", "nth"}


def rr_fields(facts, adt):
    a = facts.adts.get(adt)
    if not a or a["kind"] != "struct":
        return None
    fs = a["variants"][0]["fields"]
    return dict(
        ins=[f["name"] for f in fs if "in" in f.get("rr", [])],
        outs=[f["name"] for f in fs if "out" in f.get("rr", [])],
        defaults=[f["name"] for f in fs if "default" in f.get("rr", [])],
        intos=[f["name"] for f in fs if "into" in f.get("rr", [])],
        all=[f["name"] for f in fs],
        tys={f["name"]: f["ty"]["s"] for f in fs},
        attrs=a.get("rr", []),
    )


def sync_work_bodies(facts):
    out = []
    for b in facts.impl_bodies(BLOCK_TRAIT, "work"):
        if not b.from_derive:
            continue
        rf = rr_fields(facts, b.self_adt)
        if rf and ("sync" in rf["attrs"] or "sync_tag" in rf["attrs"]):
            out.append((b, rf))
    return out


def _window_field(e):
    w = c09.window_of(e)
    return w[0] if w else None


def _array_elems(e):
    for x in walk(e):
        if x.k == "agg" and x.ak == "array":
            return x.args
    return None


def analyse_work(facts, body, rf):
    """Extract the structure of a generated sync work(); returns dict or raises ValueError(reason)."""
    info = {}
    reads = {}
    writes = {}
    for bb, t in body.calls():
        qs = Body.callee_qs(t)
        if any(q in c09.READ_BUF for q in qs):
            fp = self_field_path(body.operand_expr(t["args"][0]))
            if fp:
                reads[fp[0]] = bb
        if any(q in c09.WRITE_BUF for q in qs):
            fp = self_field_path(body.operand_expr(t["args"][0]))
            if fp:
                writes[fp[0]] = bb
    info["reads"], info["writes"] = reads, writes
    folds = [(bb, t) for bb, t in body.calls_to(FOLD)]
    info["folds"] = []
    for bb, t in folds:
        elems = _array_elems(body.operand_expr(t["args"][0]))
        fields = []
        if elems is not None:
            for el in elems:
                w = c09.len_of_window(el)
                fields.append(w[0] if w else None)
        init = peel(body.operand_expr(t["args"][1]), through_try=False)
        clo = None
        for x in walk(body.operand_expr(t["args"][2])):
            if x.k == "agg" and x.ak == "closure":
                clo = x.q
        info["folds"].append(dict(bb=bb, fields=fields, init=init, closure=clo))
    return info


def min_leaves(facts, body, e, depth=0):
    """(leaves, ok): e as a minimum over window lengths - nested `min(a, b)` / `a.min(b)` / `[..].iter().fold(init, min)`;
    leaves are (field, 'R'|'W'); a huge constant (usize::MAX) is the neutral element; anything else makes ok False"""
    p = peel(e, through_try=False)
    if p is None or depth > 12:
        return set(), False
    if p.k == "const":
        return set(), isinstance(p.v, int) and not isinstance(p.v, bool) and p.v > 2 ** 60
    w = c09.len_of_window(p)
    if w:
        return {w}, True
    if p.k == "call" and (p.q in MIN_CALLS or p.rq in MIN_CALLS) and len(p.args) == 2:
        l1, o1 = min_leaves(facts, body, p.args[0], depth + 1)
        l2, o2 = min_leaves(facts, body, p.args[1], depth + 1)
        return l1 | l2, o1 and o2
    if p.k == "call" and p.q == FOLD and len(p.args) == 3:
        elems = _array_elems(p.args[0])
        leaves = set()
        ok = elems is not None
        for el in elems or []:
            w = c09.len_of_window(el)
            if w:
                leaves.add(w)
            else:
                ok = False
        l0, o0 = min_leaves(facts, body, p.args[1], depth + 1)
        clo = None
        for x in walk(p.args[2]):
            if x.k == "agg" and x.ak == "closure":
                clo = facts.by_path.get(x.q)
        has_min = clo is not None and any((t["f"].get("name") == "min") for _, t in clo.calls())
        if not has_min:
            fo = peel(p.args[2], through_try=False)       # the function item itself: `.fold(n, usize::min)`
            has_min = fo is not None and fo.k == "const" and (fo.q or "").split("::")[-1] == "min"
        return leaves | l0, ok and o0 and has_min
    if p.k == "call" and (p.q or "").split("::")[-1] in ("unwrap_or", "unwrap_or_default") and p.args:
        # `[a.len(), b.len()].iter().copied().min().unwrap_or(usize::MAX)`
        inner = peel(p.args[0], through_try=False)
        if inner.k == "call" and (inner.q or "").split("::")[-1] == "min" and len(inner.args or []) == 1:
            elems = _array_elems(inner.args[0])
            leaves = set()
            ok = elems is not None
            for el in elems or []:
                w = c09.len_of_window(el)
                if w:
                    leaves.add(w)
                else:
                    ok = False
            return leaves, ok
    return set(), False


def _is_call_at(e, bb):
    p = peel(e, through_try=False)
    return p is not None and p.k == "call" and p.bb == bb


def rule_work(facts, col, rid_c19="C19.R2", rid_c08="C08.R1", rid_c12="C12.R2", only=None):
    for body, rf in sync_work_bodies(facts):
        name = body.q
        ins, outs = rf["ins"], rf["outs"]
        info = analyse_work(facts, body, rf)

        def bad(rid, what, msg, bb=None):
            if only is None or rid in only:
                col.bad(rid, "%s:%s" % (name, what), body.where(bb), msg, {"inputs": ins, "outputs": outs})

        def ok(rid, what, msg, bb=None):
            if only is None or rid in only:
                col.ok(rid, "%s:%s" % (name, what), body.where(bb), msg)

        # (a) windows acquired on every stream
        if set(info["reads"]) == set(ins) and set(info["writes"]) == set(outs):
            ok(rid_c19, "a:windows", "read_buf on each of %s, write_buf on each of %s" % (ins, outs))
        else:
            bad(rid_c19, "a:windows", "generated work() acquires windows on in=%s out=%s but the struct declares in=%s out=%s"
                % (sorted(info["reads"]), sorted(info["writes"]), ins, outs))
        # (c) n = min over all inputs, then over all outputs
        alt_n = None
        classic = len(info["folds"]) == 2 and all(f["closure"] for f in info["folds"])
        if not classic:
            info["folds"] = []
        if not info["folds"]:
            # no fold-shaped clamp: judge the count expression itself as a minimum over window lengths, whatever its spelling
            # (`usize::MAX.min(a.len()).min(b.len())`, then `n.min(dst.len())`)
            cnts = [body.operand_expr(t["args"][1]) for bb, t in body.calls() if (CONSUME in Body.callee_qs(t) or PRODUCE in Body.callee_qs(t)) and len(t["args"]) > 1]
            if cnts:
                leaves, lok = min_leaves(facts, body, cnts[0])
                alt_n = cnts[0]
                got_in = {f for f, k_ in leaves if k_ == "R"}
                got_out = {f for f, k_ in leaves if k_ == "W"}
                if lok and got_in == set(ins):
                    ok(rid_c19, "c:min_inputs", "n = min over len() of every input window")
                else:
                    bad(rid_c19, "c:min_inputs", "the step count is not clamped to the shortest of ALL inputs (minimum over %s, inputs %s): "
                        "the loop runs past the end of a shorter input window / consumes more than offered" % (sorted(got_in), ins))
                if lok and got_out == set(outs):
                    ok(rid_c19, "c:min_outputs", "n = min(n, len() of every output window)")
                else:
                    bad(rid_c19, "c:min_outputs", "the step count is not clamped to the smallest output space of ALL outputs (minimum over %s, "
                        "outputs %s): commits more than the write window offered" % (sorted(got_out), outs))
        f_in = [f for f in info["folds"] if f["init"].k == "const" and f["init"].v is not None and f["init"].v > 2 ** 60]
        f_out = [f for f in info["folds"] if f not in f_in]
        n2 = None
        if alt_n is not None:
            pass
        elif len(f_in) == 1 and set(f_in[0]["fields"]) == set(ins) and None not in f_in[0]["fields"]:
            ok(rid_c19, "c:min_inputs", "n = min over len() of every input window")
        else:
            bad(rid_c19, "c:min_inputs", "the step count is not clamped to the shortest of ALL inputs (folds over %s, inputs %s): "
                "the loop runs past the end of a shorter input window / consumes more than offered"
                % ([f["fields"] for f in f_in], ins), f_in[0]["bb"] if f_in else None)
        if alt_n is not None:
            pass
        elif len(f_out) == 1 and set(f_out[0]["fields"]) == set(outs) and None not in f_out[0]["fields"] and f_in and _is_call_at(f_out[0]["init"], f_in[0]["bb"]):
            ok(rid_c19, "c:min_outputs", "n = min(n, len() of every output window)")
            n2 = f_out[0]["bb"]
        else:
            bad(rid_c19, "c:min_outputs", "the step count is not clamped to the smallest output space of ALL outputs (folds over %s starting "
                "from %s, outputs %s): commits more than the write window offered" % ([f["fields"] for f in f_out],
                                                                                      [show(f["init"])[:40] for f in f_out], outs),
                f_out[0]["bb"] if f_out else None)
            if f_out:
                n2 = f_out[0]["bb"]
        for f in info["folds"]:
            cb = facts.by_path.get(f["closure"]) if f["closure"] else None
            has_min = cb is not None and any((t["f"].get("name") == "min") for _, t in cb.calls())
            if not has_min:
                bad(rid_c19, "c:fold_is_min", "the clamp fold does not compute a minimum", f["bb"])
        # (e) consume(n) on every input, produce(n, otags) on every output, same n
        cons = {}
        prods = {}
        tagargs = []
        for bb, t in body.calls():
            qs = Body.callee_qs(t)
            if CONSUME in qs:
                cons[_window_field(body.operand_expr(t["args"][0]))] = (bb, t)
            if PRODUCE in qs:
                prods[_window_field(body.operand_expr(t["args"][0]))] = (bb, t)
        miss_c = [f for f in ins if f not in cons]
        miss_p = [f for f in outs if f not in prods]
        def _is_n(e_):
            if alt_n is not None:
                return same_expr(e_, alt_n)
            return n2 is not None and _is_call_at(e_, n2)
        wrong_n = [f for f, (bb, t) in list(cons.items()) + list(prods.items()) if not _is_n(body.operand_expr(t["args"][1]))]
        if miss_c or miss_p:
            bad(rid_c19, "e:commit_all", "generated work() does not consume from %s / produce on %s: those streams stall or repeat "
                "samples while the others advance" % (miss_c, miss_p))
        elif wrong_n:
            bad(rid_c19, "e:same_n", "consume/produce on %s use a count other than the clamped step count n: streams advance by different "
                "amounts per call (samples lost, duplicated or shifted between streams)" % sorted(set(wrong_n)))
        else:
            ok(rid_c19, "e:commit_all", "consume(n) on every input and produce(n, otags) on every output with the same n")
        # verdict
        agains = [bb for bb, v, e in effects.verdict_defs(body) if v == "Again"]
        if len(agains) == 1 and all(body.dominates(bb, agains[0]) for bb, _ in list(cons.values()) + list(prods.values())):
            ok(rid_c19, "e:again", "Ok(Again) only after all commits")
        else:
            bad(rid_c19, "e:again", "Again is not returned exactly once after all consume/produce calls")
        # (b) waits: every stream has an emptiness wait naming itself, need 1
        waits = set()
        for bb, v, e in effects.verdict_defs(body):
            if v == "WaitForStream":
                waits.add(c09.wait_target(e))
        if waits == set(ins) | set(outs):
            ok(rid_c19, "b:waits", "an early WaitForStream exists for every stream")
        else:
            bad(rid_c19, "b:waits", "early-return waits cover %s, streams are %s" % (sorted(x for x in waits if x), sorted(set(ins) | set(outs))))

        # ---- C08.R1 loop shape -------------------------------------------------------------
        names = []
        takes = []
        for bb, t in body.calls():
            f = t["f"]
            if f.get("trait") == "std::iter::Iterator" or f.get("name") in FORBIDDEN_ADAPTORS:
                names.append(f.get("name"))
                if f.get("name") == "take":
                    takes.append((bb, t))
        forb = sorted(set(names) & FORBIDDEN_ADAPTORS)
        if forb:
            bad(rid_c08, "i:adaptors", "the generated sample loop uses iterator adaptor(s) %s: samples are no longer processed in "
                "lock-step from index 0" % forb)
        elif len(takes) != 1 or not _is_n(body.operand_expr(takes[0][1]["args"][1])):
            bad(rid_c08, "i:take_n", "the sample iterator is not limited by take(n) with the clamped step count")
            bad(rid_c12, "steps", "the per-sample iterator is not bounded by the clamped step count: in an output-limited call one more sample "
                "is evaluated than is consumed and produced - the tags computed for it carry a position >= n and are dropped by produce(), "
                "while the block's state has already moved past the sample, so they do not come out when it is processed again")
            bad(rid_c19, "s:steps", "process_sync*() is not called exactly n = min(shortest input, smallest output space) times per call: the "
                "sample iterator is bounded by something other than the clamped step count (e.g. the input-only clamp), so an output-limited "
                "call runs one step more than it consumes and produces, and that sample is processed again next time")
        else:
            ok(rid_c08, "i:lockstep", "inputs walked in lock-step from 0 (take(n), zip, enumerate, map only)")
            ok(rid_c19, "s:steps", "the per-sample iterator is bounded by the clamped step count n")
            ok(rid_c12, "steps", "no sample is evaluated without being consumed and produced in the same call (tags computed for it are committed)")
        iters = {}
        slices = {}
        for bb, t in body.calls():
            q = t["f"].get("q")
            if q == "circular_buffer::BufferReader::iter":
                fld = _window_field(body.operand_expr(t["args"][0]))
                iters[fld] = iters.get(fld, 0) + 1
            if q == "circular_buffer::BufferWriter::slice":
                fld = _window_field(body.operand_expr(t["args"][0]))
                slices[fld] = slices.get(fld, 0) + 1
        if iters == {f: 1 for f in ins} and slices == {f: 1 for f in outs}:
            ok(rid_c08, "d:one_iter_each", "exactly one iter() per input window and one slice() per output window feed the loop")
        else:
            bad(rid_c08, "d:one_iter_each", "iter() per input %s / slice() per output %s: some window is walked twice or not at all" % (iters, slices))
        # (v) work itself writes no block state
        selfw = []
        for bb, blk in enumerate(body.blocks):
            for s in blk["stmts"]:
                if s["k"] == "assign" and s["dst"]["p"] and s["dst"]["p"][0] == "*" and s["dst"]["l"] == 1:
                    selfw.append(bb)
        if selfw:
            bad(rid_c08, "v:no_self_state", "generated work() writes block state itself (chunk-dependent carry)", selfw[0])
        else:
            ok(rid_c08, "v:no_self_state", "all block state changes happen inside process_sync*() (once per sample)")
        # (ii) per-iteration closure calls process_sync_tags exactly once on every path; (iii)+C12: tags
        maps = [c for c in facts.closures_in(body) if c.parent_q == body.q and c.upvars and any("&mut " + (body.self_ty or "") == u["s"] for u in c.upvars)]
        if len(maps) != 1:
            bad(rid_c08, "ii:closure", "cannot find the per-sample closure")
            continue
        clo = maps[0]
        psites = [bb for bb, t in clo.calls() if (t["f"].get("name") or "") == "process_sync_tags"]
        once = len(psites) >= 1
        for a in psites:
            r = clo.reachable(clo.succ[a])
            if any(b in r for b in psites):
                once = False
        r0 = clo.reachable(0, avoid=set(psites))
        if any(clo.term(x)["k"] == "return" for x in r0):
            once = False
        if once:
            ok(rid_c08, "ii:once_per_sample", "process_sync_tags called exactly once on every path of the per-sample closure (%d sites)" % len(psites))
        else:
            bad(rid_c08, "ii:once_per_sample", "the per-sample closure does not call process_sync_tags exactly once per sample on every path")
        # C12.R2: emitted tags carry the loop index; input tags are selected by == index
        def _is_index(e_):
            # enumerate index = field 0 of the per-sample closure's item parameter (param 2)
            e_ = peel(e_, through_try=False)
            return e_ is not None and e_.k == "field" and e_.idx == 0 and peel(e_.a, through_try=False).k == "param" and peel(e_.a, through_try=False).idx == 2

        tnews = [(bb, t) for bb, t in clo.calls_to("stream::Tag::new")]
        badpos = []
        for bb, t in tnews:
            if not _is_index(clo.operand_expr(t["args"][0])):
                badpos.append(bb)
        # ... or built by a closure nested in it (`otags.extend(ts.iter().map(|tag| Tag::new(pos, ..)))`) that captures the index
        for nc in facts.bodies:
            if nc.kind != "closure" or not nc.path.startswith(clo.path + "::"):
                continue
            for bb, t in nc.calls_to("stream::Tag::new"):
                pe = peel(nc.operand_expr(t["args"][0]), through_try=False)
                if pe is not None and pe.k == "const" and pe.v == 0:
                    continue      # the copies of the INPUT tags handed to process_sync_tags (position 0 = "this sample")
                tnews.append((bb, t))
                good = False
                # position = a captured variable: field i of the closure environment (param 1) ...
                x_ = pe
                n_ = 0
                while x_ is not None and x_.k in ("deref", "ref") and n_ < 4:
                    x_ = peel(x_.a, through_try=False)
                    n_ += 1
                if x_ is not None and x_.k == "field" and x_.idx is not None:
                    base = peel(x_.a, through_try=False)
                    n_ = 0
                    while base is not None and base.k in ("deref", "ref") and n_ < 4:
                        base = peel(base.a, through_try=False)
                        n_ += 1
                    if base is not None and base.k == "param" and base.idx == 1:
                        # ... which the enclosing per-sample closure filled with its loop index
                        for blk in clo.blocks:
                            for st in blk["stmts"]:
                                if st["k"] == "assign" and st["rv"]["k"] == "agg" and st["rv"].get("closure") == nc.path and x_.idx < len(st["rv"]["ops"]):
                                    cap = clo.operand_expr(st["rv"]["ops"][x_.idx])
                                    n2_ = 0
                                    while cap is not None and cap.k in ("ref", "deref") and n2_ < 4:
                                        cap = cap.a
                                        n2_ += 1
                                    if _is_index(cap):
                                        good = True
                if not good:
                    badpos.append(bb)
        if tnews and not badpos:
            ok(rid_c12, "emit_pos", "every re-emitted tag is created at the loop index of its sample (%d sites)" % len(tnews))
        elif not tnews:
            bad(rid_c12, "emit_pos", "the per-sample closure never re-emits tags")
        else:
            bad(rid_c12, "emit_pos", "a re-emitted tag is created at a position other than the index of the sample being processed: tags "
                "land on the wrong output sample", badpos[0])
        filters = [c for c in facts.bodies if c.kind == "closure" and c.path.startswith(clo.path + "::") and c.upvars and [u["s"] for u in c.upvars] == ["&usize"]
                   and c.locals[0]["ty"] == "bool"]       # predicates (a `map` closure capturing the index is not a filter)
        fbad = []
        for fc in filters:
            okf = False
            for bb, si, e in assigns_to_return(fc):
                p = peel(e, through_try=False)
                if p.k == "bin" and p.op == "Eq":
                    sides = [peel(p.a, through_try=False), peel(p.b, through_try=False)]
                    if any(x.k == "call" and x.q == "stream::Tag::pos" for x in sides):
                        okf = True
            # ... and the predicate is the argument of Iterator::filter applied to the WHOLE tag list of that input
            # (no skip / take_while / cursor in front: those drop tags the position test never sees)
            used = False
            for ubb, ut in clo.calls():
                direct = False
                for a_ in ut["args"][1:]:
                    pa = peel(clo.operand_expr(a_), through_try=False)
                    if pa is not None and pa.k == "agg" and pa.ak == "closure" and pa.q == fc.path:
                        direct = True
                if not direct:
                    continue
                used = True
                if ut["f"].get("name") != "filter":
                    okf = False
                recv = clo.operand_expr(ut["args"][0])
                for x in walk(recv):
                    if x.k == "call" and (x.q or "").split("::")[-1] not in ("iter", "deref", "as_slice", "into_iter", "as_ref", "borrow"):
                        okf = False
            if not used:
                okf = False
            if not okf:
                fbad.append(fc.path)
        if len(filters) == len(ins) and not fbad:
            ok(rid_c12, "select_eq", "input tags selected by t.pos() == index, once per input (%d filters)" % len(filters))
        else:
            bad(rid_c12, "select_eq", "input tags are not selected by `t.pos() == index` for each input (%d filters for %d inputs, bad: %s): a tag is "
                "delivered on several samples or never" % (len(filters), len(ins), [x.split("::")[-1] for x in fbad]))
        # produce receives the tag vector the closure pushes into
        ok_tags = True
        for f, (bb, t) in prods.items():
            te = peel(body.operand_expr(t["args"][2]))
            if not (te.k == "call" and te.q == "std::vec::Vec::new"):
                ok_tags = False
        if ok_tags and prods:
            ok(rid_c12, "commit_otags", "every produce() is handed the collected output tags")
        else:
            bad(rid_c12, "commit_otags", "produce() is not handed the collected output tags on some output")


def rule_new(facts, col):
    """C19.R1 generated constructor (MIR part)"""
    for body in facts.bodies:
        if body.name != "new" or not body.from_derive or body.kind != "inherent":
            continue
        rf = rr_fields(facts, body.self_adt)
        if not rf:
            continue
        key = body.q
        rets = [(bb, e) for bb, si, e in assigns_to_return(body)]
        if len(rets) != 1:
            col.bad("C19.R1", key, body.where(), "constructor has no single tuple result", {})
            continue
        e = rets[0][1]
        outs = rf["outs"]
        if not outs:
            selfagg = e if (e.k == "agg" and e.adt == body.self_adt) else None
            tup = []
        else:
            if not (e.k == "agg" and e.ak == "tuple" and len(e.args) == len(outs) + 1):
                col.bad("C19.R1", key, body.where(), "constructor does not return (Self, one read end per output)", {})
                continue
            selfagg = e.args[0]
            tup = e.args[1:]
        selfagg = peel(selfagg, through_try=False) if selfagg is not None else None
        if selfagg is None or selfagg.k != "agg" or selfagg.adt != body.self_adt:
            col.bad("C19.R1", key, body.where(), "Self aggregate not found", {})
            continue
        fields = dict(zip(selfagg.fields, selfagg.args))
        probs = []
        for i, o in enumerate(outs):
            fe = peel(fields.get(o), through_try=False)
            re_ = peel(tup[i], through_try=False)
            want = "stream::new_nocopy_stream" if rf["tys"][o].startswith("stream::NCWriteStream") else "stream::new_stream"
            okf = fe is not None and fe.k == "field" and fe.idx == 0 and peel(fe.a, through_try=False).k == "call" and peel(fe.a, through_try=False).q == want
            okr = re_.k == "field" and re_.idx == 1 and okf and peel(re_.a, through_try=False).k == "call" and peel(re_.a, through_try=False).bb == peel(fe.a, through_try=False).bb
            if not okf:
                probs.append("output %s is not wired to the write end of a fresh %s()" % (o, want.split("::")[-1]))
            elif not okr:
                probs.append("returned stream #%d is not the read end of output %s's stream (declaration order broken)" % (i + 1, o))
        for n_ in rf["ins"]:
            fe = peel(fields.get(n_), through_try=False)
            if fe is None or fe.k != "param":
                probs.append("input %s is not taken from an argument" % n_)
        for n_ in rf["defaults"]:
            fe = peel(fields.get(n_), through_try=False)
            if not (fe is not None and fe.k == "call" and (fe.q or "").endswith("Default::default")):
                probs.append("`default` field %s is not Default::default()" % n_)
        for n_ in rf["intos"]:
            fe = fields.get(n_)
            if not (fe is not None and fe.k == "call" and (fe.q or "").endswith("Into::into")):
                probs.append("`into` field %s does not go through Into::into" % n_)
        calls_ns = [bb for bb, t in body.calls_to({"stream::new_stream", "stream::new_nocopy_stream"})]
        if len(calls_ns) != len(outs):
            probs.append("%d stream constructions for %d outputs" % (len(calls_ns), len(outs)))
        if probs:
            col.bad("C19.R1", key, body.where(), "; ".join(probs), {})
        else:
            col.ok("C19.R1", key, body.where(), "fresh stream per output, read ends returned in declaration order, default/into honoured")


def run_on(ctx, facts, tag):
    rule_new(facts, ctx)
    rule_work(facts, ctx, only={"C19.R2"})
    c04.rule_r4(facts, _Retag(ctx, "C04.R4", "C19.R3"))
    bodies = [b for b, _ in sync_work_bodies(facts)]
    c09.rule_r3(facts, _Retag(ctx, "C09.R3", "C19.R2b"), bodies)
    c09.rule_r4(facts, _Retag(ctx, "C09.R4", "C19.R2b"), bodies)
    c09.rule_r7(facts, ctx, rule_id="C19.R2b", bodies=bodies)
    # "processes exactly min(..) steps per call" - and does not panic on the way: the C15 site rules (content- or tag-dependent
    # index / arithmetic / unwrap sites must be guarded) restricted to the generated code
    from . import c15
    c15.rule_scope(facts, ctx, lambda b: b.from_derive, rule_id="C19.R4")
    nscan = len([b for b in c15.scope_bodies(facts) if b.from_derive])
    if nscan:
        ctx.ok("C19.R4", "scanned:%s" % tag, "rustradio_macros/src/lib.rs",
               "%d generated bodies (work() and its closures) scanned for content/tag-dependent panic sites" % nscan)


class _Retag:
    def __init__(self, ctx, old, new):
        self.ctx, self.old, self.new = ctx, old, new

    def ok(self, rule, *a, **k):
        self.ctx.ok(self.new if rule == self.old else rule, *a, **k)

    def bad(self, rule, *a, **k):
        self.ctx.bad(self.new if rule == self.old else rule, *a, **k)

    def silent(self, rule, *a, **k):
        self.ctx.silent(self.new if rule == self.old else rule, *a, **k)


def run(ctx):
    facts = ctx.facts("default")
    fam = ctx.facts("family")
    run_on(ctx, fam, "family")
    run_on(ctx, facts, "crate")
    if ctx.tier == "thorough" and ctx.override is None:
        # deeper family: arities up to 5 x 5 and field-order variants (outputs first / interleaved)
        big = ctx.facts("family_big")
        sfx = ctx.suffix
        ctx.suffix = "@big"
        run_on(ctx, big, "family_big")
        ctx.suffix = sfx
        ctx.explain("THOROUGH: additionally the big generated family (40 blocks: every (inputs, outputs) in 1..5 x 1..5 with a 4 or a 5, "
                    "and outputs-first / interleaved field orders of 2x2 and 3x3, sync and sync_tag).")
    witness.report(ctx, "C19.R1w", "w_c19_r1_")
    ctx.floor("C19.R1", 39 + 20, "generated new(): 39 family blocks + >= 20 in-crate `new` users")
    ctx.floor("C19.R2", 36 * 6 + 18 * 6, "6 obligations x (36 family + 18 in-crate sync blocks)")
    ctx.floor("C19.R2b", 100, "early-return waits of generated work()")
    ctx.floor("C19.R3", 36 + 30, "generated eof()")
    ctx.floor("C19.R4", 2, "generated code of the family and of the crate scanned (no panic-capable site today)")
    ctx.floor("C19.R1w", 5, "constructor / sync output-order witnesses (declaration order, incl. non-alphabetical field names)")
    ctx.explain("C19: the programs quantified over are a generated family (sync and sync_tag x 1..3 inputs x 1..3 outputs, distinct "
                "element types, with and without default/into fields; compiled, never run) plus every derive(Block) user of the "
                "crate. On the MIR of each generated new()/work()/eof(): fresh stream per output with read ends returned in "
                "declaration order (also type-checked by compile witnesses); windows on every stream; early waits name the empty "
                "stream with need 1; n = min over ALL inputs then ALL outputs; consume(n)/produce(n, otags) on every stream with "
                "that same n; Again after the commits; eof() is the conjunction over inputs. Non-copy outputs in sync mode do not "
                "compile at all (reported, not alarmed).")
