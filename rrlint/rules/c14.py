"""C14 — byte formats round-trip and survive arbitrary read segmentation (partial)."""
import re

from ..common import *
from ..mir import peel, walk, show, same_expr, self_field_path
from .. import effects
from . import c15

CODEC = re.compile(r"^(\w+)::(from|to)_(le|be|ne)_bytes$")
WIDTH = {"u8": 1, "i8": 1, "u16": 2, "i16": 2, "u32": 4, "i32": 4, "f32": 4, "u64": 8, "i64": 8, "f64": 8, "u128": 16, "i128": 16}


def _fn_items(x, out):
    """function items used as values (`flat_map(u32::to_be_bytes)`) anywhere inside a statement / terminator"""
    if isinstance(x, dict):
        k = x.get("k")
        if isinstance(k, dict) and isinstance(k.get("fn"), dict) and k["fn"].get("q"):
            out.append(k["fn"]["q"])
        for kk, v in x.items():
            if kk not in ("sp", "f"):
                _fn_items(v, out)
    elif isinstance(x, list):
        for v in x:
            _fn_items(v, out)


def codec_calls(facts, bodies):
    out = []
    for b in bodies:
        for bb, t in b.calls():
            m = CODEC.match(t["f"].get("q") or "")
            if m:
                out.append((m.group(1), m.group(2), m.group(3), b, bb))
        for bb in sorted(b.reachable(0)):
            items = []
            _fn_items(b.blocks[bb]["stmts"], items)
            _fn_items(b.term(bb).get("args") or [], items)
            for q in items:
                m = CODEC.match(q)
                if m:
                    out.append((m.group(1), m.group(2), m.group(3), b, bb))
    return out


def with_closures(facts, body):
    return [body] + [c for c in facts.bodies if c.kind == "closure" and c.path.startswith(body.path + "::")]


def rule_r1(facts, col):
    """codec agreement of every Sample impl, and of the AU encoder/decoder pair"""
    impls = {}
    for b in facts.bodies:
        if b.trait == "Sample" and b.kind == "traitimpl":
            impls.setdefault(b.self_ty, {})[b.name] = b
    for ty, fns in sorted(impls.items()):
        key = "Sample for %s" % ty
        if ty == "std::string::String":
            col.silent("C14.R1", key, "", "String is documented TODO (not a fixed-width codec)")
            continue
        if not {"size", "parse", "serialize"} <= set(fns):
            col.bad("C14.R1", key, "", "impl Sample lacks size/parse/serialize", {})
            continue
        dec = [(p, e) for p, d, e, b, bb in codec_calls(facts, with_closures(facts, fns["parse"])) if d == "from"]
        enc = [(p, e) for p, d, e, b, bb in codec_calls(facts, with_closures(facts, fns["serialize"])) if d == "to"]
        # declared size
        size = None
        for bb, si, e in assigns_to_return(fns["size"]):
            p = peel(e, through_try=False)
            if p.k == "const" and isinstance(p.v, int):
                size = p.v
            elif p.k == "call" and p.q == "std::mem::size_of":
                sub = (p.f.get("substs") or [""])[0]
                if sub in WIDTH:
                    size = WIDTH[sub]
                elif sub.startswith("num_complex::Complex<"):
                    inner = sub[len("num_complex::Complex<"):-1]
                    size = 2 * WIDTH.get(inner, 0) or None
        if not dec and not enc and size == 1:
            col.ok("C14.R1", key, fns["parse"].where(), "single byte, no byte order involved")
            continue
        probs = []
        if sorted(dec) != sorted(enc):
            probs.append("parse decodes %s but serialize encodes %s" % (sorted(dec), sorted(enc)))
        if any(e == "ne" for _, e in dec + enc):
            probs.append("native byte order used (format differs between machines)")
        w = sum(WIDTH.get(p, 0) for p, _ in enc)
        if size is None:
            probs.append("size() is not a visible constant")
        elif w != size:
            probs.append("size() = %s but serialize writes %d bytes" % (size, w))
        if probs:
            col.bad("C14.R1", key, fns["parse"].where(), "; ".join(probs), {})
        else:
            col.ok("C14.R1", key, fns["parse"].where(), "parse/serialize both %s, size() = %d" % (sorted(set(enc)), size))
    # AU pair
    cg = CallGraph(facts)
    def side(adt):
        roots = [b.q for b in facts.bodies if (b.self_adt == adt or (b.parent or {}).get("self_adt") == adt)]
        reach = cg.reachable_bodies(roots)
        return [b for b in facts.bodies if b.q in reach and b.file == "src/au.rs"]
    encb = side("au::AuEncode")
    decb = side("au::AuDecode")
    e = {(p, en) for p, d, en, b, bb in codec_calls(facts, encb) if d == "to"}
    d_ = {(p, en) for p, d, en, b, bb in codec_calls(facts, decb) if d == "from"}
    if e or d_:
        if e == d_ and all(en == "be" for _, en in e):
            col.ok("C14.R1", "AU encoder/decoder", "src/au.rs", "both sides use %s" % sorted(e))
        else:
            col.bad("C14.R1", "AU encoder/decoder", "src/au.rs",
                    "AuEncode writes %s but AuDecode reads %s (AU is big-endian, header words u32, samples i16)" % (sorted(e), sorted(d_)), {})


def rule_r2(facts, col):
    """a decoder phase consumes what it parsed before moving to the next phase"""
    for body in facts.impl_bodies(BLOCK_TRAIT, "work"):
        if body.self_adt != "au::AuDecode":
            continue
        body = effects.work_view(facts, body)      # a phase may parse-and-consume in a helper (`take_be_u32(i)`)
        consumes = [bb for bb, t in body.calls_to(effects.CONSUME)]
        cset = set(consumes)
        # blocks that can be reached without any consume, for the Option/Result values known on the way (a helper returning
        # None when it consumed nothing and Some when it did)
        unconsumed, _ = flag_search(body, [0], avoid=cset, track_bools=False)
        n = 0
        for bb, blk in enumerate(body.blocks):
            for s in blk["stmts"]:
                if s["k"] != "assign" or not s["dst"]["p"]:
                    continue
                last = s["dst"]["p"][-1]
                if not (isinstance(last, dict) and last.get("n") == "state" and s["dst"]["l"] == 1 and s["dst"]["p"][0] == "*"):
                    continue
                if bb not in body.reachable(0):
                    continue
                n += 1
                e = body.rvalue_expr(s["rv"])
                variant = e.variant if e.k == "agg" else "?"
                key = "%s:->%s" % (body.q, variant)
                before = any(body.dominates(c, bb) for c in consumes) or bb not in unconsumed
                r = body.reachable(bb, avoid=cset)
                after_all = not any(body.term(x)["k"] == "return" for x in r) and bb not in cset
                if before or after_all:
                    col.ok("C14.R2", key, "%s:%d" % (s["sp"]["f"], s["sp"]["l"]), "the bytes parsed in this phase are consumed on every path")
                else:
                    col.bad("C14.R2", key, "%s:%d" % (s["sp"]["f"], s["sp"]["l"]),
                            "the decoder moves to state %s without consuming the bytes it just parsed: they are decoded again as the "
                            "next phase's data (extra samples at the start of the output)" % variant, {})


def rule_r4(facts, col):
    """bytes freshly read are parsed at a sample boundary only when no partial sample is pending"""
    for body in facts.impl_bodies(BLOCK_TRAIT, "work"):
        a = facts.adts.get(body.self_adt)
        if not a or a["kind"] != "struct":
            continue
        carry = [f["name"] for f in a["variants"][0]["fields"] if f["ty"]["s"] == "std::vec::Vec<u8>"]
        if not carry:
            continue
        reads = [bb for bb, t in body.calls() if t["f"].get("name") == "read" and (t["f"].get("trait") == "std::io::Read")]
        if not reads:
            continue
        for bb, t in body.calls_to(effects.PRODUCE):
            cnt = body.operand_expr(t["args"][1])
            pc = peel(cnt, through_try=False)
            direct = False
            if pc.k == "bin" and pc.op in ("Div", "Shr"):
                pa = peel(pc.a)   # through `?`
                direct = pa.k == "call" and pa.bb in reads
            if not direct:
                continue
            key = "%s:fastpath" % body.q
            ok = False
            for f in facts_at(body, bb):
                if f[0] == "Bool" and f[2] is True and (f[1].q or "").split("::")[-1] == "is_empty" and f[1].args:
                    fp = self_field_path(f[1].args[0])
                    if fp and fp[-1] in carry:
                        ok = True
            # ... and the bytes read are a whole number of samples: `n / size` samples are emitted and the staging buffer is dropped,
            # so a remainder (n % size bytes of the next sample) would be lost
            whole = False
            for f in facts_at(body, bb):
                xs = []
                if f[0] == "IntEq" and f[2] == 0:
                    xs = [f[1]]
                elif f[0] == "Eq":
                    zl, zr = peel(f[1], through_try=False), peel(f[2], through_try=False)
                    if zr.k == "const" and zr.v == 0:
                        xs = [f[1]]
                    elif zl.k == "const" and zl.v == 0:
                        xs = [f[2]]
                elif f[0] in ("Bool", "BoolVal") and f[2] is True and f[1] is not None and (getattr(f[1], "q", None) or "").split("::")[-1] == "is_multiple_of":
                    pa = peel(f[1].args[0]) if f[1].args else None
                    if pa is not None and pa.k == "call" and pa.bb in reads and same_expr(peel(f[1].args[1], through_try=False), peel(pc.b, through_try=False)):
                        whole = True
                for x in xs:
                    px = peel(x, through_try=False)
                    if px.k == "bin" and px.op == "Rem":
                        pa = peel(px.a)
                        if pa.k == "call" and pa.bb in reads and same_expr(peel(px.b, through_try=False), peel(pc.b, through_try=False)):
                            whole = True
            if pc.op == "Div":
                if whole:
                    col.ok("C14.R4", key + ":whole", body.where(bb), "emitted directly only when the read size is a multiple of the sample size")
                else:
                    col.bad("C14.R4", key + ":whole", body.where(bb),
                            "read()/size samples are produced straight from the staging buffer, which is then dropped, without establishing "
                            "read() %% size == 0 on this path: the trailing bytes of a read that ends inside a sample are lost and every "
                            "later sample is parsed from the wrong offset", {})
            if ok:
                col.ok("C14.R4", key, body.where(bb), "freshly read bytes are emitted directly only when the carry buffer is empty")
            else:
                col.bad("C14.R4", key, body.where(bb),
                        "samples are produced straight from a fresh read() (count derived from the read size) without establishing that the "
                        "partial-sample carry buffer self.%s is EMPTY: with a partial sample pending the new bytes are parsed at the wrong "
                        "boundary (garbage samples; stale bytes later joined to unrelated data)" % carry[0], {})


BUFFER_VIEWS = {"index", "index_mut", "deref", "deref_mut", "as_slice", "as_mut_slice", "as_ref", "as_mut", "borrow", "borrow_mut",
                "len", "is_empty", "capacity", "as_ptr", "as_mut_ptr"}
STD_READ = "std::io::Read::read"


def _mentions_outside(e, alloc_bb, read_bb, depth=0):
    """e contains the staging buffer allocated at alloc_bb other than as the operand of the read() at read_bb (the read's own
    result - `n`, `n?` - is computed 'from' the buffer but is not its contents)"""
    if e is None or depth > 40:
        return False
    if e.k == "call" and getattr(e, "bb", None) == read_bb:
        return False
    if e.k == "call" and e.q == "std::vec::from_elem" and getattr(e, "bb", None) == alloc_bb:
        return True
    for c in (e.a, e.b):
        if c is not None and _mentions_outside(c, alloc_bb, read_bb, depth + 1):
            return True
    for lst in (e.args, e.alts):
        for c in (lst or []):
            if _mentions_outside(c, alloc_bb, read_bb, depth + 1):
                return True
    return False


def rule_r10(facts, col, rule_id="C14.R10"):
    """what was read is kept: after an io::Read::read() into a `vec![0; n]` staging buffer, every non-error path of work() on
    which the result is not 0 hands the buffer's contents on (parses them, appends them to the carry buffer, copies them into
    the write window) before it returns.  A path that returns without touching the buffer has taken bytes from the file /
    socket and thrown them away: the stream continues with a hole."""
    for body in facts.impl_bodies(BLOCK_TRAIT, "work"):
        k = 0
        for bb, t in body.calls_to(STD_READ):
            if len(t["args"]) < 2 or t.get("sp", {}).get("x"):
                continue
            key = "%s:read#%d" % (body.q, k)
            k += 1
            buf = body.operand_expr(t["args"][1])
            alloc = [x for x in walk(buf) if x.k == "call" and x.q == "std::vec::from_elem"]
            if not alloc:
                col.silent(rule_id, key, body.where(bb), "read target is not a vec![0; n] staging buffer")
                continue
            abb = alloc[0].bb
            uses = set()
            for ubb, ut in body.calls():
                if ubb == bb or (ut["f"].get("name") in BUFFER_VIEWS):
                    continue
                for a in ut["args"]:
                    if _mentions_outside(body.operand_expr(a), abb, bb):
                        uses.add(ubb)
            # paths on which read() returned 0 have nothing to keep
            zero = set()
            for (sbb, tgt), f in edge_facts(body):
                x = None
                if f[0] == "IntEq" and f[2] == 0:
                    x = f[1]
                elif f[0] == "Eq":
                    zl, zr = peel(f[1], through_try=False), peel(f[2], through_try=False)
                    x = f[1] if (zr.k == "const" and zr.v == 0) else f[2] if (zl.k == "const" and zl.v == 0) else None
                if x is not None:
                    px = peel(x)
                    if px.k == "call" and px.bb == bb:
                        zero.add(tgt)
            okrets = {rb for rb, si, e in assigns_to_return(body)
                      if not ((e.k == "agg" and e.variant == "Err") or (e.k == "call" and (e.q or "").endswith("from_residual")))}
            start = body.term(bb).get("t")
            lost = okrets & reach_avoiding(body, start, uses | zero) if start is not None else set()
            if lost:
                col.bad(rule_id, key, body.where(bb),
                        "work() can return Ok (%s) after this read() returned a non-zero count without handing the staging buffer on "
                        "(no parse, no append to the carry buffer, no copy into the write window on that path): the bytes are gone from "
                        "the file/socket and appear nowhere in the output" % body.where(sorted(lost)[0]), {})
            else:
                col.ok(rule_id, key, body.where(bb), "every non-error path with a non-zero read hands the staging buffer on (%d use sites)" % len(uses))


_ARRLEN = re.compile(r"\[u8; (\d+)\]")


def rule_r11(facts, col, rule_id="C14.R11"):
    """the AU encoder's header agrees with itself and with the decoder: (a) the number of bytes AuEncode::new() appends to the
    header equals the data offset it writes into word 1 (the decoder skips exactly that many bytes before the samples);
    (b) the magic it writes into word 0 is the constant the decoder compares the first word with; (c) every format check of
    the decoder rejects on MISMATCH: an Err return whose controlling test compares a decoded header word is on the
    not-equal side of that test."""
    enc = [b for b in facts.bodies if b.q == "au::AuEncode::new"]
    dec = [b for b in facts.impl_bodies(BLOCK_TRAIT, "work") if b.self_adt == "au::AuDecode"]
    if not enc or not dec:
        col.bad(rule_id, "au:anchors", "src/au.rs", "AuEncode::new / AuDecode::work not found", {})
        return
    enc, dec = enc[0], effects.work_view(facts, dec[0], methods=True)
    words = []
    total = 0
    sized = True
    for bb, t in sorted(enc.calls(), key=lambda x: ((x[1].get("sp") or {}).get("l", 0), x[0])):
        if t["f"].get("name") not in ("extend", "extend_from_slice") or len(t["args"]) < 2:
            continue
        m = _ARRLEN.search((t.get("argtys") or ["", ""])[1])
        if not m:
            sized = False
            continue
        total += int(m.group(1))
        a = peel(enc.operand_expr(t["args"][1]), through_try=False)
        val = None
        if a.k == "call" and CODEC.match(a.q or "") and a.args:
            c = peel(a.args[0], through_try=False)
            if c.k == "const" and isinstance(c.v, int):
                val = c.v
        words.append((bb, int(m.group(1)), val))
    if not sized or len(words) < 2:
        col.silent(rule_id, "au:header-length", enc.where(), "header is not built from fixed-size pieces")
    elif words[1][2] is None:
        col.silent(rule_id, "au:header-length", enc.where(words[1][0]), "data offset word is not a constant")
    elif words[1][2] == total:
        col.ok(rule_id, "au:header-length", enc.where(words[1][0]), "header is %d bytes and word 1 (data offset) says %d" % (total, total))
    else:
        col.bad(rule_id, "au:header-length", enc.where(words[1][0]),
                "AuEncode::new() builds a header of %d bytes but writes %d as the data offset: a decoder (AuDecode included) skips to "
                "byte %d and reads the samples from the wrong place" % (total, words[1][2], words[1][2]), {})
    magic = words[0][2] if words else None
    cmp_consts = set()
    checks = 0
    for rb, si, e in assigns_to_return(dec):
        if not (e.k == "agg" and e.variant == "Err"):
            continue
        best = None
        for edge, f in facts_at_e(dec, rb):
            if f[0] in ("Eq", "Ne") and (best is None or dec.dominates(best[0][0], edge[0])):
                from ..common import _expand_deep
                sides = []
                for side in f[1:3]:
                    if hasattr(side, "k"):
                        ex, _c = _expand_deep(facts, side)        # `be_u32(window)`: a small helper around from_be_bytes
                        sides.append(ex)
                decoded = any(x.k == "call" and CODEC.match(x.q or "") for side in sides for x in walk(side))
                if decoded:
                    best = (edge, f)
        if best is None:
            continue
        checks += 1
        f = best[1]
        for side in f[1:3]:
            c = peel(side, through_try=False)
            if c.k == "const" and isinstance(c.v, int) and c.v > 0xFFFFFF:
                cmp_consts.add(c.v)
        key = "au:reject#%d" % checks
        if f[0] == "Ne":
            col.ok(rule_id, key, dec.where(rb), "format error raised on the not-equal side of the header comparison")
        else:
            col.bad(rule_id, key, dec.where(rb),
                    "the decoder returns a format error on the path where the decoded header word EQUALS the expected value (and accepts "
                    "everything else): every well-formed stream - the encoder's own output included - is rejected", {})
    if magic is None:
        col.silent(rule_id, "au:magic", enc.where(), "magic word is not a constant")
    elif magic in cmp_consts:
        col.ok(rule_id, "au:magic", enc.where(words[0][0]), "encoder writes 0x%08x, decoder compares the first word with the same constant" % magic)
    else:
        col.bad(rule_id, "au:magic", enc.where(words[0][0]),
                "encoder writes magic 0x%08x but the decoder compares the first word with %s: the decoder rejects the encoder's output"
                % (magic, sorted("0x%08x" % c for c in cmp_consts) or "nothing"), {})


STORERS = {"extend", "extend_from_slice", "append", "push", "insert", "splice", "extend_from_within"}


def rule_r13(facts, col, rule_id="C14.R13"):
    """only the bytes read are kept: where the staging buffer of a read() is stored into the block's carry buffer
    (`extend`, `extend_from_slice`, `append`, ..), it is the sub-slice `[..n]` with n the read's result - not the whole buffer,
    which was allocated for a full window and holds zeros behind the bytes actually read (they would be emitted as samples
    after the real ones, and EOF only after them)."""
    n_ = 0
    for body in facts.impl_bodies(BLOCK_TRAIT, "work"):
        for bb, t in body.calls_to(STD_READ):
            if len(t["args"]) < 2 or t.get("sp", {}).get("x"):
                continue
            buf = body.operand_expr(t["args"][1])
            alloc = [x for x in walk(buf) if x.k == "call" and x.q == "std::vec::from_elem"]
            if not alloc:
                continue
            abb = alloc[0].bb
            for ubb, ut in body.calls():
                if ut["f"].get("name") not in STORERS or len(ut["args"]) < 2:
                    continue
                if not self_field_path(body.operand_expr(ut["args"][0])):
                    continue
                src = body.operand_expr(ut["args"][1])
                if not _mentions_outside(src, abb, bb):
                    continue
                n_ += 1
                key = "%s:store#%d" % (body.q, n_)
                ok = False
                for x in walk(src):
                    if x.k == "call" and (x.q or "").split("::")[-1] in ("index", "index_mut") and len(x.args or []) == 2:
                        rg = peel(x.args[1], through_try=False)
                        if rg.k == "agg" and rg.adt in ("std::ops::RangeTo", "std::ops::Range") and rg.args:
                            end = peel(rg.args[-1])
                            if end.k == "call" and end.bb == bb:
                                ok = True
                            else:
                                # an end that is at most the read's result: `min(size - have, n)`, a local bounded by it
                                from . import c09 as _c09

                                def bounded(e_, d=0):
                                    pe_ = peel(e_, through_try=False)
                                    if pe_.k == "const" and pe_.v == 0:
                                        return True
                                    if pe_.k == "multi" and pe_.alts and d < 3:
                                        return all(bounded(a_, d + 1) for a_ in pe_.alts)
                                    ubs = []
                                    _c09._upper_bounds(e_, ubs)
                                    return any(peel(u).k == "call" and peel(u).bb == bb and not m for u, m in ubs)
                                if bounded(rg.args[-1]):
                                    ok = True
                if not ok:
                    # ... or the staging buffer itself was cut first: `buffer.truncate(n)` on every way from the read to the store
                    for tb, tt in body.calls():
                        if tt["f"].get("name") != "truncate" or len(tt["args"]) < 2 or tb == ubb:
                            continue
                        tgt = body.operand_expr(tt["args"][0])
                        if not any(x.k == "call" and x.q == "std::vec::from_elem" and x.bb == abb for x in walk(tgt)):
                            continue
                        end = peel(body.operand_expr(tt["args"][1]))
                        if end.k == "call" and end.bb == bb and tb in body.reachable(bb):
                            # no way from the read to the store around the cut (value-sensitive: on a view the helper's
                            # `Err` exits join its `Ok` exit before the caller's `?` separates them again)
                            r_, _e = flag_search(body, list(body.succ[bb]), avoid={tb}, track_bools=False)
                            if ubb not in r_:
                                ok = True
                if ok:
                    col.ok(rule_id, key, body.where(ubb), "the carry buffer receives `[..n]` of the staging buffer, n = the read's result")
                else:
                    col.bad(rule_id, key, body.where(ubb),
                            "the carry buffer receives the staging buffer without cutting it to the number of bytes read(): the buffer was "
                            "allocated for a whole window, so the zeros behind the bytes actually read are queued as if they came from the "
                            "file - emitted as samples after the real ones, with EOF only after them", {})
    if n_ == 0:
        col.ok(rule_id, "no-staging-store", "src/file_source.rs", "no staging buffer is stored into a carry buffer")


NON_CONTENT = {"len", "is_empty", "clear", "truncate", "drain", "extend", "extend_from_slice", "push", "capacity", "reserve",
               "append", "resize", "with_capacity", "shrink_to_fit", "split_off", "take", "replace", "swap", "drop", "drop_in_place"}
DROPPERS = {"clear", "truncate", "drain", "split_off", "take", "replace", "swap"}


def _carry_fields(facts, body):
    a = facts.adts.get(body.self_adt)
    if not a or a["kind"] != "struct":
        return []
    return [f["name"] for f in a["variants"][0]["fields"] if f["ty"]["s"] == "std::vec::Vec<u8>"]


VIEWS = {"deref", "deref_mut", "as_slice", "as_mut_slice", "as_ref", "as_mut", "borrow", "borrow_mut"}


def _mentions_carry(e, carry, depth=0):
    """e IS the carry field (by reference, or a slice view of it) - values merely computed from its length do not count"""
    if e is None or depth > 6:
        return None
    fp = self_field_path(e)
    if fp:
        return fp[-1] if fp[-1] in carry and len(fp) == 1 else None
    p = e
    while p is not None and p.k in ("ref", "deref"):
        p = p.a
    if p is not None and p.k == "call" and (p.q or "").split("::")[-1] in VIEWS and p.args:
        return _mentions_carry(p.args[0], carry, depth + 1)
    return None


def _c16_reads(facts, body):
    from . import c16
    return c16.reads_from_io(facts, body)


def rule_r5(facts, col):
    """bytes of a pending partial sample are never thrown away unread"""
    for body in facts.impl_bodies(BLOCK_TRAIT, "work"):
        carry = _carry_fields(facts, body)
        if not carry:
            continue
        if not [1 for b in [body] + adt_helpers(facts, body) for bb, t in b.calls()
                if t["f"].get("name") == "read" and t["f"].get("trait") == "std::io::Read"] and not _c16_reads(facts, body):
            continue
        for hb in adt_helpers(facts, body):
            _carry_drops(facts, col, hb, carry, owner=body)
        _carry_drops(facts, col, body, carry, owner=body)


def _carry_drops(facts, col, body, carry, owner):
        content_reads = {}
        drops = []
        for bb, t in body.calls():
            name = t["f"].get("name") or ""
            for i, a_ in enumerate(t["args"]):
                f = _mentions_carry(body.operand_expr(a_), carry)
                if not f:
                    continue
                q = t["f"].get("q") or ""
                if name in DROPPERS and i == 0 and q.startswith("std::vec::Vec::"):
                    drops.append((bb, f, name + "()"))
                elif name in ("take", "replace", "swap") and q.startswith("std::mem::"):
                    drops.append((bb, f, "mem::" + name))
                elif name not in NON_CONTENT:
                    content_reads.setdefault(f, []).append(bb)
        for bb in sorted(body.reachable(0)):
            for s_ in body.blocks[bb]["stmts"]:
                if s_["k"] != "assign":
                    continue
                pj = s_["dst"]["p"]
                if s_["dst"]["l"] == 1 and len(pj) == 2 and pj[0] == "*" and isinstance(pj[1], dict) and pj[1].get("n") in carry:
                    drops.append((bb, pj[1]["n"], "assignment"))
        for bb, f, how in drops:
            key = "%s:%s:%s" % (owner.q, f, how)
            ok = any(body.dominates(r, bb) and r != bb for r in content_reads.get(f, []))
            why = "its bytes were read (parse/chunks) on every path here"
            if ok and how in ("clear()", "mem::take", "mem::replace", "assignment", "truncate()"):
                # a TOTAL drop after a read in whole-sample chunks (`chunks_exact` skips a trailing partial sample): those last
                # bytes were never read - fine only where the length is established to be whole (`len == size`, `len % size == 0`)
                CH = ("chunks_exact", "chunks", "array_chunks", "as_chunks")

                def _is_chunked(r):
                    nm = body.term(r)["f"].get("name") or ""
                    if nm in CH:
                        return True
                    if nm in ("deref", "as_slice", "as_ref", "borrow", "iter"):
                        def _raw(e_):
                            n_ = 0
                            while e_ is not None and e_.k in ("ref", "deref") and n_ < 4:
                                e_ = e_.a
                                n_ += 1
                            return e_
                        users = [t2["f"].get("name") for b2, t2 in body.calls() if t2["args"]
                                 and _raw(body.operand_expr(t2["args"][0])) is not None
                                 and _raw(body.operand_expr(t2["args"][0])).k == "call"
                                 and getattr(_raw(body.operand_expr(t2["args"][0])), "bb", None) == r]
                        return bool(users) and all(u in CH for u in users)
                    return False
                chunked = [r for r in content_reads.get(f, []) if body.dominates(r, bb) and r != bb and _is_chunked(r)]
                others = [r for r in content_reads.get(f, []) if body.dominates(r, bb) and r != bb and r not in chunked]
                if chunked and not others:
                    whole = False
                    for fact in facts_at(body, bb):
                        if fact[0] in ("Eq", "IntEq"):
                            for side in fact[1:3]:
                                if hasattr(side, "k"):
                                    for x in walk(side):
                                        if x.k == "call" and (x.q or "").split("::")[-1] == "len" and x.args:
                                            fp = self_field_path(x.args[0])
                                            if fp and fp[-1] == f:
                                                whole = True
                    if not whole:
                        ok = False
            if not ok:
                for fact in facts_at(body, bb):
                    if fact[0] == "Bool" and fact[2] is True and (fact[1].q or "").split("::")[-1] == "is_empty" and fact[1].args:
                        fp = self_field_path(fact[1].args[0])
                        if fp and fp[-1] == f:
                            ok, why = True, "buffer known empty"
            if ok:
                col.ok("C14.R5", key, body.where(bb), "self.%s dropped by %s only after %s" % (f, how, why))
            else:
                col.bad("C14.R5", key, body.where(bb),
                        "the partial-sample carry buffer self.%s is overwritten/emptied by %s on a path where its bytes were neither "
                        "parsed nor known to be absent: when a read ends inside a sample and the next read is too short to complete it, the "
                        "bytes already received are lost and every later sample is assembled from misaligned bytes" % (f, how), {})



# a body that raises an alarm as compiled is judged again on its work view (effects.view_fallback)
rule_r2 = effects.view_fallback(rule_r2)
rule_r4 = effects.view_fallback(rule_r4)
rule_r5 = effects.view_fallback(rule_r5)
rule_r10 = effects.view_fallback(rule_r10)
rule_r13 = effects.view_fallback(rule_r13, trust_view=True)

def run(ctx):
    facts = ctx.facts("default")
    rule_r1(facts, ctx)
    rule_r2(facts, ctx)
    c15.rule_scope(facts, ctx, lambda b: b.file in ("src/file_source.rs", "src/tcp_source.rs", "src/sigmf.rs", "src/au.rs", "src/lib.rs"), rule_id="C14.R3")
    rule_r4(facts, ctx)
    rule_r5(facts, ctx)
    from . import c16
    c16.rule_r7(facts, ctx, rule_id="C14.R6")
    from . import c19
    c16.rule_r5(facts, c19._Retag(ctx, "C16.R5", "C14.R8"))      # read-ahead beyond what the output takes is invisible to the EOF decision
    ctx.floor("C14.R8", 2, "read(2) staging buffers of FileSource and SigMFSource (same rule as C16.R5)")
    c16.rule_r9(facts, ctx, rule_id="C14.R7", scope=lambda b: b.file in ("src/file_source.rs", "src/tcp_source.rs", "src/sigmf.rs", "src/au.rs"))
    from . import c09, c19 as _c19
    bodies14 = [b for b in facts.impl_bodies(BLOCK_TRAIT, "work") if b.file in ("src/au.rs", "src/file_source.rs", "src/tcp_source.rs", "src/sigmf.rs")]
    c09.rule_r4(facts, _c19._Retag(ctx, "C09.R4", "C14.R12"), bodies14)     # an over-stated wait retires the decoder with bytes it could decode
    ctx.floor("C14.R12", 3, "WaitForStream amounts of the codecs / byte sources compared with the tested threshold (same rule as C09.R4)")
    rule_r11(facts, ctx)
    ctx.ok("C14.R11", "au:scanned", "src/au.rs", "AuEncode::new and AuDecode::work located and scanned (undecided parts are listed as silent)")
    ctx.floor("C14.R11", 1, "AU header agreement: 6 instances decided today; a header built by a loop or a table is listed as not decided")
    rule_r13(facts, ctx)
    ctx.floor("C14.R13", 1, "staging buffers stored into a carry buffer (FileSource, SigMFSource, TcpSource today)")
    rule_r10(facts, ctx)
    ctx.floor("C14.R10", 2, "io::Read::read() staging buffers (FileSource, SigMFSource, TcpSource today; a read straight into the carry buffer is not a staging buffer)")
    c16.rule_r11(facts, ctx, rule_id="C14.R9")      # a zero-length read() reads as end of data
    ctx.floor("C14.R9", 2, "io::Read::read() sites with a staging buffer (FileSource, SigMFSource, TcpSource today; same rule as C16.R11)")
    ctx.floor("C14.R7", 4, "EOF verdicts of the byte sources (FileSource, TcpSource, SigMFSource)")
    ctx.floor("C14.R6", 1, "SigMFSource's restart seek (archive member offset) - same rule as C16.R7")
    ctx.floor("C14.R5", 3, "carry-buffer drops in FileSource (drain), SigMFSource (drain), TcpSource (clear)")
    ctx.floor("C14.R1", 6, "5 numeric Sample impls + the AU pair")
    ctx.floor("C14.R2", 1, "AuDecode state transitions (3 assignments today; a decoder that computes the next state per arm and stores it once has 1)")
    ctx.floor("C14.R3", 20, "content-tainted arithmetic/index sites of the byte sources and codecs")
    ctx.floor("C14.R4", 1, "FileSource fast path")
    ctx.explain("C14 (partial): every numeric `impl Sample` parses and serialises with the same primitive type and byte order and size() "
                "equals the encoded width; the AU encoder and decoder agree on (u32, i16, big-endian); every AuDecode state transition "
                "is preceded or followed on all paths by a consume of the parsed bytes; the partial-read arithmetic of the byte "
                "sources is guarded (C15 rules restricted to those files); a fast path that emits freshly read bytes directly is "
                "dominated by carry-buffer emptiness. Identity of the composed byte streams and tar member selection are NOT decided.")
