"""C14 — byte formats round-trip and survive arbitrary read segmentation (partial)."""
import re

from ..common import *
from ..mir import peel, walk, show, same_expr, self_field_path
from .. import effects
from . import c15

CODEC = re.compile(r"^(\w+)::(from|to)_(le|be|ne)_bytes$")
WIDTH = {"u8": 1, "i8": 1, "u16": 2, "i16": 2, "u32": 4, "i32": 4, "f32": 4, "u64": 8, "i64": 8, "f64": 8, "u128": 16, "i128": 16}


def codec_calls(facts, bodies):
    out = []
    for b in bodies:
        for bb, t in b.calls():
            m = CODEC.match(t["f"].get("q") or "")
            if m:
                out.append((m.group(1), m.group(2), m.group(3), b, bb))
    return out


def with_closures(facts, body):
    return [body] + [c for c in facts.bodies if c.kind == "closure" and c.path.startswith(body.path + "::")]


def rule_r1(facts, col):
    """codec agreement of every Sample impl, and of the AU encoder/decoder pair"""
    impls = {}
    for b in facts.bodies:
        if b.trait == "Sample" and b.kind == "traitimpl":
            impls.setdefault(b.self_ty, {})[b.name] = b
    for ty, fns in sorted(impls.items()):
        key = "Sample for %s" % ty
        if ty == "std::string::String":
            col.silent("C14.R1", key, "", "String is documented TODO (not a fixed-width codec)")
            continue
        if not {"size", "parse", "serialize"} <= set(fns):
            col.bad("C14.R1", key, "", "impl Sample lacks size/parse/serialize", {})
            continue
        dec = [(p, e) for p, d, e, b, bb in codec_calls(facts, with_closures(facts, fns["parse"])) if d == "from"]
        enc = [(p, e) for p, d, e, b, bb in codec_calls(facts, with_closures(facts, fns["serialize"])) if d == "to"]
        # declared size
        size = None
        for bb, si, e in assigns_to_return(fns["size"]):
            p = peel(e, through_try=False)
            if p.k == "const" and isinstance(p.v, int):
                size = p.v
            elif p.k == "call" and p.q == "std::mem::size_of":
                sub = (p.f.get("substs") or [""])[0]
                if sub in WIDTH:
                    size = WIDTH[sub]
                elif sub.startswith("num_complex::Complex<"):
                    inner = sub[len("num_complex::Complex<"):-1]
                    size = 2 * WIDTH.get(inner, 0) or None
        if not dec and not enc and size == 1:
            col.ok("C14.R1", key, fns["parse"].where(), "single byte, no byte order involved")
            continue
        probs = []
        if sorted(dec) != sorted(enc):
            probs.append("parse decodes %s but serialize encodes %s" % (sorted(dec), sorted(enc)))
        if any(e == "ne" for _, e in dec + enc):
            probs.append("native byte order used (format differs between machines)")
        w = sum(WIDTH.get(p, 0) for p, _ in enc)
        if size is None:
            probs.append("size() is not a visible constant")
        elif w != size:
            probs.append("size() = %s but serialize writes %d bytes" % (size, w))
        if probs:
            col.bad("C14.R1", key, fns["parse"].where(), "; ".join(probs), {})
        else:
            col.ok("C14.R1", key, fns["parse"].where(), "parse/serialize both %s, size() = %d" % (sorted(set(enc)), size))
    # AU pair
    cg = CallGraph(facts)
    def side(adt):
        roots = [b.q for b in facts.bodies if (b.self_adt == adt or (b.parent or {}).get("self_adt") == adt)]
        reach = cg.reachable_bodies(roots)
        return [b for b in facts.bodies if b.q in reach and b.file == "src/au.rs"]
    encb = side("au::AuEncode")
    decb = side("au::AuDecode")
    e = {(p, en) for p, d, en, b, bb in codec_calls(facts, encb) if d == "to"}
    d_ = {(p, en) for p, d, en, b, bb in codec_calls(facts, decb) if d == "from"}
    if e or d_:
        if e == d_ and all(en == "be" for _, en in e):
            col.ok("C14.R1", "AU encoder/decoder", "src/au.rs", "both sides use %s" % sorted(e))
        else:
            col.bad("C14.R1", "AU encoder/decoder", "src/au.rs",
                    "AuEncode writes %s but AuDecode reads %s (AU is big-endian, header words u32, samples i16)" % (sorted(e), sorted(d_)), {})


def rule_r2(facts, col):
    """a decoder phase consumes what it parsed before moving to the next phase"""
    for body in facts.impl_bodies(BLOCK_TRAIT, "work"):
        if body.self_adt != "au::AuDecode":
            continue
        body = effects.work_view(facts, body)      # a phase may parse-and-consume in a helper (`take_be_u32(i)`)
        consumes = [bb for bb, t in body.calls_to(effects.CONSUME)]
        cset = set(consumes)
        # blocks that can be reached without any consume, for the Option/Result values known on the way (a helper returning
        # None when it consumed nothing and Some when it did)
        unconsumed, _ = flag_search(body, [0], avoid=cset, track_bools=False)
        n = 0
        for bb, blk in enumerate(body.blocks):
            for s in blk["stmts"]:
                if s["k"] != "assign" or not s["dst"]["p"]:
                    continue
                last = s["dst"]["p"][-1]
                if not (isinstance(last, dict) and last.get("n") == "state" and s["dst"]["l"] == 1 and s["dst"]["p"][0] == "*"):
                    continue
                if bb not in body.reachable(0):
                    continue
                n += 1
                e = body.rvalue_expr(s["rv"])
                variant = e.variant if e.k == "agg" else "?"
                key = "%s:->%s" % (body.q, variant)
                before = any(body.dominates(c, bb) for c in consumes) or bb not in unconsumed
                r = body.reachable(bb, avoid=cset)
                after_all = not any(body.term(x)["k"] == "return" for x in r) and bb not in cset
                if before or after_all:
                    col.ok("C14.R2", key, "%s:%d" % (s["sp"]["f"], s["sp"]["l"]), "the bytes parsed in this phase are consumed on every path")
                else:
                    col.bad("C14.R2", key, "%s:%d" % (s["sp"]["f"], s["sp"]["l"]),
                            "the decoder moves to state %s without consuming the bytes it just parsed: they are decoded again as the "
                            "next phase's data (extra samples at the start of the output)" % variant, {})


def rule_r4(facts, col):
    """bytes freshly read are parsed at a sample boundary only when no partial sample is pending"""
    for body in facts.impl_bodies(BLOCK_TRAIT, "work"):
        a = facts.adts.get(body.self_adt)
        if not a or a["kind"] != "struct":
            continue
        carry = [f["name"] for f in a["variants"][0]["fields"] if f["ty"]["s"] == "std::vec::Vec<u8>"]
        if not carry:
            continue
        reads = [bb for bb, t in body.calls() if t["f"].get("name") == "read" and (t["f"].get("trait") == "std::io::Read")]
        if not reads:
            continue
        for bb, t in body.calls_to(effects.PRODUCE):
            cnt = body.operand_expr(t["args"][1])
            pc = peel(cnt, through_try=False)
            direct = False
            if pc.k == "bin" and pc.op in ("Div", "Shr"):
                pa = peel(pc.a)   # through `?`
                direct = pa.k == "call" and pa.bb in reads
            if not direct:
                continue
            key = "%s:fastpath" % body.q
            ok = False
            for f in facts_at(body, bb):
                if f[0] == "Bool" and f[2] is True and (f[1].q or "").split("::")[-1] == "is_empty" and f[1].args:
                    fp = self_field_path(f[1].args[0])
                    if fp and fp[-1] in carry:
                        ok = True
            if ok:
                col.ok("C14.R4", key, body.where(bb), "freshly read bytes are emitted directly only when the carry buffer is empty")
            else:
                col.bad("C14.R4", key, body.where(bb),
                        "samples are produced straight from a fresh read() (count derived from the read size) without establishing that the "
                        "partial-sample carry buffer self.%s is EMPTY: with a partial sample pending the new bytes are parsed at the wrong "
                        "boundary (garbage samples; stale bytes later joined to unrelated data)" % carry[0], {})


NON_CONTENT = {"len", "is_empty", "clear", "truncate", "drain", "extend", "extend_from_slice", "push", "capacity", "reserve",
               "append", "resize", "with_capacity", "shrink_to_fit", "split_off", "take", "replace", "swap", "drop", "drop_in_place"}
DROPPERS = {"clear", "truncate", "drain", "split_off", "take", "replace", "swap"}


def _carry_fields(facts, body):
    a = facts.adts.get(body.self_adt)
    if not a or a["kind"] != "struct":
        return []
    return [f["name"] for f in a["variants"][0]["fields"] if f["ty"]["s"] == "std::vec::Vec<u8>"]


VIEWS = {"deref", "deref_mut", "as_slice", "as_mut_slice", "as_ref", "as_mut", "borrow", "borrow_mut"}


def _mentions_carry(e, carry, depth=0):
    """e IS the carry field (by reference, or a slice view of it) - values merely computed from its length do not count"""
    if e is None or depth > 6:
        return None
    fp = self_field_path(e)
    if fp:
        return fp[-1] if fp[-1] in carry and len(fp) == 1 else None
    p = e
    while p is not None and p.k in ("ref", "deref"):
        p = p.a
    if p is not None and p.k == "call" and (p.q or "").split("::")[-1] in VIEWS and p.args:
        return _mentions_carry(p.args[0], carry, depth + 1)
    return None


def rule_r5(facts, col):
    """bytes of a pending partial sample are never thrown away unread"""
    for body in facts.impl_bodies(BLOCK_TRAIT, "work"):
        carry = _carry_fields(facts, body)
        if not carry:
            continue
        if not [1 for b in [body] + adt_helpers(facts, body) for bb, t in b.calls()
                if t["f"].get("name") == "read" and t["f"].get("trait") == "std::io::Read"]:
            continue
        for hb in adt_helpers(facts, body):
            _carry_drops(facts, col, hb, carry, owner=body)
        _carry_drops(facts, col, body, carry, owner=body)


def _carry_drops(facts, col, body, carry, owner):
        content_reads = {}
        drops = []
        for bb, t in body.calls():
            name = t["f"].get("name") or ""
            for i, a_ in enumerate(t["args"]):
                f = _mentions_carry(body.operand_expr(a_), carry)
                if not f:
                    continue
                q = t["f"].get("q") or ""
                if name in DROPPERS and i == 0 and q.startswith("std::vec::Vec::"):
                    drops.append((bb, f, name + "()"))
                elif name in ("take", "replace", "swap") and q.startswith("std::mem::"):
                    drops.append((bb, f, "mem::" + name))
                elif name not in NON_CONTENT:
                    content_reads.setdefault(f, []).append(bb)
        for bb in sorted(body.reachable(0)):
            for s_ in body.blocks[bb]["stmts"]:
                if s_["k"] != "assign":
                    continue
                pj = s_["dst"]["p"]
                if s_["dst"]["l"] == 1 and len(pj) == 2 and pj[0] == "*" and isinstance(pj[1], dict) and pj[1].get("n") in carry:
                    drops.append((bb, pj[1]["n"], "assignment"))
        for bb, f, how in drops:
            key = "%s:%s:%s" % (owner.q, f, how)
            ok = any(body.dominates(r, bb) and r != bb for r in content_reads.get(f, []))
            why = "its bytes were read (parse/chunks) on every path here"
            if not ok:
                for fact in facts_at(body, bb):
                    if fact[0] == "Bool" and fact[2] is True and (fact[1].q or "").split("::")[-1] == "is_empty" and fact[1].args:
                        fp = self_field_path(fact[1].args[0])
                        if fp and fp[-1] == f:
                            ok, why = True, "buffer known empty"
            if ok:
                col.ok("C14.R5", key, body.where(bb), "self.%s dropped by %s only after %s" % (f, how, why))
            else:
                col.bad("C14.R5", key, body.where(bb),
                        "the partial-sample carry buffer self.%s is overwritten/emptied by %s on a path where its bytes were neither "
                        "parsed nor known to be absent: when a read ends inside a sample and the next read is too short to complete it, the "
                        "bytes already received are lost and every later sample is assembled from misaligned bytes" % (f, how), {})



# a body that raises an alarm as compiled is judged again on its work view (effects.view_fallback)
rule_r2 = effects.view_fallback(rule_r2)
rule_r4 = effects.view_fallback(rule_r4)
rule_r5 = effects.view_fallback(rule_r5)

def run(ctx):
    facts = ctx.facts("default")
    rule_r1(facts, ctx)
    rule_r2(facts, ctx)
    c15.rule_scope(facts, ctx, lambda b: b.file in ("src/file_source.rs", "src/tcp_source.rs", "src/sigmf.rs", "src/au.rs", "src/lib.rs"), rule_id="C14.R3")
    rule_r4(facts, ctx)
    rule_r5(facts, ctx)
    from . import c16
    c16.rule_r7(facts, ctx, rule_id="C14.R6")
    from . import c19
    c16.rule_r5(facts, c19._Retag(ctx, "C16.R5", "C14.R8"))      # read-ahead beyond what the output takes is invisible to the EOF decision
    ctx.floor("C14.R8", 2, "read(2) staging buffers of FileSource and SigMFSource (same rule as C16.R5)")
    c16.rule_r9(facts, ctx, rule_id="C14.R7", scope=lambda b: b.file in ("src/file_source.rs", "src/tcp_source.rs", "src/sigmf.rs", "src/au.rs"))
    ctx.floor("C14.R7", 4, "EOF verdicts of the byte sources (FileSource, TcpSource, SigMFSource)")
    ctx.floor("C14.R6", 1, "SigMFSource's restart seek (archive member offset) - same rule as C16.R7")
    ctx.floor("C14.R5", 3, "carry-buffer drops in FileSource (drain), SigMFSource (drain), TcpSource (clear)")
    ctx.floor("C14.R1", 6, "5 numeric Sample impls + the AU pair")
    ctx.floor("C14.R2", 3, "AuDecode state transitions")
    ctx.floor("C14.R3", 20, "content-tainted arithmetic/index sites of the byte sources and codecs")
    ctx.floor("C14.R4", 1, "FileSource fast path")
    ctx.explain("C14 (partial): every numeric `impl Sample` parses and serialises with the same primitive type and byte order and size() "
                "equals the encoded width; the AU encoder and decoder agree on (u32, i16, big-endian); every AuDecode state transition "
                "is preceded or followed on all paths by a consume of the parsed bytes; the partial-read arithmetic of the byte "
                "sources is guarded (C15 rules restricted to those files); a fast path that emits freshly read bytes directly is "
                "dominated by carry-buffer emptiness. Identity of the composed byte streams and tar member selection are NOT decided.")
