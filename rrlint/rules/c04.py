"""C04 — end-of-stream decisions never lose committed data and always arrive.

Decided clauses (DESIGN §4 C04): ordering of the liveness read and the final data-sufficiency read
(R1), verdict depends on liveness == 1 (R2), only timed waits with a constant non-zero timeout (R3),
generated eof() is the conjunction over all inputs (R4).  R5 (runner acts on the verdict) is C05.R1.
"""
from ..common import *
from ..mir import peel, walk, show


def locking_fns(facts, cg):
    """Local functions that (transitively, depth<=3) take a Mutex lock or wait on a Condvar."""
    return cg.transitive({MUTEX_LOCK} | CONDVAR_TIMED | CONDVAR_UNTIMED, depth=3)


def liveness_wrappers(facts, cg, locking):
    """Local functions that read Arc::strong_count and do not lock (pure liveness wrappers)."""
    return {q for q in cg.transitive({STRONG_COUNT}, depth=2) if q not in locking}


def classify_calls(body, locking, live_wr):
    L, D = [], []
    for bb, t in body.calls():
        qs = Body.callee_qs(t)
        if STRONG_COUNT in qs or any(q in live_wr for q in qs):
            L.append(bb)
        elif MUTEX_LOCK in qs or any(q in CONDVAR_TIMED or q in CONDVAR_UNTIMED for q in qs) or any(q in locking for q in qs):
            D.append(bb)
    return L, D


def last_ret_defs_on_paths(body, start_bb, avoid):
    """Explore paths from the successors of start_bb that avoid `avoid` blocks; for each return block
    reached, the set of last definitions of _0 on such paths ('before' = defined before start)."""
    ret_defs = {}
    for bb, si, kind, payload in body.defs().get(0, []):
        ret_defs.setdefault(bb, []).append((si, kind, payload))
    results = []  # (return_bb, lastdef)
    seen = set()
    stack = [(s, "before") for s in body.succ[start_bb] if s not in avoid]
    while stack:
        bb, last = stack.pop()
        if (bb, id(last) if not isinstance(last, str) else last) in seen:
            continue
        seen.add((bb, id(last) if not isinstance(last, str) else last))
        if bb in ret_defs:
            last = ret_defs[bb][-1]
        if body.term(bb)["k"] == "return":
            results.append((bb, last))
            continue
        for s in body.succ[bb]:
            if s in avoid:
                continue
            stack.append((s, last))
    return results


def rule_r1(facts, col, cg=None):
    """C04.R1 liveness before the final sufficiency read (read side)."""
    cg = cg or CallGraph(facts)
    locking = locking_fns(facts, cg)
    live_wr = liveness_wrappers(facts, cg, locking)
    for body in facts.bodies:
        if body.self_adt not in READ_ENDS or body.kind == "closure":
            continue
        if body.locals[0]["ty"] != "bool":
            continue  # only verdict functions; read_buf's refcount ceiling is C03.R7
        L, D = classify_calls(body, locking, live_wr)
        if not L or not D:
            continue
        _, held_before = guards_held_at_entry(body)
        for lbb in L:
            key = "%s:liveness@%s" % (body.q, _callee_short(body, lbb))
            if held_before.get(lbb):
                col.ok("C04.R1", key, body.where(lbb),
                       "liveness read while the data lock (guard _%s) is still held: count cannot change in between"
                       % sorted(held_before[lbb])[0])
                continue
            res = last_ret_defs_on_paths(body, lbb, set(D))
            badpaths = []
            for rbb, last in res:
                if last == "before":
                    badpaths.append((rbb, "value decided before the liveness read"))
                    continue
                si, kind, payload = last
                e = body.rvalue_expr(payload) if kind == "rv" else body.call_expr(rbb, payload)
                if is_const(e, False):
                    continue
                badpaths.append((rbb, "returns %s" % show(e)))
            if badpaths:
                col.bad("C04.R1", key, body.where(lbb),
                        "peer-liveness is read AFTER the last buffered-amount read on a path to a non-'false' "
                        "verdict (%s): writer can commit+drop between the two reads, so 'never satisfiable' is "
                        "reported with committed data present" % "; ".join(sorted({m for _, m in badpaths})),
                        {"function": body.q, "liveness_call_bb": lbb, "data_reads_bb": D,
                         "offending_returns": [r for r, _ in badpaths]})
            else:
                col.ok("C04.R1", key, body.where(lbb), "every path to a non-false verdict re-reads the amount after liveness")


def _callee_short(body, bb):
    t = body.term(bb)
    return (t["f"].get("name") or "?")


# ---------------------------------------------------------------------------------------
def is_liveness_expr(e, live_wr):
    e = peel(e)
    return e is not None and e.k == "call" and (e.q == STRONG_COUNT or e.q in live_wr or e.rq in live_wr)


_FACTS_FOR_EXPANSION = []


def closed_test(e, live_wr):
    """Classify a bool expression: returns 'closed' if e <=> (count == 1), 'open' if e <=> (count != 1)."""
    e = peel(e, through_try=False)
    if e is None:
        return None
    if e.k == "call" and _FACTS_FOR_EXPANSION:
        # a small predicate helper: `fn peer_gone<U>(h: &Arc<U>) -> bool { Arc::strong_count(h) == 1 }`
        x = peel(expand_local_call(_FACTS_FOR_EXPANSION[0], e), through_try=False)
        if x is not e and x is not None and x.k in ("bin", "un"):
            e = x
    if e.k == "un" and e.op == "Not":
        r = closed_test(e.a, live_wr)
        return {"closed": "open", "open": "closed"}.get(r)
    if e.k != "bin":
        return None
    a, b = e.a, e.b
    op = e.op
    if is_liveness_expr(b, live_wr) and peel(a).k == "const":
        a, b = b, a
        op = {"Lt": "Gt", "Gt": "Lt", "Le": "Ge", "Ge": "Le"}.get(op, op)
    if not is_liveness_expr(a, live_wr):
        return None
    c = peel(b)
    if c.k != "const" or c.v is None:
        return None
    v = c.v
    # strong_count >= 1 always
    if (op == "Eq" and v == 1) or (op == "Le" and v == 1) or (op == "Lt" and v == 2):
        return "closed"
    if (op == "Ne" and v == 1) or (op == "Gt" and v == 1) or (op == "Ge" and v == 2):
        return "open"
    return "wrong"


def closed_dominating(body, bb, live_wr):
    """Is `bb` reachable only through an edge that establishes count == 1 ?"""
    for s in range(body.n):
        t = body.term(s)
        if t["k"] != "switch":
            continue
        if t.get("dty") != "bool" and is_liveness_expr(switch_discr_expr(body, s), live_wr):
            # `match Arc::strong_count(&self.circ) { 1 => .., _ => false }`
            for v, tgt in t["targets"]:
                if v == 1 and [x for x, tg in t["targets"] if tg == tgt] == [1] and tgt != t["else"] and must_pass_edge(body, bb, (s, tgt)):
                    return True
            continue
        bt = bool_edge_targets(body, s)
        if not bt:
            continue
        r = closed_test(switch_discr_expr(body, s), live_wr)
        if r == "closed":
            edge = (s, bt[0])
        elif r == "open":
            edge = (s, bt[1])
        else:
            continue
        if bt[0] == bt[1]:
            continue
        if must_pass_edge(body, bb, edge):
            return True
    return False


def verdict_functions(facts):
    out = []
    for b in facts.bodies:
        if b.kind == "closure":
            continue
        if b.self_adt in READ_ENDS + WRITE_ENDS:
            if (b.trait == "stream::StreamWait" and b.name in ("wait", "closed")) or (b.trait is None and b.name in ("eof", "wait_for_read", "wait_for_write")):
                out.append(b)
    return out


def rule_r2(facts, col, cg=None):
    """C04.R2 every non-false verdict depends on liveness == 1."""
    cg = cg or CallGraph(facts)
    locking = locking_fns(facts, cg)
    live_wr = liveness_wrappers(facts, cg, locking)
    _FACTS_FOR_EXPANSION[:] = [facts]
    vfs = verdict_functions(facts)
    vq = {b.q for b in vfs}
    for body in vfs:
        for bb, si, e in assigns_to_return(body):
            if bb not in body.reachable(0):
                continue
            key = "%s:ret@%s" % (body.q, _retdesc(e))
            p = peel(e, through_try=False)
            if is_const(p, False):
                col.ok("C04.R2", key, body.where(bb), "constant false")
                continue
            r = closed_test(p, live_wr)
            if r == "closed":
                col.ok("C04.R2", key, body.where(bb), "verdict is (strong_count == 1)")
                continue
            if r == "wrong" or r == "open":
                col.bad("C04.R2", key, body.where(bb),
                        "verdict %s is not equivalent to 'peer handle count == 1' (exactly the two stream ends "
                        "hold the Arc outside work())" % show(p), {"function": body.q})
                continue
            if p.k == "call" and (p.q in vq or p.rq in vq):
                col.ok("C04.R2", key, body.where(bb), "delegates to %s (checked itself)" % (p.rq or p.q))
                continue
            if closed_dominating(body, bb, live_wr):
                col.ok("C04.R2", key, body.where(bb), "only reached under (strong_count == 1)")
                continue
            col.bad("C04.R2", key, body.where(bb),
                    "a verdict other than constant false (%s) is returned on a path that never established "
                    "'peer gone' (strong_count == 1)" % show(p), {"function": body.q})


def _retdesc(e):
    p = peel(e, through_try=False)
    if p.k == "const":
        return "const_%s" % p.v
    if p.k == "call":
        return "call_%s" % ((p.rq or p.q or "?").split("::")[-1])
    if p.k == "bin":
        return "bin_%s" % p.op
    return p.k


# ---------------------------------------------------------------------------------------
DURATION_CTORS = {"std::time::Duration::from_millis", "std::time::Duration::from_secs", "std::time::Duration::from_micros",
                  "std::time::Duration::from_nanos", "std::time::Duration::new", "std::time::Duration::from_secs_f32",
                  "std::time::Duration::from_secs_f64"}


def rule_r3(facts, col):
    """C04.R3 only timed waits, constant non-zero timeout."""
    for body, bb, t in facts.callers_of(lambda q: q in CONDVAR_UNTIMED):
        col.bad("C04.R3", "%s:untimed_%s" % (body.q, t["f"]["name"]), body.where(bb),
                "untimed Condvar wait: a reader/writer whose peer goes away without a notify is never told so",
                {"function": body.q})
    for body, bb, t in facts.callers_of(lambda q: q in CONDVAR_TIMED):
        key = "%s:%s" % (body.q, t["f"]["name"])
        d = None
        for a in t["args"]:
            e = peel(body.operand_expr(a))
            if e.k == "call" and e.q in DURATION_CTORS:
                d = e
        if d is None:
            named = [peel(body.operand_expr(a)) for a in t["args"]]
            if any(x.k == "const" and (x.ty or "").endswith("time::Duration") for x in named):
                col.ok("C04.R3", key, body.where(bb), "timed wait with a named Duration constant")
            else:
                col.silent("C04.R3", key, body.where(bb), "timeout is not a visible Duration constructor")
            continue
        vals = [peel(x) for x in d.args]
        if all(x.k == "const" and x.v is not None for x in vals) and any(x.v for x in vals):
            col.ok("C04.R3", key, body.where(bb), "timed wait, timeout %s(%s)" % (d.q.split("::")[-1], ",".join(str(x.v) for x in vals)))
        elif all(x.k == "const" and x.v is not None for x in vals):
            col.bad("C04.R3", key, body.where(bb), "timed wait with a zero timeout (busy loop, no bounded wait)", {})
        else:
            col.silent("C04.R3", key, body.where(bb), "timeout not constant")


# ---------------------------------------------------------------------------------------
def generated_eofs(facts):
    return [b for b in facts.impl_bodies("block::BlockEOF", "eof") if b.from_derive]


def input_fields(facts, adt_path):
    a = facts.adts.get(adt_path)
    if not a or a["kind"] != "struct":
        return None
    out = []
    for f in a["variants"][0]["fields"]:
        if "in" in f.get("rr", []):
            out.append(f["name"])
    return out


def rule_r4(facts, col):
    """C04.R4 / C19.R3: generated eof() is the conjunction over all inputs."""
    for body in generated_eofs(facts):
        ins = input_fields(facts, body.self_adt)
        key = body.q
        if ins is None:
            col.silent("C04.R4", key, body.where(), "ADT not found")
            continue
        if not ins:
            col.bad("C04.R4", key, body.where(), "a generated eof() exists but no `#[rustradio(in)]` field was found on the struct "
                    "(attribute extraction lost its anchor): cannot show that eof() covers all inputs", {})
            continue
        called = {}
        for bb, t in body.calls():
            qs = Body.callee_qs(t)
            if any(q in ("stream::ReadStream::eof", "stream::NCReadStream::eof") for q in qs):
                from ..mir import self_field_path
                fp = self_field_path(body.operand_expr(t["args"][0]))
                if fp:
                    called[fp[0]] = bb
        missing = [f for f in ins if f not in called]
        if missing:
            col.bad("C04.R4", key, body.where(),
                    "generated eof() does not test input stream(s) %s: block retires while they still hold data" % missing,
                    {"inputs": ins, "tested": sorted(called)})
            continue
        # with the result of any one input's eof() forced to false, no path may return anything but false
        # (explicit-state search over the bool locals: `a && b`, `let all = ..; all || false`, early returns alike)
        problems = []
        for f, cbb in called.items():
            bad_ret = []

            def seen(bb, v, bad_ret=bad_ret):
                if body.term(bb)["k"] == "return" and v.get(0) is not False:
                    bad_ret.append(bb)
            r, edges = flag_search(body, [0], call_results={cbb: False}, on_state=seen)
            if edges is None:
                problems.append("eof() too large for the path search")
            elif bad_ret:
                problems.append("a non-false result is reachable although %s.eof() is false" % f)
        # ... and with EVERY input's eof() true the result is true (an eof() that can never say yes keeps a finished block -
        # and with it the graph - alive forever)
        never = []

        def seen_all(bb, v, never=never):
            if body.term(bb)["k"] == "return" and v.get(0) is not True:
                never.append(bb)
        r, edges = flag_search(body, [0], call_results={cbb: True for cbb in called.values()}, on_state=seen_all)
        if edges is not None and never:
            problems.append("with every input at end-of-stream the result is not (always) true")
        if problems:
            col.bad("C04.R4", key, body.where(), "; ".join(sorted(set(problems))), {"inputs": ins})
        else:
            col.ok("C04.R4", key, body.where(), "true only behind the true edge of eof() of each of %s" % ins)


def used_derived_fns(facts):
    """Local functions whose return value is data-derived from the ring's fill counter BufferState.used
    (flow-insensitive taint; closures passed to a call taint its result when they read `used`)."""
    STATE = "circular_buffer::BufferState"
    derived = set()
    reads_used = {}
    for b in facts.bodies:
        r = False
        for blk in b.blocks:
            for st in blk["stmts"]:
                if st["k"] == "assign" and _place_reads_used(st["rv"], STATE):
                    r = True
        reads_used[b.path] = r
    changed = True
    while changed:
        changed = False
        for b in facts.bodies:
            if b.q in derived or b.kind == "closure":
                continue
            tainted = set()
            ch = True
            while ch:
                ch = False
                for blk in b.blocks:
                    for st in blk["stmts"]:
                        if st["k"] != "assign":
                            continue
                        rv = st["rv"]
                        src = _place_reads_used(rv, STATE) or any(_op_local(o) in tainted for o in _rv_ops(rv)) or \
                            (rv["k"] in ("ref", "discr") and rv["p"]["l"] in tainted)
                        if src and st["dst"]["l"] not in tainted:
                            tainted.add(st["dst"]["l"])
                            ch = True
                    t = blk["term"]
                    if t["k"] == "call":
                        qs = Body.callee_qs(t)
                        src = any(q in derived for q in qs) or any(_op_local(a) in tainted for a in t["args"])
                        if not src:
                            # closure argument that reads `used`
                            for a in t["args"]:
                                e = b.operand_expr(a)
                                for x in walk(e):
                                    if x.k == "agg" and x.ak == "closure" and reads_used.get(x.q):
                                        src = True
                        if src and t["dst"]["l"] not in tainted:
                            tainted.add(t["dst"]["l"])
                            ch = True
            if 0 in tainted:
                derived.add(b.q)
                changed = True
    return derived


def _place_reads_used(rv, STATE):
    def pl(p):
        return any(isinstance(x, dict) and x.get("n") == "used" and x.get("o") == STATE for x in p["p"])
    for o in _rv_ops(rv):
        p = o.get("c") or o.get("m")
        if p is not None and pl(p):
            return True
    if rv["k"] in ("ref", "discr") and pl(rv["p"]):
        return True
    return False


def _rv_ops(rv):
    k = rv["k"]
    if k in ("use", "un", "cast", "repeat"):
        return [rv["a"]]
    if k == "bin":
        return [rv["a"], rv["b"]]
    if k == "agg":
        return rv["ops"]
    return []


def _op_local(o):
    p = o.get("c") or o.get("m")
    return p["l"] if p is not None else None


def rule_r8(facts, col):
    """the provided (default) BlockEOF::eof is the constant false: a block that does not define end-of-stream is never retired by it"""
    for b in facts.bodies:
        if b.q == "block::BlockEOF::eof" and b.kind in ("traitdecl", "provided", "trait"):
            key = "block::BlockEOF::eof:default"
            vals = [peel(e, through_try=False) for bb, si, e in assigns_to_return(b)]
            if vals and all(is_const(v, False) for v in vals):
                col.ok("C04.R8", key, b.where(), "default eof() returns false")
            else:
                col.bad("C04.R8", key, b.where(), "the default BlockEOF::eof() can return something other than false: every block relying on "
                        "it is declared finished at its first wait", {})


def rule_r7(facts, col):
    """the 'can never be satisfied' decision compares the buffered amount STRICTLY with the requested amount:
    exactly `need` buffered samples satisfy the request"""
    for body in verdict_functions(facts):
        if body.argc < 2:
            continue
        for bb in sorted(body.reachable(0)):
            for si, st in enumerate(body.blocks[bb]["stmts"]):
                if st["k"] != "assign" or st["rv"]["k"] != "bin" or st["rv"]["op"] not in ("Lt", "Le", "Gt", "Ge", "Eq", "Ne"):
                    continue
                a = peel(body.operand_expr(st["rv"]["a"]), through_try=False)
                b = peel(body.operand_expr(st["rv"]["b"]), through_try=False)
                op = st["rv"]["op"]
                if b.k == "param" and b.idx == 2:
                    amount, rel = a, op
                elif a.k == "param" and a.idx == 2:
                    amount, rel = b, {"Lt": "Gt", "Gt": "Lt", "Le": "Ge", "Ge": "Le"}.get(op, op)
                else:
                    continue
                if amount.k != "call":
                    continue
                key = "%s:amount-vs-need" % body.q
                # the outcome of the comparison that contains `amount == need` must lead to the verdict false only
                eq_outcome = {"Lt": False, "Gt": False, "Ne": False, "Le": True, "Ge": True, "Eq": True}[rel]
                bad_ret = []

                def seen(b2, v, bad_ret=bad_ret):
                    if body.term(b2)["k"] == "return" and v.get(0) is not False:
                        bad_ret.append(b2)
                r, edges = flag_search(body, [0], stmt_results={(bb, si): eq_outcome}, on_state=seen)
                if edges is None:
                    col.silent("C04.R7", key, body.where(bb), "path search gave up")
                elif bad_ret:
                    col.bad("C04.R7", key, "%s:%d" % (st["sp"]["f"], st["sp"]["l"]),
                            "with exactly `need` samples buffered (amount == need, the `%s` outcome of `amount %s need`) the verdict can be "
                            "non-false: the request is declared impossible although it is satisfied, and the runner retires the block with "
                            "those samples unprocessed" % (eq_outcome, rel), {})
                else:
                    col.ok("C04.R7", key, body.where(bb), "amount == need always yields false (comparison `amount %s need`)" % rel)


def rule_r9(facts, col):
    """the verdict of a read end's wait(need) depends on `need`: with every `amount ? need` comparison of the function forced
    to its 'enough buffered' outcome, no non-false result is reachable (a verdict that ignores `need` - e.g. tests emptiness
    only - never tells a reader holding 0 < amount < need that its request cannot be satisfied, or tells it too early)"""
    for body in verdict_functions(facts):
        if body.argc < 2 or body.self_adt not in (READ_ENDS + ("stream::WriteStream",)) or body.name not in ("wait", "wait_for_read", "wait_for_write"):
            continue
        forced = {}
        for bb in sorted(body.reachable(0)):
            for si, st in enumerate(body.blocks[bb]["stmts"]):
                if st["k"] != "assign" or st["rv"]["k"] != "bin" or st["rv"]["op"] not in ("Lt", "Le", "Gt", "Ge"):
                    continue
                a = peel(body.operand_expr(st["rv"]["a"]), through_try=False)
                b = peel(body.operand_expr(st["rv"]["b"]), through_try=False)
                op = st["rv"]["op"]
                if b.k == "param" and b.idx == 2:
                    # amount op need : enough buffered means amount >= need
                    forced[(bb, si)] = op in ("Ge", "Gt") if op != "Gt" else True
                    forced[(bb, si)] = {"Lt": False, "Le": False, "Ge": True, "Gt": True}[op]
                elif a.k == "param" and a.idx == 2:
                    forced[(bb, si)] = {"Lt": True, "Le": True, "Ge": False, "Gt": False}[op]
        key = "%s:depends-on-need" % body.q
        # delegation (`fn wait(&self, need) { self.wait_for_read(need) }`) is judged in the callee
        rets = [peel(e) for _, _, e in assigns_to_return(body)]
        if rets and all(r.k == "call" and any(peel(x, through_try=False).k == "param" and peel(x, through_try=False).idx == 2 for x in (r.args or []))
                        and (r.q or "").split("::")[-1] in ("wait", "wait_for_read", "wait_for_write") for r in rets):
            col.ok("C04.R9", key, body.where(), "delegates to %s with the same need" % rets[0].q)
            continue
        if not forced and any((t["f"].get("name") == "cmp") and any(peel(x, through_try=False).k == "param" and peel(x, through_try=False).idx == 2
                                                                     for a in t["args"] for x in walk(body.operand_expr(a)))
                              for _, t in body.calls()):
            col.silent("C04.R9", key, body.where(), "amount compared with `need` through Ord::cmp (three-way): not followed")
            continue
        bad_ret = []

        def seen(b2, v, bad_ret=bad_ret):
            if body.term(b2)["k"] == "return" and v.get(0) is not False:
                bad_ret.append(b2)
        r, edges = flag_search(body, [0], stmt_results=forced, on_state=seen)
        if edges is None:
            col.silent("C04.R9", key, body.where(), "path search gave up")
        elif bad_ret:
            col.bad("C04.R9", key, body.where(bad_ret[0]),
                    "wait(need) can answer 'this request can never be satisfied' on a path that does not depend on a comparison of the "
                    "buffered amount with `need` (%d such comparisons found): the verdict is wrong for 0 < amount < need (never told) or "
                    "for amount >= need (told although satisfied)" % len(forced), {})
        else:
            col.ok("C04.R9", key, body.where(), "with amount >= need the verdict is false (%d comparisons)" % len(forced))


LOSSY = {"std::cmp::min", "std::cmp::Ord::min", "std::cmp::Ord::clamp"}


def _clamped_amount(facts, q, depth=0):
    """does the value returned by function q (an amount derived from `used`) pass through min()/clamp()/% ?  Follows
    crate-local callees and closures' enclosing wait helpers."""
    if depth > 3:
        return None
    for b in facts.by_q.get(q, []):
        if b.kind == "closure":
            continue
        for bb, si, e in assigns_to_return(b):
            for x in walk(e):
                if x.k == "call" and (x.q in LOSSY or x.rq in LOSSY):
                    return "%s in %s" % ((x.q or "").split("::")[-1], b.q)
                if x.k == "call" and ((x.q or "").split("::")[-1] in ("saturating_sub",)):
                    return "saturating_sub in %s" % b.q
                if x.k == "bin" and x.op == "Rem":
                    return "% in " + b.q
                if x.k == "call" and x.q and x.q.startswith("circular_buffer::") and x.q != q:
                    r = _clamped_amount(facts, x.q, depth + 1)
                    if r:
                        return r
    return None


def rule_r6(facts, col, cg=None):
    """C04.R6 the buffered-amount reads that verdicts rely on are derived from the fill counter `used`
    (never from rpos == wpos, which cannot tell an empty ring from a full one)"""
    cg = cg or CallGraph(facts)
    locking = locking_fns(facts, cg)
    derived = used_derived_fns(facts)
    vbodies = []
    for body in verdict_functions(facts):
        if body.self_adt not in ("stream::ReadStream", "stream::WriteStream"):
            continue
        for b2 in [body] + adt_helpers(facts, body):      # the amount may be read in a private helper (`self.drained()`)
            if b2 not in vbodies:
                vbodies.append(b2)
    for body in vbodies:
        for bb, t in body.calls():
            qs = [q for q in Body.callee_qs(t) if q in locking and q.startswith("circular_buffer::")]
            if not qs:
                continue
            key = "%s:%s" % (body.q, t["f"]["name"])
            clamp = None
            if body.self_adt == "stream::ReadStream":
                for q in qs:
                    clamp = clamp or _clamped_amount(facts, q)
            if clamp:
                col.bad("C04.R6", key, body.where(bb),
                        "the buffered amount the verdict relies on (%s) is truncated (%s): the ring is double-mapped, so ALL of `used` is "
                        "readable in one window; an amount cut at the wrap point makes `amount < need && closed` true with enough "
                        "committed samples present, and the reader is told its data will never come" % (qs[0], clamp), {})
            elif any(q in derived for q in qs):
                col.ok("C04.R6", key, body.where(bb), "amount read %s derives from BufferState.used" % qs[0])
            else:
                col.bad("C04.R6", key, body.where(bb),
                        "the verdict relies on %s, whose result is not derived from the fill counter BufferState.used: "
                        "positions alone (rpos == wpos) cannot distinguish an empty ring from a completely full one, so a "
                        "full buffer of committed samples is reported as end-of-stream" % qs[0], {})
    STATE = "circular_buffer::BufferState"
    for b in facts.bodies:
        for bbi, blk in enumerate(b.blocks):
            for st in blk["stmts"]:
                if st["k"] == "assign" and st["rv"]["k"] == "bin" and st["rv"]["op"] in ("Eq", "Ne"):
                    names = set()
                    for o in (st["rv"]["a"], st["rv"]["b"]):
                        e = peel(b.operand_expr(o), through_try=False)
                        if e.k == "field" and e.owner == STATE:
                            names.add(e.name)
                    if names == {"rpos", "wpos"}:
                        col.bad("C04.R6", "%s:rpos==wpos" % b.q, "%s:%d" % (st["sp"]["f"], st["sp"]["l"]),
                                "fill state inferred from rpos == wpos: ambiguous between empty and full (the `used` counter "
                                "exists for exactly this reason)", {})


TIME_SOURCES = ("std::time::Instant::", "std::time::Duration::checked_sub", "std::time::Duration::saturating_sub", "std::time::Duration::is_zero",
                "std::sync::WaitTimeoutResult::timed_out", "std::time::SystemTime::")


def rule_r10(facts, col, rule_id="C04.R10", cg=None):
    """a stream wait gives control back after a bounded time: a call that (transitively) sleeps on a Condvar with a timeout is not
    on a CFG cycle - unless that cycle has an exit decided by a time source (an explicit deadline loop).  A wait that loops until
    its amount is there or the peer is gone never returns to a runner whose peers are alive but stalled: the cancel flag is
    polled between work() calls only, so cancel() and a failing block are never noticed."""
    cg = cg or CallGraph(facts)
    waiters = cg.transitive(set(CONDVAR_TIMED), depth=3)
    n = 0
    for body in facts.bodies:
        if body.file not in ("src/stream.rs", "src/circular_buffer.rs") or body.kind == "closure":
            continue
        for bb, t in body.calls():
            qs = Body.callee_qs(t)
            if not any(q in CONDVAR_TIMED or q in waiters for q in qs):
                continue
            n += 1
            key = "%s:%s" % (body.q, t["f"].get("name"))
            comp = scc_of(body, bb)
            if not comp:
                col.ok(rule_id, key, body.where(bb), "timed wait not in a loop: control returns after at most one timeout")
                continue
            timed_exit = False
            for (u, v) in loop_exits(body, comp):
                tu = body.term(u)
                if tu["k"] != "switch":
                    continue
                for x in walk(switch_discr_expr(body, u)):
                    if x.k == "call" and any((x.q or "").startswith(p_) or (x.rq or "").startswith(p_) for p_ in TIME_SOURCES):
                        timed_exit = True
            if timed_exit:
                col.ok(rule_id, key, body.where(bb), "wait loop with a deadline exit")
            else:
                col.bad(rule_id, key, body.where(bb),
                        "a timed wait is repeated in a loop that is left only when the amount is there or the peer is gone: with a live but "
                        "stalled peer the call never returns, the block thread never gets back to its cancel poll, and run() hangs in "
                        "join() after cancel() or after another block failed", {})
    return n


class _Retag5:
    """C05.R1 instances are reported under C04.R5 here (the runner must act on wait()'s verdict and on nothing weaker)"""
    def __init__(self, ctx):
        self.ctx = ctx

    def ok(self, rule, *a, **k):
        self.ctx.ok("C04.R5", *a, **k)

    def bad(self, rule, *a, **k):
        self.ctx.bad("C04.R5", *a, **k)

    def silent(self, rule, *a, **k):
        self.ctx.silent("C04.R5", *a, **k)


def rule_r12(facts, col, rule_id="C04.R12"):
    """the runner asks the stream about the amount the block asked for: wherever runner code calls `StreamWait::wait(stream, n)`,
    n is the `need` of the block's `WaitForStream(stream, need)` answer unchanged (casts only).  wait(n) does not only sleep -
    its result is the end-of-stream verdict *for n*: with an inflated amount (`need.max(BATCH)`, `need + 1`) a closed stream
    that still holds `need` samples truthfully answers 'n can never be satisfied' and the runner retires a block whose real
    request can be met - committed samples are dropped with the stream."""
    n_ = 0
    for body in facts.bodies:
        if body.file not in ("src/mtgraph.rs", "src/graph.rs"):
            continue
        k = 0
        for bb, t in body.calls():
            if "stream::StreamWait::wait" not in Body.callee_qs(t) or len(t["args"]) < 2:
                continue
            n_ += 1
            key = "%s:wait#%d" % (body.q, k)
            k += 1
            e = peel(body.operand_expr(t["args"][1]), through_try=False)
            j = 0
            while e is not None and e.k == "cast" and j < 4:
                e = peel(e.a, through_try=False)
                j += 1
            if e is not None and e.k == "field" and e.idx == 1 and e.a is not None and e.a.k == "downcast" and e.a.variant == "WaitForStream":
                col.ok(rule_id, key, body.where(bb), "wait() is asked about the block's own `need`")
            elif e is not None and any(x.k == "downcast" and x.variant == "WaitForStream" for x in walk(e)):
                col.bad(rule_id, key, body.where(bb),
                        "the runner asks the stream about `%s`, an amount computed from the block's `need`, not `need` itself: wait()'s "
                        "result is the end-of-stream verdict for the amount it is given, so a closed stream that still holds what the block "
                        "asked for is reported as 'can never be satisfied' and the block is retired with committed samples unread"
                        % show(e)[:80], {})
            else:
                col.silent(rule_id, key, body.where(bb), "amount not traced to a WaitForStream answer: not decided")
    return n_


def run(ctx):
    facts = ctx.facts("default")
    cg = CallGraph(facts)
    for a in READ_ENDS + WRITE_ENDS:
        ctx.anchor("C04", a in facts.adts, "stream end type %s" % a)
    rule_r1(facts, ctx, cg)
    rule_r2(facts, ctx, cg)
    rule_r3(facts, ctx)
    rule_r4(facts, ctx)
    from . import c02
    sfacts = c02.stream_view(facts)      # the ring's entry points with private helpers / lock-and-run closures substituted in
    rule_r6(sfacts, ctx, cg if sfacts is facts else CallGraph(sfacts))
    from . import c09, c19 as _c19
    # "shutdown propagates": a block that answers a wait on a stream that already holds the amount is never told that the
    # OTHER input has ended (seed s9-c04) - same rule as C09.R3 / C05.R8
    rule_r12(facts, ctx)
    ctx.floor("C04.R12", 1, "StreamWait::wait call of the MTGraph worker")
    c09.rule_r3(facts, _c19._Retag(ctx, "C09.R3", "C04.R11"))
    ctx.floor("C04.R11", 40, "WaitForStream return sites with a plain short-window controlling test (same rule as C09.R3)")
    rule_r10(facts, ctx, cg=cg)
    ctx.floor("C04.R10", 4, "calls that sleep on a Condvar with a timeout (Buffer::wait_for_read/write and their callers, NCReadStream::wait)")
    rule_r9(facts, ctx)
    ctx.floor("C04.R9", 2, "ReadStream::wait_for_read and NCReadStream::wait")
    rule_r8(facts, ctx)
    ctx.floor("C04.R8", 1, "provided BlockEOF::eof")
    rule_r7(facts, ctx)
    ctx.floor("C04.R7", 2, "amount vs need comparisons in the copy-stream ends (the packet stream is covered by R9 as well)")
    from . import c05
    c05.rule_r1(facts, _Retag5(ctx))
    ctx.floor("C04.R5", 10, "the multithreaded runner acts on the verdict (C05.R1 obligations)")
    from .. import controls
    controls.expect(ctx, "C04.R1", rule_r1, "stream::NCReadStream::eof", "emptiness read before liveness")
    controls.expect(ctx, "C04.R2", rule_r2, "stream::NCReadStream::eof", "count <= 2")
    controls.expect(ctx, "C04.R3", rule_r3, "untimed", "Condvar::wait_while without timeout")
    ctx.floor("C04.R6", 3, "amount reads in ReadStream::{wait_for_read,eof}, WriteStream::wait_for_write")
    ctx.floor("C04.R1", 3, "liveness reads in read-end methods that also read the amount: ReadStream::{wait_for_read,eof}, NCReadStream::{wait,eof}")
    ctx.floor("C04.R2", 10, "verdict definitions in wait/closed/eof of the four stream ends")
    ctx.floor("C04.R3", 2, "timed condvar waits: the copy-stream buffer (2 sites today, 1 when they share a helper) and NCReadStream::wait")
    ctx.floor("C04.R4", 30, "derive-generated BlockEOF::eof bodies with inputs")
    ctx.explain("C04: decides, from MIR, the ORDER of the peer-liveness read (Arc::strong_count) and the last "
                "buffered-amount read on every path to a non-false end-of-stream verdict in the read ends (R1; a liveness "
                "read under the still-held data lock is accepted), that every non-false verdict is equivalent to or "
                "guarded by count==1 (R2), that all condvar waits are timed with a constant non-zero timeout (R3) and "
                "that every derive-generated eof() is the conjunction of eof() over all input-stream fields (R4).")
    ctx.assume("Arc::strong_count / Mutex / Condvar::wait_timeout_while semantics as documented by std")
    ctx.assume("outside work() exactly the two stream ends hold the Arc (C09.R1 checks no window outlives work())")
