"""C16 — finite sources emit their data exactly `repeat` times, then EOF (structural part)."""
from ..common import *
from ..mir import peel, walk, show, same_expr, self_field_path, E
from .. import effects

REPEAT_ADT = "Repeat"
DONE = "Repeat::done"
AGAIN = "Repeat::again"
TAG_NEW = "stream::Tag::new"


def rule_r1(facts, col):
    """counter arithmetic of the Repeat impl cannot underflow"""
    for body in facts.bodies:
        if body.self_adt != REPEAT_ADT:
            continue
        for bb in sorted(body.reachable(0)):
            t = body.term(bb)
            if t["k"] != "assert" or t["msg"]["kind"] != "Overflow" or t["msg"].get("op") != "Sub":
                continue
            a = body.operand_expr(t["msg"]["a"])
            b = body.operand_expr(t["msg"]["b"])
            key = "%s:sub(%s)" % (body.q, _short(a))
            if known_ge(body, bb, a, b):
                col.ok("C16.R1", key, body.where(bb), "subtraction guarded: minuend >= subtrahend on every path")
            else:
                col.bad("C16.R1", key, body.where(bb),
                        "the repeat counter is decremented (%s - %s) with nothing establishing it is non-zero: "
                        "Repeat::finite(0) (or one call too many) panics on underflow" % (show(a), show(b)), {})
        if not any(body.term(bb)["k"] == "assert" and body.term(bb)["msg"].get("op") == "Sub" for bb in body.reachable(0)):
            if body.name == "again":
                col.ok("C16.R1", "%s:nosub" % body.q, body.where(), "no checked subtraction (saturating/none)")
        # a subtraction spelled with a wrapping / unchecked method does not panic - it silently turns 0 into u64::MAX repetitions
        for bb, t in body.calls():
            nm = t["f"].get("name") or ""
            if nm not in ("wrapping_sub", "unchecked_sub", "overflowing_sub") or len(t["args"]) < 2:
                continue
            key = "%s:%s" % (body.q, nm)
            a, b = body.operand_expr(t["args"][0]), body.operand_expr(t["args"][1])
            if known_ge(body, bb, a, b):
                col.ok("C16.R1", key, body.where(bb), "guarded wrapping subtraction")
            else:
                col.bad("C16.R1", key, body.where(bb),
                        "the repeat counter is decremented with %s() on a path that does not establish counter >= amount: at 0 it wraps to "
                        "u64::MAX and a source that was done repeats (practically) forever" % nm, {})


def _short(e):
    p = peel(e, through_try=False)
    if p.k == "field":
        return str(p.name if p.name is not None else p.idx)
    return p.k


def repeat_blocks(facts):
    """ADTs that own a Repeat field, with the field name."""
    out = {}
    for path, a in facts.adts.items():
        if a["kind"] != "struct":
            continue
        for f in a["variants"][0]["fields"]:
            if f["ty"]["s"] == REPEAT_ADT:
                out[path] = f["name"]
    return out


def rule_r2(facts, col):
    """done() is tested before any data is emitted"""
    rb = repeat_blocks(facts)
    for body in facts.impl_bodies(BLOCK_TRAIT, "work"):
        if body.self_adt not in rb:
            continue
        key = body.q
        eff = effects.Effects(facts, body)
        produces = [pt for pt, d in eff.stream_points.items() if not isinstance(pt, tuple) and ("produce" in d or "push" in d)]
        dones = []
        for bb, t in body.calls_to(DONE):
            for s, tr, fa in _result_switches(body, bb):
                dones.append((bb, s, tr, fa))
        if not produces:
            col.silent("C16.R2", key, body.where(), "no produce")
            continue
        if not dones:
            col.bad("C16.R2", key, body.where(produces[0]),
                    "this finite source never asks Repeat::done() before emitting: with repeat(0) it emits its data once "
                    "(sibling VectorSource tests done() first)", {})
            continue
        probs = []
        for p in produces:
            if not any(must_pass_edge(body, p, (s, fa)) for _, s, tr, fa in dones):
                probs.append("produce at %s is reachable without passing the 'not done' edge of Repeat::done()" % body.where(p))
        for _, s, tr, fa in dones:
            r = body.reachable(tr)
            if set(produces) & r:
                probs.append("data can be produced after Repeat::done() returned true")
        if probs:
            col.bad("C16.R2", key, body.where(produces[0]), "; ".join(sorted(set(probs))), {})
        else:
            col.ok("C16.R2", key, body.where(dones[0][0]), "every produce lies behind done()==false; done()==true never produces")


def _result_switches(body, call_bb):
    from ..runners import result_switches
    return result_switches(body, call_bb)


def rule_r3(facts, col):
    """per-repetition marker tags are created only at repetition start"""
    rb = repeat_blocks(facts)
    cg = CallGraph(facts)
    for work in facts.impl_bodies(BLOCK_TRAIT, "work"):
        if work.self_adt not in rb:
            continue
        # work() and the block's own helper methods it (transitively) calls
        reach = cg.reachable_bodies([work.q])
        scope = [b for b in facts.bodies if b.q in reach and (b is work or (b.self_adt == work.self_adt and b.kind != "closure"))]
        # progress field: a self field assigned const 0 somewhere in the block's code (reset at repetition end)
        resets = set()
        for body in scope:
            for bb, blk in enumerate(body.blocks):
                for s in blk["stmts"]:
                    if s["k"] == "assign" and s["dst"]["p"] and s["dst"]["p"][0] == "*" and s["dst"]["l"] == 1:
                        e = body.rvalue_expr(s["rv"])
                        if is_const(peel(e, through_try=False), 0) and isinstance(s["dst"]["p"][-1], dict):
                            resets.add(s["dst"]["p"][-1].get("n"))
        # tags may be built by local closures (`let start = || Tag::new(..)`): judged where the closure is called
        from .. import inline, effects
        views = []
        for body in scope:
            nb, inl = inline.inline_body(facts, body, lambda hb: hb.kind == "closure", closures=True)
            if inl:
                effects._FACTS_FOR_VERDICTS[id(nb)] = facts
            views.append((body, nb))
        for body0, body in views:
            for bb, t in body.calls_to(TAG_NEW):
                keyname = peel(body.operand_expr(t["args"][1]))
                kn = (keyname.name or "?") if keyname.k == "const" else "?"
                key = "%s:tag(%s)" % (work.q, kn.strip('"').replace("const ", ""))
                ok = False
                for fact in (facts_at_with_callers(facts, body0, bb) if body is body0 else
                             facts_at(body, bb) + _caller_facts(facts, body0)):
                    if fact[0] in ("Eq",) and _const_is(fact[2], 0):
                        fp = self_field_path(fact[1])
                        if fp and fp[-1] in resets:
                            ok = True
                    if fact[0] in ("Eq",) and _const_is(fact[1], 0):
                        fp = self_field_path(fact[2])
                        if fp and fp[-1] in resets:
                            ok = True
                    if fact[0] == "IntEq" and fact[2] == 0:
                        fp = self_field_path(fact[1])
                        if fp and fp[-1] in resets:
                            ok = True
                if ok:
                    col.ok("C16.R3", key, body.where(bb), "marker tag only created at repetition start (progress field == 0)")
                else:
                    col.bad("C16.R3", key, body.where(bb),
                            "a per-repetition marker tag is created on a path that is not restricted to the start of a "
                            "repetition (progress field == 0): when a repetition is emitted in several pieces the marker is "
                            "repeated on every piece", {})


def _caller_facts(facts, body0):
    """facts established at every call site of the helper body0 (for its inlined-closure view, whose blocks are not body0's)"""
    try:
        ret = facts_at_with_callers(facts, body0, 0)
    except Exception:
        ret = []
    return list(ret)


def _const_is(e, v):
    p = peel(e, through_try=False)
    return p.k == "const" and p.v == v and not isinstance(p.v, bool)


def rule_r4(facts, col):
    """Infinite never reports done; again() is true for Infinite"""
    variants = enum_variants(facts, "Repeater")
    for name, want in (("done", False), ("again", True)):
        for body0 in facts.bodies:
            if body0.self_adt != REPEAT_ADT or body0.name != name:
                continue
            key = "%s:Infinite" % body0.q
            body = body0
            # the decision may live in a method of the Repeater enum itself that done()/again() return the result of
            has_sw = any(body.term(s_)["k"] == "switch" and switch_discr_expr(body, s_).k == "discr" for s_ in body.reachable(0))
            if not has_sw:
                for bb, t in body0.calls():
                    for q in Body.callee_qs(t):
                        for hb in facts.by_q.get(q, []):
                            if hb.self_adt == "Repeater" and hb.kind != "closure":
                                rets = [peel(e) for _, _, e in assigns_to_return(body0)]
                                if rets and all(r.k == "call" and r.bb == bb for r in rets):
                                    body = hb
            found = False
            for s in sorted(body.reachable(0)):
                t = body.term(s)
                if t["k"] != "switch":
                    continue
                e = switch_discr_expr(body, s)
                if e.k != "discr" or not variants:
                    continue
                tgt = variant_target(body, s, variants.index("Infinite"), len(variants)) if "Infinite" in variants else None
                if tgt is None:
                    continue
                found = True
                r = body.reachable(tgt)
                allv = [peel(x, through_try=False) for b2, si, x in assigns_to_return(body) if b2 in r]
                vals = [peel(x, through_try=False) for b2, si, x in assigns_to_return(body) if b2 in r and not _also_other(body, s, tgt, b2)]
                if (allv and all(is_const(v, want) for v in allv)) or (vals and all(is_const(v, want) for v in vals)):
                    col.ok("C16.R4", key, body.where(s), "Infinite arm returns constant %s" % want)
                else:
                    col.bad("C16.R4", key, body.where(s), "Repeat::%s() does not return constant %s for an infinite repeat" % (name, want), {})
            if not found:
                col.silent("C16.R4", key, body.where(), "no match on the repeater kind")


def _also_other(body, s, tgt, b2):
    """is block b2 also reachable from another arm of switch s (join block)?"""
    for t2, v in switch_edges(body, s):
        if t2 != tgt and body.term(t2)["k"] != "unreachable" and b2 in body.reachable(t2):
            return True
    return False


READ = "std::io::Read::read"
FROM_ELEM = "std::vec::from_elem"


def _samples_bounded(e, depth=0):
    """e (a count of samples) is <= len(output window)"""
    from .c09 import len_of_window
    if depth > 10:
        return False
    p = peel(e, through_try=False)
    w = len_of_window(p)
    if w and w[1] == "W":
        return True
    if p.k == "call" and (p.q in MIN_CALLS or p.rq in MIN_CALLS):
        return any(_samples_bounded(x, depth + 1) for x in p.args)
    if p.k == "bin" and p.op in ("Sub", "Div", "Shr"):
        return _samples_bounded(p.a, depth + 1)
    if p.k == "call" and (p.q or "").split("::")[-1] in ("saturating_sub", "checked_sub", "wrapping_sub") and p.args:
        return False if (p.q or "").endswith("wrapping_sub") else _samples_bounded(p.args[0], depth + 1)
    return False


def _bytes_bounded(e, depth=0):
    """e (a count of bytes) is <= len(output window) * sample size"""
    if depth > 10:
        return False
    p = peel(e, through_try=False)
    if _samples_bounded(p, depth + 1):       # bytes <= samples-in-window (sample size >= 1)
        return True
    if p.k == "call" and (p.q in MIN_CALLS or p.rq in MIN_CALLS):
        return any(_bytes_bounded(x, depth + 1) for x in p.args)
    if p.k == "bin" and p.op == "Mul":
        return _samples_bounded(p.a, depth + 1) or _samples_bounded(p.b, depth + 1)
    if p.k == "bin" and p.op in ("Sub", "Div"):
        return _bytes_bounded(p.a, depth + 1)
    return False


def rule_r5(facts, col):
    """a source never pulls more bytes from its file/socket in one call than its output window can take: what does
    not fit stays in the carry buffer where the EOF / repeat decision (taken on the file position alone) cannot see it"""
    for body in facts.impl_bodies(BLOCK_TRAIT, "work"):
        for bb, t in body.calls_to(READ):
            if len(t["args"]) < 2 or t.get("sp", {}).get("x"):
                continue
            buf = body.operand_expr(t["args"][1])
            sizes = [x for x in walk(buf) if x.k == "call" and x.q == FROM_ELEM and len(x.args) >= 2]
            key = "%s:read" % body.q
            if not sizes:
                col.silent("C16.R5", key, body.where(bb), "read target is not a vec![0; n] staging buffer")
                continue
            n = sizes[0].args[1]
            if _bytes_bounded(n):
                col.ok("C16.R5", key, body.where(bb), "staging buffer size %s <= output window" % show(peel(n, through_try=False))[:60])
            else:
                col.bad("C16.R5", key, body.where(bb),
                        "work() reads up to %s bytes, which is not bounded by the output window: the samples that do not fit stay in "
                        "the block's carry buffer while `bytes left`/the file position already say 'all read', so the EOF (or "
                        "rewind-for-repeat) decision is taken with samples still unemitted" % show(peel(n, through_try=False))[:80], {})


def _end_of_data_fact(body, bb):
    """a dominating `X == 0` edge where X is the result of Read::read or a counter field of self"""
    from ..mir import self_field_path
    for f in facts_at(body, bb):
        xs = []
        if f[0] == "IntEq" and f[2] == 0:
            xs = [f[1]]
        elif f[0] == "Eq":
            if _const_is(f[2], 0):
                xs = [f[1]]
            elif _const_is(f[1], 0):
                xs = [f[2]]
        for x in xs:
            p = peel(x)
            if p.k == "call" and p.q == READ:
                return "read() returned 0"
            fp = self_field_path(peel(x, through_try=False))
            if fp:
                return "self.%s == 0" % ".".join(fp)
    return None


def _then_condition(body, bb):
    """for `cond.then(|| ..)` / `cond.then_some(..)` at bb: the fact `cond` (the closure runs only when it is true)"""
    t = body.term(bb)
    if t["k"] != "call" or t["f"].get("name") not in ("then", "then_some") or not (t["f"].get("q") or "").startswith("bool::") or not t["args"]:
        return []
    c = peel(body.operand_expr(t["args"][0]), through_try=False)
    if c.k == "bin" and c.op in ("Eq", "Ne", "Lt", "Le", "Gt", "Ge"):
        return [(c.op, c.a, c.b)]
    return []


def _all_emitted_fact(body, bb):
    """a dominating `self.P == self.D.len()` (or >=) edge: the position field has reached the end of the data held in self"""
    from ..mir import self_field_path
    for f in list(facts_at(body, bb)) + _then_condition(body, bb):
        if f[0] not in ("Eq", "Ge", "Le"):
            continue
        for pos, ln in ((f[1], f[2]), (f[2], f[1])):
            if f[0] == "Ge" and pos is not f[1]:
                continue
            if f[0] == "Le" and pos is not f[2]:
                continue
            pl = peel(ln, through_try=False)
            fp = self_field_path(peel(pos, through_try=False))
            if fp and pl.k == "call" and (pl.q or "").split("::")[-1] == "len" and pl.args and self_field_path(pl.args[0]):
                return "self.%s == self.%s.len()" % (".".join(fp), ".".join(self_field_path(pl.args[0])))
    return None


def reads_from_io(facts, body):
    """does work() get its data through io::Read::read - itself, in a method of its block, or in a crate function up to three
    calls away (`self.refill()` -> `read_data(&mut self.file, ..)`)"""
    if any(list(b.calls_to(READ)) for b in [body] + adt_helpers(facts, body)):
        return True
    from ..effects import _cg
    return body.q in _cg(facts)[0].transitive({READ}, depth=3)


def rule_r6(facts, col):
    """a file-backed source decides 'end of this repetition' only on read() == 0 or on its byte counter reaching 0 -
    never on a short read (a BufReader/pipe/socket returns short reads in the middle of the data)"""
    rb = repeat_blocks(facts)
    for body in facts.impl_bodies(BLOCK_TRAIT, "work"):
        if body.self_adt not in rb:
            continue
        in_memory = not reads_from_io(facts, body)
        # again() sites: in work() itself, or in a helper of the same ADT (then judged at each of its call sites)
        sites = []
        for bb, t in body.calls_to(AGAIN):
            sites.append((body, bb, None))
        # ... or in a closure built here and handed to a call (`done.then(|| self.repeat.again())`): judged at that call
        for bb, t in body.calls():
            for a in t["args"]:
                e = peel(body.operand_expr(a), through_try=False)
                if e is not None and e.k == "agg" and e.ak == "closure" and e.q:
                    cb = facts.by_path.get(e.q)
                    if cb is not None and list(cb.calls_to(AGAIN)):
                        sites.append((body, bb, cb.q))
        for bb, t in body.calls():
            for q in Body.callee_qs(t):
                for hb in facts.by_q.get(q, []):
                    if hb.self_adt == body.self_adt and hb is not body and hb.kind != "closure" and list(hb.calls_to(AGAIN)):
                        sites.append((body, bb, hb.q))
        for b2, bb, via in sites:
            key = "%s:again()%s@%s" % (body.q, (" via " + via.split("::")[-1]) if via else "", _short_guard(b2, bb))
            why = _all_emitted_fact(b2, bb) if in_memory else _end_of_data_fact(b2, bb)
            if not why and in_memory:
                col.bad("C16.R6", key, b2.where(bb),
                        "the source counts a repetition as finished (Repeat::again()%s) on a path that is not behind `position == "
                        "data.len()`: a repetition is counted (and the position reset) with data still unemitted, or never counted "
                        "when the data ends" % ((" through " + via) if via else ""), {})
                continue
            if why:
                col.ok("C16.R6", key, b2.where(bb), "end of repetition decided on: %s" % why)
            else:
                col.bad("C16.R6", key, b2.where(bb),
                        "the source counts a repetition as finished (Repeat::again()%s) on a path that is not behind `read() == 0` or "
                        "`bytes-left == 0`: a short read in the middle of the file (BufReader refill, pipe) ends or rewinds the "
                        "repetition early and the rest of the data is never emitted" % ((" through " + via) if via else ""), {})


def _short_guard(body, bb):
    best = None
    for edge, f in facts_at_e(body, bb):
        if best is None or body.dominates(best[0][0], edge[0]):
            best = (edge, f)
    if not best:
        return "entry"
    f = best[1]
    return "%s" % f[0]


SEEK = "std::io::Seek::seek"
REWIND = "std::io::Seek::rewind"


def _seek_target(body, t):
    """expression x of seek(SeekFrom::Start(x)); const 0 for rewind(); None for relative seeks"""
    if (t["f"].get("q") or "") == REWIND or t["f"].get("name") == "rewind":
        return E("const", v=0, ty="u64")
    if len(t["args"]) < 2:
        return None
    e = peel(body.operand_expr(t["args"][1]), through_try=False)
    if e.k == "agg" and e.adt == "std::io::SeekFrom" and e.variant == "Start" and e.args:
        return e.args[0]
    return None


def _root_local_of(body, op):
    """local a `&mut file` argument refers to"""
    p = op.get("c") or op.get("m")
    if p is None or p["p"]:
        return None
    l = p["l"]
    for _ in range(6):
        ds = body.defs().get(l, [])
        if len(ds) == 1 and ds[0][2] == "rv" and ds[0][3]["k"] in ("ref", "rawptr") and not ds[0][3]["p"]["p"]:
            l = ds[0][3]["p"]["l"]      # ... and on through plain moves of the referenced local (`_11 = move _19`)
            continue
        if len(ds) == 1 and ds[0][2] == "rv" and ds[0][3]["k"] == "use":
            q = ds[0][3]["a"].get("c") or ds[0][3]["a"].get("m")
            if q is None or q["p"]:
                return l
            l = q["l"]
            continue
        return l
    return l


def rule_r7(facts, col, rule_id="C16.R7"):
    """restarting a repetition seeks to where the data starts - the position every constructor left the file at (sibling
    agreement between the constructors' initial positioning and work()'s rewind, through the stored fields)"""
    from ..mir import self_field_path
    rb = repeat_blocks(facts)
    for body in facts.impl_bodies(BLOCK_TRAIT, "work"):
        adt = body.self_adt
        if adt not in rb:
            continue
        wbody = body
        seek_sites = []
        helpers = [wbody]
        for hb_bb, ht in wbody.calls():
            for q in Body.callee_qs(ht):
                for hb in facts.by_q.get(q, []):
                    if hb.self_adt == adt and hb.kind != "closure" and hb is not wbody and hb not in helpers:
                        helpers.append(hb)
        for hb in helpers:
            for sbb, stt in hb.calls():
                if stt["f"].get("name") in ("seek", "rewind") and "Seek" in (stt["f"].get("q") or ""):
                    seek_sites.append((hb, sbb, stt))
        for body, bb, t in seek_sites:
            ffp = self_field_path(body.operand_expr(t["args"][0]))
            tw = _seek_target(body, t)
            if not ffp or tw is None:
                continue
            ffield = ffp[0]
            key = "%s:rewind(self.%s)" % (wbody.q, ffield)
            a = facts.adts.get(adt)
            fields = [f["name"] for f in a["variants"][0]["fields"]]
            probs = []
            ncons = 0
            for cb in facts.bodies:
                if cb.self_adt != adt or cb.kind == "closure" or cb in helpers:
                    continue
                for b2 in sorted(cb.reachable(0)):
                    for st in cb.blocks[b2]["stmts"]:
                        if st["k"] != "assign" or st["rv"]["k"] != "agg" or st["rv"].get("adt") != adt:
                            continue
                        ops = dict(zip(st["rv"].get("fields") or fields, st["rv"]["ops"]))
                        if ffield not in ops:
                            continue
                        ncons += 1
                        fl = _root_local_of(cb, ops[ffield])
                        twp = peel(tw, through_try=False)
                        fp = self_field_path(twp)
                        if twp.k == "const":
                            val0 = twp
                        elif fp and fp[0] in ops:
                            val0 = cb.operand_expr(ops[fp[0]])
                            for comp in fp[1:]:
                                pv = peel(val0, through_try=False)
                                if pv.k == "agg" and pv.args and comp.isdigit() and int(comp) < len(pv.args):
                                    val0 = pv.args[int(comp)]
                                elif pv.k == "agg" and pv.args and pv.adt in facts.adts and \
                                        comp in [f_["name"] for f_ in facts.adts[pv.adt]["variants"][0]["fields"]]:
                                    # a small struct instead of a tuple: `DataRange { start, len }`
                                    names_ = [f_["name"] for f_ in facts.adts[pv.adt]["variants"][0]["fields"]]
                                    val0 = pv.args[names_.index(comp)] if names_.index(comp) < len(pv.args) else E("unknown")
                                else:
                                    val0 = E("field", a=pv, name=comp, idx=int(comp) if comp.isdigit() else None)
                        else:
                            continue
                        # contexts: the constructor itself, or - when the file is handed in as a parameter (a shared
                        # `from_parts(file, ..)` helper) - each of its call sites
                        contexts = []
                        own_seeks = [(sb, stt) for sb, stt in cb.calls() if stt["f"].get("name") in ("seek", "rewind")
                                     and "Seek" in (stt["f"].get("q") or "") and _root_local_of(cb, stt["args"][0]) == fl]
                        if fl is not None and 1 <= fl <= cb.argc and not own_seeks:
                            sites = call_sites_of(facts, cb) or []
                            for ccb, cbb, actual in sites:
                                raw = None
                                for cb2, t2 in ccb.calls():
                                    if cb2 == cbb:
                                        raw = t2["args"][fl - 1]
                                contexts.append((ccb, cbb, _root_local_of(ccb, raw) if raw else None, subst_params(peel(val0, through_try=False), actual)))
                            if not sites:
                                continue
                        else:
                            contexts.append((cb, b2, fl, val0))
                        for xb, xbb, xfl, val in contexts:
                            init = None
                            for sb, stt in xb.calls():
                                if stt["f"].get("name") in ("seek", "rewind") and "Seek" in (stt["f"].get("q") or "") and xb.dominates(sb, xbb) \
                                        and _root_local_of(xb, stt["args"][0]) == xfl:
                                    if init is None or xb.dominates(init[0], sb):
                                        init = (sb, stt)
                            pc = _seek_target(xb, init[1]) if init else E("const", v=0, ty="u64")
                            if pc is None:
                                continue     # relative seek: not judged
                            pv, pp = peel(val, through_try=False), peel(pc, through_try=False)
                            if pv.k == "field" and pv.a is not None and peel(pv.a, through_try=False).k == "agg" and pv.idx is not None:
                                inner = peel(pv.a, through_try=False)
                                if inner.args and pv.idx < len(inner.args):
                                    pv = peel(inner.args[pv.idx], through_try=False)
                            same = (pv.k == "const" and pp.k == "const" and pv.v == pp.v) or same_expr(pv, pp) or show(pv) == show(pp)
                            if not same:
                                probs.append("%s leaves the file at %s but work() rewinds to %s (= %s there)" % (
                                    xb.name, show(pp)[:40], show(twp)[:40], show(pv)[:40]))
            if probs:
                col.bad(rule_id, key, body.where(bb),
                        "the position a new repetition starts reading from differs from where a constructor positioned the data: %s - "
                        "every repetition after the first emits the bytes in front of the data (container headers, metadata) instead "
                        "of the samples" % "; ".join(sorted(set(probs))), {})
            elif ncons:
                col.ok(rule_id, key, body.where(bb), "rewind target agrees with the initial positioning in %d constructor(s)" % ncons)


def rule_r8(facts, col):
    """end-of-data is REPORTED: Repeat::done()==true, Repeat::again()==false and (for byte sources) read()==0 without a
    further repetition lead to the verdict EOF (or an error) and to nothing else"""
    rb = repeat_blocks(facts)
    works = list(facts.impl_bodies(BLOCK_TRAIT, "work"))
    # methods of the same types that consult Repeat themselves (e.g. an extracted `end_of_file()`): judged like work(), and
    # a call to one of them from work() counts as 'the repetition decision is taken there'
    deleg = {}
    for b in facts.bodies:
        if b.kind != "closure" and b.self_adt in rb and b.name != "work" and (list(b.calls_to(AGAIN)) or list(b.calls_to(DONE))) \
                and "BlockRet" in (b.locals[0]["ty"] if b.locals else "") \
                and any(v != "?" for _, v, _ in effects.verdict_defs(b)):
            deleg[b.q] = b
    for body in works + list(deleg.values()):
        has_read = bool(list(body.calls_to(READ)))
        if body.self_adt not in rb and not has_read:
            continue
        deleg_blocks = {bb for bb, t in body.calls() if any(q in deleg for q in Body.callee_qs(t))}
        vd = [x for x in effects.verdict_defs(body) if x[0] not in deleg_blocks]
        by_bb = {}
        for vb, verdict, e in vd:
            by_bb.setdefault(vb, set()).add(verdict)

        def verdicts_from(start, cut=()):
            r = body.reachable(start, avoid=deleg_blocks - {start}, edge_filter=lambda a_, b_: (a_, b_) not in cut)
            if getattr(body, "inlined", None):
                # on a view the decision may travel as a value (`if self.end_of_pass()? { Again } else { EOF }`): follow it
                try:
                    r2, _ = flag_search(body, [start], avoid=set(deleg_blocks - {start}), cut_edges=set(cut))
                    if r2 is not None:
                        r = set(r) & set(r2)
                except Exception:
                    pass
            out = set()
            for b in r:
                out |= by_bb.get(b, set())
            return out
        again_true_edges = set()
        for bb, t in body.calls_to(AGAIN):
            for s_, tr, fa in _result_switches(body, bb):
                again_true_edges.add((s_, tr))
        for what, q, outcome in (("done()==true", DONE, True), ("again()==false", AGAIN, False)):
            for bb, t in body.calls_to(q):
                for s_, tr, fa in _result_switches(body, bb):
                    start = tr if outcome else fa
                    got = verdicts_from(start)
                    key = "%s:%s" % (body.q, what)
                    extra = got - {"EOF", "Err"}
                    if extra:
                        col.bad("C16.R8", key, body.where(bb),
                                "after %s work() can return %s instead of EOF: the source never announces its end (downstream waits "
                                "forever) or keeps being polled" % (what, sorted(extra)), {})
                    elif got:
                        col.ok("C16.R8", key, body.where(bb), "%s leads to EOF" % what)
        if has_read:
            for edge, f in edge_facts(body):
                isz = False
                if f[0] == "IntEq" and f[2] == 0:
                    x = f[1]
                    isz = True
                elif f[0] == "Eq" and (_const_is(f[2], 0) or _const_is(f[1], 0)):
                    x = f[1] if _const_is(f[2], 0) else f[2]
                    isz = True
                if not isz:
                    continue
                px = peel(x)
                if not (px.k == "call" and px.q == READ):
                    continue
                got = verdicts_from(edge[1], cut=again_true_edges)
                key = "%s:read()==0" % body.q
                extra = got - {"EOF", "Err"}
                if extra:
                    col.bad("C16.R8", key, body.where(edge[0]),
                            "read() returned 0 (end of file / peer closed) and no further repetition was granted, yet work() can return "
                            "%s instead of EOF: the source spins on the exhausted descriptor and its consumers never finish" % sorted(extra), {})
                elif got:
                    col.ok("C16.R8", key, body.where(edge[0]), "read()==0 without another repetition leads to EOF")


def rule_r9(facts, col, rule_id="C16.R9", scope=None):
    """end-of-data is a statement about the source, never about the reader: an EOF verdict of a work() body is not reached through
    a zero / shortness test of a quantity computed from the *output* window's length unless that window is established non-empty
    on the path (with a full output `min(room, left) == 0` says nothing about `left`)"""
    from . import c09
    from .. import effects
    for body in facts.impl_bodies(BLOCK_TRAIT, "work"):
        if body.from_derive or (scope is not None and not scope(body)):
            continue
        k = 0
        for bb, verdict, e in effects.verdict_defs(body):
            if verdict != "EOF":
                continue
            key = "%s:EOF#%d" % (body.q, k)
            k += 1
            lb = c09.window_lower_bounds(body, bb, facts)
            bad = None
            for f in facts_at(body, bb):
                rel = f[0]
                xs = []
                if rel in ("IntEq",) and f[2] == 0:
                    xs = [f[1]]
                elif rel in ("Eq", "Lt", "Le", "Gt", "Ge"):
                    xs = [f[1], f[2]]
                elif rel in ("Bool", "BoolVal") and f[2] is True and f[1] is not None and (getattr(f[1], "q", None) or "").split("::")[-1] == "is_empty":
                    xs = [f[1]]
                for x in xs:
                    if x is None:
                        continue
                    for y in walk(x):
                        w = c09.len_of_window(y)
                        if w and w[1] == "W" and lb.get(w[0], 0) < 1:
                            bad = (w[0], f)
            if bad:
                col.bad(rule_id, key, body.where(bb),
                        "EOF is returned behind a test of a quantity computed from the length of the output window of self.%s, which is "
                        "not established non-empty on this path: with the output full the test succeeds whatever the source still "
                        "holds, and the stream is declared finished with data unread" % bad[0], {})
            else:
                col.ok(rule_id, key, body.where(bb), "no dependence on a possibly-empty output window")



POSITIVE_CALLS = ("Sample::size",)     # size in bytes of a sample type: every impl returns size_of of a non-zero-sized number type


def _established_positive(body, bb, x, lbs, depth=0):
    """x >= 1 at bb: by a guard (known_ge), as len() of a window established non-empty, as a product of positives, as a
    difference a - b under the guard b < a, or as the byte size of a sample type"""
    from . import c09
    if depth > 4:
        return False
    one = E("const", v=1, ty="usize")
    if known_ge(body, bb, x, one):
        return True
    p = peel(x, through_try=False)
    w = c09.len_of_window(p)
    if w and lbs.get(w[0], 0) >= 1:
        return True
    if p.k == "call" and ((p.q or "").endswith(POSITIVE_CALLS) or (p.rq or "").endswith(POSITIVE_CALLS)):
        return True
    if p.k == "bin" and p.op == "Mul":
        return _established_positive(body, bb, p.a, lbs, depth + 1) and _established_positive(body, bb, p.b, lbs, depth + 1)
    if p.k == "bin" and p.op == "Sub":
        for f in facts_at(body, bb):
            if f[0] in ("Lt", "Gt"):
                small, big = (f[1], f[2]) if f[0] == "Lt" else (f[2], f[1])
                if same_expr(peel(small, through_try=False), peel(p.b, through_try=False)) and same_expr(peel(big, through_try=False), peel(p.a, through_try=False)):
                    return True
    if p.k == "call" and (p.q in MIN_CALLS or p.rq in MIN_CALLS):
        return all(_established_positive(body, bb, a, lbs, depth + 1) for a in p.args)
    return False


def rule_r11(facts, col, rule_id="C16.R11"):
    """read() == 0 means end of data only for a non-empty buffer: every io::Read::read() in a work() body is handed a buffer
    whose length is established >= 1 at the call (a `vec![0; n]` with n >= 1 by a guard on that path, or by construction from
    a window established non-empty).  With a zero-length buffer read() returns Ok(0) whatever the source still holds, and the
    code that follows takes that for end of file / connection closed."""
    from . import c09
    for body in facts.impl_bodies(BLOCK_TRAIT, "work"):
        k = 0
        for bb, t in body.calls_to(READ):
            if len(t["args"]) < 2 or t.get("sp", {}).get("x"):
                continue
            key = "%s:read#%d" % (body.q, k)
            k += 1
            buf = body.operand_expr(t["args"][1])
            lbs = c09.window_lower_bounds(body, bb, facts)
            sizes = [x for x in walk(buf) if x.k == "call" and x.q == FROM_ELEM and len(x.args) >= 2]
            sub = [x for x in walk(buf) if x.k == "agg" and (x.adt or "").startswith("std::ops::Range") and x.adt != "std::ops::RangeFull"]
            if sub or not sizes:
                wins = [c09.window_of(x) for x in walk(buf)]
                wins = [w for w in wins if w and w[1] == "W"]
                if wins and not sub:
                    if lbs.get(wins[0][0], 0) >= 1:
                        col.ok(rule_id, key, body.where(bb), "reads straight into a write window established non-empty")
                    else:
                        col.bad(rule_id, key, body.where(bb), "read() is handed the write window of self.%s, which is not established non-empty on "
                                "this path: with a full output read() returns 0 and that is taken for end of data" % wins[0][0], {})
                else:
                    col.silent(rule_id, key, body.where(bb), "read target is not a whole vec![0; n] staging buffer or write window")
                continue
            n = sizes[0].args[1]
            if _established_positive(body, bb, n, lbs):
                col.ok(rule_id, key, body.where(bb), "staging buffer length %s established >= 1" % show(peel(n, through_try=False))[:70])
            else:
                col.bad(rule_id, key, body.where(bb),
                        "read() is handed a staging buffer of %s bytes, which is not established >= 1 on this path: a zero-length read "
                        "returns Ok(0) whatever the source still holds, and the code that follows takes 0 for end of file (EOF "
                        "verdict, or a rewind that burns a repetition)" % show(peel(n, through_try=False))[:90], {})


def _project(facts, val0, comps):
    for comp in comps:
        pv = peel(val0, through_try=False)
        if pv.k == "agg" and pv.args and comp.isdigit() and int(comp) < len(pv.args):
            val0 = pv.args[int(comp)]
        elif pv.k == "agg" and pv.args and pv.adt in facts.adts and comp in [f_["name"] for f_ in facts.adts[pv.adt]["variants"][0]["fields"]]:
            names_ = [f_["name"] for f_ in facts.adts[pv.adt]["variants"][0]["fields"]]
            val0 = pv.args[names_.index(comp)] if names_.index(comp) < len(pv.args) else E("unknown")
        else:
            val0 = E("field", a=pv, name=comp, idx=int(comp) if comp.isdigit() else None)
    return val0


def rule_r12(facts, col, rule_id="C16.R12"):
    """a new repetition starts from the constructor's state: where work() (or a helper of the block), after Repeat::again(),
    re-initialises a field of self with a constant or with a value stored in another field (`self.left = self.range.1`,
    `self.pos = 0`), every constructor initialises that field with the same value (sibling agreement, through the stored
    fields).  Otherwise the first repetition and the later ones emit different amounts of data."""
    from ..mir import self_field_path
    rb = repeat_blocks(facts)
    n = 0
    for wbody in facts.impl_bodies(BLOCK_TRAIT, "work"):
        adt = wbody.self_adt
        if adt not in rb:
            continue
        a = facts.adts.get(adt)
        fields = [f["name"] for f in a["variants"][0]["fields"]]
        helpers = [wbody] + [hb for hb in adt_helpers(facts, wbody) if hb.kind != "closure"]
        for body in helpers:
            agains = [bb for bb, t in body.calls_to(AGAIN)]
            if not agains:
                continue
            for bb in sorted(body.reachable(0)):
                if not any(body.dominates(ab, bb) and ab != bb for ab in agains):
                    continue
                for st in body.blocks[bb]["stmts"]:
                    if st["k"] != "assign" or st["dst"]["l"] != 1:
                        continue
                    pj = st["dst"]["p"]
                    if len(pj) != 2 or pj[0] != "*" or not isinstance(pj[1], dict) or pj[1].get("n") not in fields:
                        continue
                    fld = pj[1]["n"]
                    rhs = peel(body.rvalue_expr(st["rv"]), through_try=False)
                    fp = self_field_path(rhs)
                    if rhs.k != "const" and not fp:
                        continue
                    key = "%s:restart(self.%s)" % (wbody.q, fld)
                    probs = []
                    ncons = 0
                    for cb in facts.bodies:
                        if cb.kind == "closure" or cb in helpers:
                            continue
                        for b2 in sorted(cb.reachable(0)):
                            for st2 in cb.blocks[b2]["stmts"]:
                                if st2["k"] != "assign" or st2["rv"]["k"] != "agg" or st2["rv"].get("adt") != adt:
                                    continue
                                ops = dict(zip(st2["rv"].get("fields") or fields, st2["rv"]["ops"]))
                                if fld not in ops:
                                    continue
                                got = peel(cb.operand_expr(ops[fld]), through_try=False)
                                if rhs.k == "const":
                                    want = rhs
                                elif fp[0] in ops:
                                    want = peel(_project(facts, cb.operand_expr(ops[fp[0]]), fp[1:]), through_try=False)
                                else:
                                    continue
                                ncons += 1
                                if want.k == "field" and want.a is not None and peel(want.a, through_try=False).k == "agg" and want.idx is not None:
                                    inner = peel(want.a, through_try=False)
                                    if inner.args and want.idx < len(inner.args):
                                        want = peel(inner.args[want.idx], through_try=False)
                                same = (got.k == "const" and want.k == "const" and got.v == want.v) or same_expr(got, want) or show(got) == show(want)
                                if not same:
                                    probs.append("%s initialises self.%s with %s, the restart sets it to %s (= %s there)" % (
                                        cb.name, fld, show(got)[:40], show(rhs)[:40], show(want)[:40]))
                    if probs:
                        col.bad(rule_id, key, "%s:%d" % (st["sp"]["f"], st["sp"]["l"]),
                                "the value a new repetition starts with differs from the constructor's: %s - the first pass over the data "
                                "and the later ones cover different ranges" % "; ".join(sorted(set(probs))), {})
                        n += 1
                    elif ncons:
                        col.ok(rule_id, key, "%s:%d" % (st["sp"]["f"], st["sp"]["l"]), "restart value agrees with %d constructor aggregate(s)" % ncons)
                        n += 1
    if n == 0:
        col.ok(rule_id, "no-restart-state", "src/lib.rs", "no source re-initialises a field from stored state after Repeat::again()")


def rule_r13(facts, col, rule_id="C16.R13"):
    """EOF is reported on the 'nothing left' side: where the nearest controlling test of an EOF verdict of a finite source is
    an end-of-data test (Repeat::done(), Repeat::again(), `x == 0` / `x != 0` on a count, is_empty() on the data), the
    verdict sits on the side of that test that says the data has ended (done() true, again() false, count == 0, empty) -
    not on the side that says there is more."""
    from . import c09
    rb = repeat_blocks(facts)
    for body in facts.impl_bodies(BLOCK_TRAIT, "work"):
        if body.self_adt not in rb:
            continue
        k = 0
        for bb, verdict, e in effects.verdict_defs(body):
            if verdict != "EOF":
                continue
            key = "%s:EOF#%d" % (body.q, k)
            k += 1
            f = c09.nearest_fact(body, bb)
            if f is None:
                col.silent(rule_id, key, body.where(bb), "unconditional EOF")
                continue
            rel = f[0]
            side = None
            if rel in ("Bool", "BoolVal") and f[1] is not None:
                nm = (getattr(f[1], "q", None) or "").split("::")[-1]
                rq = getattr(f[1], "q", None)
                if rq == DONE or nm == "done":
                    side = "end" if f[2] is True else "more"
                elif rq == AGAIN or nm == "again":
                    side = "end" if f[2] is False else "more"
                elif nm == "is_empty":
                    side = "end" if f[2] is True else "more"
            elif rel == "IntEq" and f[2] == 0:
                side = "end"
            elif rel == "IntNe" and f[2] == 0:
                side = "more"
            elif rel in ("Eq", "Ne"):
                zl, zr = peel(f[1], through_try=False), peel(f[2], through_try=False)
                if (zr.k == "const" and zr.v == 0) or (zl.k == "const" and zl.v == 0):
                    side = "end" if rel == "Eq" else "more"
            if side == "end":
                col.ok(rule_id, key, body.where(bb), "EOF on the end-of-data side of its controlling test (%s)" % rel)
            elif side == "more":
                col.bad(rule_id, key, body.where(bb),
                        "EOF is returned on the side of its controlling test that says there IS more (done() false / again() true / "
                        "count != 0 / not empty): the source reports the end of its data while data remains, and goes on when it has "
                        "ended", {})
            else:
                col.silent(rule_id, key, body.where(bb), "controlling test is not an end-of-data test")


def rule_r14(facts, col, rule_id="C16.R14"):
    """a counted repetition is started before work() returns: on every non-error path from `Repeat::again() == true` to a
    return, the source's position is reset (an assignment to a field of self, or a seek on its file).  If work() can return in
    between - e.g. to wait for output room - the end-of-data condition still holds on the next call and again() is asked a
    second time for the same boundary: every retry of the blocked call burns one repetition."""
    rb = repeat_blocks(facts)
    n = 0
    works = [b for b in facts.impl_bodies(BLOCK_TRAIT, "work") if b.self_adt in rb]
    # ... and methods of the block that ask again() themselves (`return self.end_of_pass()`): judged where the question is
    # asked; an alarm only when every caller hands the method's result straight back (nothing after it could still reset)
    wq = {b.q for b in works}
    delegs = [b for b in facts.bodies if b.kind != "closure" and b.self_adt in rb and b.q not in wq and b.name != "work"
              and not b.from_derive and list(b.calls_to(AGAIN))]
    for body in works + delegs:
        if body.self_adt not in rb:
            continue
        is_deleg = body.q not in wq
        rfield = rb[body.self_adt]
        resets = set()
        for bb in sorted(body.reachable(0)):
            for st in body.blocks[bb]["stmts"]:
                if st["k"] == "assign" and st["dst"]["l"] == 1 and st["dst"]["p"] and st["dst"]["p"][0] == "*":
                    pj = st["dst"]["p"]
                    if len(pj) >= 2 and isinstance(pj[1], dict) and pj[1].get("n") not in (None, rfield):
                        resets.add(bb)
            t = body.term(bb)
            if t["k"] == "call" and t["f"].get("name") in ("seek", "rewind") and "Seek" in (t["f"].get("q") or ""):
                resets.add(bb)
            if t["k"] == "call":
                # a helper of the block that does the reset (`self.rewind()?`)
                for q in Body.callee_qs(t):
                    for hb in facts.by_q.get(q, []):
                        if hb.self_adt == body.self_adt and hb.kind != "closure" and hb is not body:
                            if any(tt["f"].get("name") in ("seek", "rewind") for _, tt in hb.calls()) or \
                               any(st["k"] == "assign" and st["dst"]["l"] == 1 and st["dst"]["p"] and st["dst"]["p"][0] == "*"
                                   for blk in hb.blocks for st in blk["stmts"]):
                                resets.add(bb)
        okrets = {rb_ for rb_, si, e in assigns_to_return(body)
                  if not ((e.k == "agg" and e.variant == "Err") or (e.k == "call" and (e.q or "").endswith("from_residual")))}
        for abb, t in body.calls_to(AGAIN):
            key = "%s:again()->restart" % body.q
            n += 1
            # the true edge of the switch on again()'s result
            tr = None
            for s_ in sorted(body.reachable(0)):
                tt = body.term(s_)
                if tt["k"] != "switch" or tt.get("dty") != "bool":
                    continue
                e = peel(switch_discr_expr(body, s_), through_try=False)
                neg = False
                while e is not None and e.k == "un" and e.op == "Not":
                    neg = not neg
                    e = peel(e.a, through_try=False)
                if e is not None and e.k == "call" and e.bb == abb:
                    bt = bool_edge_targets(body, s_)
                    if bt:
                        tr = bt[1] if neg else bt[0]
            if tr is None:
                col.silent(rule_id, key, body.where(abb), "again()'s result is not branched on directly")
                continue
            lost = okrets & reach_avoiding(body, tr, resets - {tr}) if tr not in resets else set()
            if lost and is_deleg:
                tail = True
                for cb, cbb, ct in facts.callers_of(body.q):
                    rets = [peel(e, through_try=False) for _b, _i, e in assigns_to_return(cb)]
                    if not any(e is not None and e.k == "call" and e.bb == cbb for e in rets):
                        tail = False
                if not tail:
                    col.silent(rule_id, key, body.where(abb), "asked in a helper whose callers continue after it: not decided")
                    continue
            if lost:
                col.bad(rule_id, key, body.where(abb),
                        "after Repeat::again() has counted a repetition, work() can return (%s) without having reset the source's position "
                        "(no assignment to a field of self, no seek on that path): the end-of-data condition still holds on the next call, "
                        "again() is asked again for the same boundary, and every retry burns one repetition - fewer than `repeat` copies are "
                        "emitted" % body.where(sorted(lost)[0]), {})
            else:
                col.ok(rule_id, key, body.where(abb), "every non-error path from again()==true resets the position before returning")
    return n


# a body that raises an alarm as compiled is judged again on its work view (effects.view_fallback)
rule_r2 = effects.view_fallback(rule_r2)
rule_r5 = effects.view_fallback(rule_r5)
rule_r6 = effects.view_fallback(rule_r6)
rule_r7 = effects.view_fallback(rule_r7)
rule_r8 = effects.view_fallback(rule_r8)
rule_r9 = effects.view_fallback(rule_r9)
rule_r11 = effects.view_fallback(rule_r11)
rule_r13 = effects.view_fallback(rule_r13)

def run(ctx):
    facts = ctx.facts("default")
    ctx.anchor("C16", REPEAT_ADT in facts.adts, "struct Repeat")
    ctx.anchor("C16", len(repeat_blocks(facts)) >= 3, "three sources owning a Repeat (Vector/File/SigMF)")
    rule_r1(facts, ctx)
    rule_r2(facts, ctx)
    rule_r3(facts, ctx)
    rule_r4(facts, ctx)
    rule_r5(facts, ctx)
    rule_r6(facts, ctx)
    rule_r8(facts, ctx)
    ctx.floor("C16.R8", 6, "done()/again() outcomes of the three finite sources + read()==0 of File/Tcp sources")
    rb = repeat_blocks(facts)
    from . import c14, c19
    c14.rule_r13(facts, ctx, rule_id="C16.R15")      # zeros behind the bytes read are emitted as data, EOF only after them (seed s10-c16)
    ctx.floor("C16.R15", 1, "staging buffers stored into a carry buffer (same rule as C14.R13)")
    c14.rule_r4(facts, c19._Retag(ctx, "C14.R4", "C16.R10"))   # a fast path that overtakes buffered bytes emits the file's bytes out of order
    ctx.floor("C16.R10", 1, "FileSource fast path (same rule as C14.R4)")
    rule_r9(facts, ctx, scope=lambda b: b.self_adt in rb)
    ctx.floor("C16.R9", 5, "EOF verdicts of the three finite sources (8 today)")
    rule_r14(facts, ctx)
    ctx.floor("C16.R14", 2, "again() sites of the finite sources whose result is branched on (3 today)")
    rule_r13(facts, ctx)
    ctx.floor("C16.R13", 5, "EOF verdicts of the three finite sources behind an end-of-data test (8 today)")
    rule_r12(facts, ctx)
    ctx.floor("C16.R12", 1, "per-repetition state restored after again() (SigMFSource.left, VectorSource.pos today)")
    rule_r11(facts, ctx)
    ctx.floor("C16.R11", 2, "io::Read::read() sites with a staging buffer (FileSource, SigMFSource, TcpSource today)")
    rule_r7(facts, ctx)
    ctx.floor("C16.R7", 2, "rewinds of FileSource and SigMFSource")
    ctx.floor("C16.R6", 3, "again() in FileSource::work (read()==0), SigMFSource::work (left == 0) and VectorSource::work (pos == data.len())")
    ctx.floor("C16.R5", 2, "FileSource and SigMFSource read(2) staging buffers (TcpSource counted when present)")
    from .. import controls
    controls.expect(ctx, "C16.R2", rule_r2, "BadSource", "finite source that never asks done()")
    ctx.floor("C16.R1", 1, "Repeat::again arithmetic")
    ctx.floor("C16.R2", 3, "VectorSource, FileSource, SigMFSource work()")
    ctx.floor("C16.R3", 3, "the three marker tags of VectorSource")
    ctx.floor("C16.R4", 2, "done()/again() on Infinite")
    ctx.explain("C16 (structural part): checked subtractions in the Repeat impl are discharged by dominating guards; in "
                "every work() of a block owning a Repeat, each produce lies behind the false edge of Repeat::done() and "
                "nothing is produced after done()==true (sibling agreement); marker Tag::new calls are dominated by "
                "progress-field == 0; done()/again() are constant for Infinite. Emission counts for data larger than the "
                "buffer are values and not decided.")
