"""C12 — blocks carry tags forward exactly once, at the corresponding output sample (partial)."""
from ..common import *
from ..mir import peel, walk, show, same_expr
from . import c19, c02


from .. import effects
from . import c08

SET_POS = "stream::Tag::set_pos"


def _rewrites_by(facts, body, closure_path, c_expr):
    """does this closure call Tag::set_pos(t, t.pos() / c) with c the same self field as c_expr ?"""
    cb = facts.by_path.get(closure_path)
    if cb is None:
        return False
    from ..mir import self_field_path
    want = self_field_path(c_expr)
    env = None
    for bb, t in cb.calls_to(SET_POS):
        e = peel(cb.operand_expr(t["args"][1]), through_try=False)
        if e.k == "bin" and e.op == "Div":
            a = peel(e.a, through_try=False)
            d = peel(e.b, through_try=False)
            if a.k == "call" and a.q == "stream::Tag::pos":
                # the divisor is an upvar: find the captured operand in the parent
                if d.k == "field" and d.owner and d.owner.startswith("closure:"):
                    for blk in body.blocks:
                        for st in blk["stmts"]:
                            if st["k"] == "assign" and st["rv"]["k"] == "agg" and st["rv"].get("closure") == closure_path:
                                ops = st["rv"]["ops"]
                                if d.idx < len(ops):
                                    cap = self_field_path(body.operand_expr(ops[d.idx]))
                                    if cap and want and cap == want:
                                        return True
                c1, c2 = peel(d, through_try=False), peel(c_expr, through_try=False)
                if c1.k == "const" and c2.k == "const" and c1.v == c2.v:
                    return True
    return False


def rule_r3(facts, col):
    """rate changers re-base forwarded tag positions: where a hand-written work() commits produce(a / c, tags) for
    consume(a) with a non-empty tag list, the list has had every position divided by c (or c == 1 on that path)"""
    for body in facts.impl_bodies(BLOCK_TRAIT, "work"):
        if body.from_derive:
            continue
        cons = [(bb, t) for bb, t in body.calls_to(effects.CONSUME)]
        prods = [(bb, t) for bb, t in body.calls_to(effects.PRODUCE)]
        for cb, ct in cons:
            a = body.operand_expr(ct["args"][1])
            for pb, pt in prods:
                b = peel(body.operand_expr(pt["args"][1]), through_try=False)
                if not (b.k == "bin" and b.op == "Div" and same_expr(b.a, a)):
                    continue
                te = peel(body.operand_expr(pt["args"][2]))
                if te.k in ("const",) or (te.k == "agg" and te.ak == "array" and not te.args) or (te.k == "cast" and peel(te.a).k == "agg"):
                    continue   # no tags forwarded
                key = "%s:produce(a/c, tags)" % body.q
                c = b.b
                # c == 1 on this path?
                one = False
                for f in facts_at(body, pb):
                    if f[0] == "Eq" and ((same_expr(f[1], c) and c08._is_const(f[2], 1)) or (same_expr(f[2], c) and c08._is_const(f[1], 1))):
                        one = True
                    if f[0] == "IntEq" and f[2] == 1 and same_expr(f[1], c):
                        one = True
                if one:
                    col.ok("C12.R3", key + "@c==1", body.where(pb), "ratio is 1 on this path: positions unchanged")
                    continue
                # a dominating for_each/map over the same list whose closure divides positions by c
                ok = False
                for fb, ft in body.calls():
                    nm = ft["f"].get("name")
                    if nm not in ("for_each", "map", "retain_mut") or not body.dominates(fb, pb):
                        continue
                    for x in walk(body.operand_expr(ft["args"][-1])):
                        if x.k == "agg" and x.ak == "closure" and _rewrites_by(facts, body, x.q, c):
                            ok = True
                if ok:
                    col.ok("C12.R3", key, body.where(pb), "forwarded tags re-based by pos / c before the commit")
                else:
                    col.bad("C12.R3", key, body.where(pb),
                            "work() forwards its input tag list to produce(a / c, ..) without dividing the tag positions by the same "
                            "ratio c: tags land c times too far into the output (or are dropped as beyond the commit)", {})


def run(ctx):
    facts = ctx.facts("default")
    fam = ctx.facts("family")
    c02.rule_r2(facts, ctx, rule_id="C12.R1")
    c02.rule_r4(facts, ctx, rule_id="C12.R1b")
    c19.rule_work(fam, ctx, only={"C12.R2"})
    c19.rule_work(facts, ctx, only={"C12.R2"})
    rule_r3(facts, ctx)
    ctx.floor("C12.R3", 2, "FirFilter: deci == 1 path and decimating path")
    ctx.floor("C12.R1", 1, "tag insertion in the commit body")
    ctx.floor("C12.R2", 54 * 3, "3 tag-path obligations x (36 family + 18 in-crate sync blocks)")
    ctx.explain("C12 (partial): (R1) the stream stores only tags with pos < n, so every pass-through block that hands its read-window "
                "tag list to produce(n, ..) forwards the consumed prefix once and sees the rest again with its next window; consuming "
                "zero samples removes no tags (R1b). (R2) on the generated sync path (every in-crate user + generated family): input tags "
                "are selected by t.pos() == loop index, every re-emitted tag is created at that same index, and every produce() receives "
                "the collected tags. The index mapping of hand-written blocks (FFT filter, delay arithmetic, FIR decimation) is NOT decided.")
