"""C12 — blocks carry tags forward exactly once, at the corresponding output sample (partial)."""
from ..common import *
from ..mir import peel, walk, show, same_expr
from . import c19, c02


def run(ctx):
    facts = ctx.facts("default")
    fam = ctx.facts("family")
    c02.rule_r2(facts, ctx, rule_id="C12.R1")
    c02.rule_r4(facts, ctx, rule_id="C12.R1b")
    c19.rule_work(fam, ctx, only={"C12.R2"})
    c19.rule_work(facts, ctx, only={"C12.R2"})
    ctx.floor("C12.R1", 1, "tag insertion in the commit body")
    ctx.floor("C12.R2", 54 * 3, "3 tag-path obligations x (36 family + 18 in-crate sync blocks)")
    ctx.explain("C12 (partial): (R1) the stream stores only tags with pos < n, so every pass-through block that hands its read-window "
                "tag list to produce(n, ..) forwards the consumed prefix once and sees the rest again with its next window; consuming "
                "zero samples removes no tags (R1b). (R2) on the generated sync path (every in-crate user + generated family): input tags "
                "are selected by t.pos() == loop index, every re-emitted tag is created at that same index, and every produce() receives "
                "the collected tags. The index mapping of hand-written blocks (FFT filter, delay arithmetic, FIR decimation) is NOT decided.")
