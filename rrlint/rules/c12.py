"""C12 — blocks carry tags forward exactly once, at the corresponding output sample (partial)."""
from ..common import *
from ..mir import peel, walk, show, same_expr
from . import c19, c02


from .. import effects
from . import c08

SET_POS = "stream::Tag::set_pos"


def _rewrites_by(facts, body, closure_path, c_expr):
    """does this closure call Tag::set_pos(t, t.pos() / c) with c the same self field as c_expr ?"""
    cb = facts.by_path.get(closure_path)
    if cb is None:
        return False
    from ..mir import self_field_path
    want = self_field_path(c_expr)
    env = None
    for bb, t in cb.calls_to(SET_POS):
        e = peel(cb.operand_expr(t["args"][1]), through_try=False)
        if e.k == "bin" and e.op == "Div":
            a = peel(e.a, through_try=False)
            d = peel(e.b, through_try=False)
            if a.k == "call" and a.q == "stream::Tag::pos":
                # the divisor is an upvar: find the captured operand in the parent
                if d.k == "field" and d.owner and d.owner.startswith("closure:"):
                    for blk in body.blocks:
                        for st in blk["stmts"]:
                            if st["k"] == "assign" and st["rv"]["k"] == "agg" and st["rv"].get("closure") == closure_path:
                                ops = st["rv"]["ops"]
                                if d.idx < len(ops):
                                    cap = self_field_path(body.operand_expr(ops[d.idx]))
                                    if cap and want and cap == want:
                                        return True
                c1, c2 = peel(d, through_try=False), peel(c_expr, through_try=False)
                if c1.k == "const" and c2.k == "const" and c1.v == c2.v:
                    return True
    return False


def _helper_rewrites_by(facts, body, bb, t, c_expr, depth=0):
    """the call at bb goes to a local function that divides every tag position by one of its parameters, and the actual
    argument for that parameter is c"""
    if depth > 2:
        return False
    for q in Body.callee_qs(t):
        for hb in facts.by_q.get(q, []):
            if hb.kind == "closure":
                continue
            for sb, st in hb.calls_to(SET_POS):
                e = peel(hb.operand_expr(st["args"][1]), through_try=False)
                if not (e.k == "bin" and e.op == "Div"):
                    continue
                a = peel(e.a, through_try=False)
                d = peel(e.b, through_try=False)
                if a.k == "call" and a.q == "stream::Tag::pos" and d.k == "param" and 1 <= d.idx <= len(t["args"]):
                    actual = body.operand_expr(t["args"][d.idx - 1])
                    if same_expr(actual, c_expr):
                        return True
            # the helper may itself use for_each/map with a closure capturing its parameter
            for fb, ft in hb.calls():
                if ft["f"].get("name") in ("for_each", "map", "retain_mut"):
                    for x in walk(hb.operand_expr(ft["args"][-1])):
                        if x.k == "agg" and x.ak == "closure":
                            cb = facts.by_path.get(x.q)
                            if cb is None:
                                continue
                            for sb, st in cb.calls_to(SET_POS):
                                e = peel(cb.operand_expr(st["args"][1]), through_try=False)
                                if e.k == "bin" and e.op == "Div":
                                    d = peel(e.b, through_try=False)
                                    if d.k == "field" and d.owner and d.owner.startswith("closure:"):
                                        for blk in hb.blocks:
                                            for s2 in blk["stmts"]:
                                                if s2["k"] == "assign" and s2["rv"]["k"] == "agg" and s2["rv"].get("closure") == x.q:
                                                    ops = s2["rv"]["ops"]
                                                    if d.idx < len(ops):
                                                        cap = peel(hb.operand_expr(ops[d.idx]), through_try=False)
                                                        while cap is not None and cap.k in ("ref", "deref"):
                                                            cap = cap.a
                                                        if cap is not None and cap.k == "param" and 1 <= cap.idx <= len(t["args"]) and \
                                                                same_expr(body.operand_expr(t["args"][cap.idx - 1]), c_expr):
                                                            return True
    return False


def rule_r3(facts, col):
    """rate changers re-base forwarded tag positions: where a hand-written work() commits produce(a / c, tags) for
    consume(a) with a non-empty tag list, the list has had every position divided by c (or c == 1 on that path)"""
    for body in facts.impl_bodies(BLOCK_TRAIT, "work"):
        if body.from_derive:
            continue
        cons = [(bb, t) for bb, t in body.calls_to(effects.CONSUME)]
        prods = [(bb, t) for bb, t in body.calls_to(effects.PRODUCE)]
        for cb, ct in cons:
            a = body.operand_expr(ct["args"][1])
            for pb, pt in prods:
                b = peel(body.operand_expr(pt["args"][1]), through_try=False)
                if not (b.k == "bin" and b.op == "Div" and same_expr(b.a, a)):
                    continue
                te = peel(body.operand_expr(pt["args"][2]))
                if te.k in ("const",) or (te.k == "agg" and te.ak == "array" and not te.args) or (te.k == "cast" and peel(te.a).k == "agg"):
                    continue   # no tags forwarded
                key = "%s:produce(a/c, tags)" % body.q
                c = b.b
                # every path to this commit passes an edge establishing c == 1, or a call that divides the positions of the
                # list by c (a for_each/map closure, or a local helper taking the list and c)
                one_edges = set()
                for edge, f in edge_facts(body):
                    if f[0] == "Eq" and ((same_expr(f[1], c) and c08._is_const(f[2], 1)) or (same_expr(f[2], c) and c08._is_const(f[1], 1))):
                        one_edges.add(edge)
                    if f[0] == "IntEq" and f[2] == 1 and same_expr(f[1], c):
                        one_edges.add(edge)
                rewrites = set()
                for fb, ft in body.calls():
                    if fb == pb:
                        continue
                    nm = ft["f"].get("name")
                    if nm in ("for_each", "map", "retain_mut"):
                        for x in walk(body.operand_expr(ft["args"][-1])):
                            if x.k == "agg" and x.ak == "closure" and _rewrites_by(facts, body, x.q, c):
                                rewrites.add(fb)
                    elif _helper_rewrites_by(facts, body, fb, ft, c):
                        rewrites.add(fb)
                # ... or an explicit loop over the list in this body: `for t in tags.iter_mut() { t.set_pos(t.pos() / c) }` - the
                # whole loop is the rewrite (with no tags it runs zero times, and there is nothing to re-base)
                for sb, st in body.calls_to(SET_POS):
                    e2 = peel(body.operand_expr(st["args"][1]), through_try=False)
                    if e2.k == "bin" and e2.op == "Div" and same_expr(e2.b, c):
                        a2 = peel(e2.a, through_try=False)
                        if a2.k == "call" and a2.q == "stream::Tag::pos":
                            comp = scc_of(body, sb)
                            if comp:
                                rewrites |= set(comp)
                r = body.reachable(0, avoid=rewrites, edge_filter=lambda a_, b_: (a_, b_) not in one_edges)
                if pb not in r or 0 in rewrites:
                    how = []
                    if one_edges:
                        how.append("ratio is 1")
                    if rewrites:
                        how.append("positions divided by c")
                    col.ok("C12.R3", key + ("@c==1" if not rewrites else ""), body.where(pb),
                           "on every path to the commit: " + " or ".join(how))
                else:
                    col.bad("C12.R3", key, body.where(pb),
                            "work() forwards its input tag list to produce(a / c, ..) on a path where the tag positions were not divided by "
                            "the same ratio c (and c == 1 is not established): tags land c times too far into the output (or are dropped "
                            "as beyond the commit)", {})


READ_BUF_Q = "stream::ReadStream::read_buf"


def _read_buf_calls_in(e):
    return [(x.bb, x) for x in walk(e) if x.k == "call" and x.q == READ_BUF_Q and getattr(x, "bb", None) is not None]


def rule_r4(facts, col):
    """forwarded tags belong to the window that is copied and consumed: the tag list handed to produce() comes from the
    read_buf() call whose window is consumed with it, and nothing is consumed from that stream between that read_buf() and
    the produce() (tag positions are relative to the window they were read with)"""
    from ..mir import self_field_path
    for body in facts.impl_bodies(BLOCK_TRAIT, "work"):
        if body.from_derive:
            continue
        cons = []
        for cb, ct in body.calls_to(effects.CONSUME):
            rb = _read_buf_calls_in(body.operand_expr(ct["args"][0]))
            if rb:
                fp = self_field_path(rb[0][1].args[0]) if rb[0][1].args else None
                cons.append((cb, rb[0][0], tuple(fp or ())))
        for pb, pt in body.calls_to(effects.PRODUCE):
            te = body.operand_expr(pt["args"][2])
            rbs = _read_buf_calls_in(te)
            if not rbs:
                continue    # no input tags forwarded (empty list or tags made here)
            rbb, rcall = rbs[0]
            fp = tuple(self_field_path(rcall.args[0]) or ()) if rcall.args else ()
            key = "%s:produce(.., tags of self.%s)" % (body.q, ".".join(fp))
            probs = []
            # every consume on that stream that is ordered with this produce (before or after it) and lies downstream of the
            # read_buf() that supplied the tags must consume THAT call's window: a second read_buf() in between means the
            # samples copied/consumed and the tag positions refer to different windows
            fwd = body.reachable(rbb)
            for cb, crb, cfp in cons:
                if cfp != fp or cb not in fwd:
                    continue
                if not (pb in body.reachable(cb) or cb in body.reachable(pb)):
                    continue
                if crb != rbb and rbb not in body.reachable(crb, avoid={pb}) :
                    probs.append("the tag list comes from the read_buf() at %s but the window consumed with this commit (%s) comes from "
                                 "another read_buf() call at %s: tag positions are relative to the window they were read with, so tags "
                                 "land on the wrong samples (or are lost) whenever the two windows differ" % (
                                     body.where(rbb), body.where(cb), body.where(crb)))
            if probs:
                col.bad("C12.R4", key, body.where(pb), "; ".join(sorted(set(probs))), {})
            else:
                col.ok("C12.R4", key, body.where(pb), "tags and consumed window come from the same read_buf() call, nothing consumed in between")



TAG_REMOVERS = {"dedup", "dedup_by", "dedup_by_key", "retain", "retain_mut", "truncate", "drain", "clear", "pop", "remove", "swap_remove",
                "split_off", "sort_unstable", "sort_unstable_by", "sort_unstable_by_key"}


def _r6_alts(facts, body, tp, tuple_ret, depth=0):
    """[(block, alternative expr, verdict, text)] for the tag collection `body` returns; verdict in ok / bad / silent"""
    out = []
    for rbb, si, e in assigns_to_return(body):
        pe = peel(e, through_try=False)
        if tuple_ret:
            if pe is None or pe.k != "agg" or len(pe.args or []) < 2:
                continue
            tv = peel(pe.args[-1], through_try=False)
        else:
            tv = pe
        alts = tv.alts if (tv is not None and tv.k == "multi" and tv.alts) else [tv]
        for a in alts:
            if a is None:
                continue
            pa = peel(a, through_try=False)
            # handed to a function of the crate that builds the list (`self.tags_for_sample(tags, ..)`): judged there
            if pa is not None and pa.k == "call" and depth < 2 and pa.bb is not None and len(facts.by_q.get(pa.q or "", [])) == 1:
                hb = facts.by_q[pa.q][0]
                js = [k for k, x in enumerate(pa.args or []) if any(y.k == "param" and y.idx == tp for y in walk(x))]
                if len(js) == 1 and js[0] + 1 <= hb.argc and "Tag" in hb.locals[js[0] + 1]["ty"] and "Tag" in (hb.locals[0]["ty"] if hb.locals else ""):
                    sub = _r6_alts(facts, hb, js[0] + 1, False, depth + 1)
                    if sub:
                        out += sub
                        continue
            if any(x.k == "param" and x.idx == tp for x in walk(a)):
                out.append((body, rbb, a, "ok", "the returned tags are built from the `tags` parameter"))
                continue
            fresh = [x for x in walk(a) if (x.k == "call" and ((x.q or "").split("::")[-1] in (
                "new", "with_capacity", "into_vec", "from_elem", "from", "default", "new_uninit", "box_assume_init_into_vec_unsafe")))
                or (x.k == "agg" and x.ak in ("array",))]
            flows = False
            for bb, t in body.calls():
                if len(t["args"]) >= 2 and (t.get("argtys") or [""])[0].startswith("&mut") \
                        and any(x.k == "param" and x.idx == tp for a_ in t["args"][1:] for x in walk(body.operand_expr(a_))):
                    flows = True
            if fresh and not flows:
                out.append((body, rbb, a, "bad", show(a)[:80]))
            else:
                out.append((body, rbb, a, "silent", "origin of the returned tags not visible: not decided"))
    return out


def rule_r6(facts, col, rule_id="C12.R6"):
    """a per-sample hook hands on the tags it was handed: in every `process_sync_tags(&mut self, sample, tags: &[Tag], ..) ->
    (sample, tags)` (the generated work() of a `sync_tag` block emits exactly the tags the hook returns), each alternative of the
    returned tag collection is built from the `tags` parameter of the first input - borrowed as it is, or copied (`to_vec`,
    `iter().cloned()`, `extend_from_slice(tags)`) and added to; where the hook hands the parameter to a function of the crate
    that builds the list, that function's return alternatives are judged the same way (two levels).  An alternative built from
    fresh values only (`vec![new_tag]`, `Vec::new()`) replaces the sample's tags instead of adding to them: every input tag that
    sits on such a sample is lost.  Reported on affirmative evidence (a fresh collection the parameter never flows into)."""
    n = 0
    for body in facts.bodies:
        if body.name != "process_sync_tags" or body.kind == "closure":
            continue
        tparams = [i for i in range(1, body.argc + 1) if body.locals[i]["ty"].endswith("[stream::Tag]")]
        if not tparams:
            continue
        for j_, (b2, rbb, a, verdict, text) in enumerate(_r6_alts(facts, body, tparams[0], True)):
            n += 1
            key = "%s:ret#%d" % (body.q, j_)
            if verdict == "ok":
                col.ok(rule_id, key, b2.where(rbb), text)
            elif verdict == "bad":
                col.bad(rule_id, key, b2.where(rbb),
                        "process_sync_tags returns, on one of its paths, a tag collection built from fresh values only (%s): the generated "
                        "work() emits exactly what the hook returns, so every input tag on such a sample is dropped instead of carried "
                        "forward" % text, {})
            else:
                col.silent(rule_id, key, b2.where(rbb), text)
    return n


def rule_r5(facts, col, rule_id="C12.R5"):
    """forwarded tags are forwarded, all of them: where work() hands the tag list it received from read_buf() to produce(),
    nothing in between removes elements from that list (`dedup`, `retain`, `truncate`, `drain`, ..).  Re-basing positions in
    place is fine; dropping 'duplicates' is not - two equal tags on neighbouring samples are two tags, and after a decimating
    block divided their positions they compare equal."""
    n = 0
    for body in facts.impl_bodies(BLOCK_TRAIT, "work"):
        if body.from_derive:
            continue
        # locals holding the tag Vec of a read_buf() result
        tagvecs = set()
        for l, loc in enumerate(body.locals):
            if loc["ty"].replace(" ", "") in ("std::vec::Vec<stream::Tag>",):
                for x in walk(body.local_expr(l)):
                    if x.k == "call" and x.q == "stream::ReadStream::read_buf":
                        tagvecs.add(l)
                        break
        if not tagvecs:
            continue
        forwarded = False
        for bb, t in body.calls_to(effects.PRODUCE):
            if len(t["args"]) >= 3:
                for x in walk(body.operand_expr(t["args"][2])):
                    if x.k in ("local", "multi") and x.local in tagvecs:
                        forwarded = True
                te = body.operand_expr(t["args"][2])
                if any(x.k == "call" and x.q == "stream::ReadStream::read_buf" for x in walk(te)):
                    forwarded = True
        if not forwarded:
            continue
        n += 1
        key = "%s:tags-kept" % body.q
        hit = None
        for bb, t in body.calls():
            if t["f"].get("name") in TAG_REMOVERS and t["args"] and (t.get("argtys") or [""])[0].replace(" ", "").startswith("&mutstd::vec::Vec<stream::Tag>"):
                if any(x.k == "call" and x.q == "stream::ReadStream::read_buf" for x in walk(body.operand_expr(t["args"][0]))):
                    hit = (bb, t["f"].get("name"))
        if hit:
            col.bad(rule_id, key, body.where(hit[0]),
                    "the tag list received with the read window is passed through `%s()` before it is handed to produce(): tags are "
                    "removed on the way (equal tags on neighbouring samples are still separate tags) - each input tag must come out exactly "
                    "once" % hit[1], {})
        else:
            col.ok(rule_id, key, body.where(), "no element-removing call on the forwarded tag list")
    return n


# a body that raises an alarm as compiled is judged again on its work view (effects.view_fallback)
rule_r3 = effects.view_fallback(rule_r3)
rule_r4 = effects.view_fallback(rule_r4)

def run(ctx):
    facts = ctx.facts("default")
    fam = ctx.facts("family")
    sfacts = c02.stream_view(facts)      # the ring's entry points with their private helpers substituted in (no-op on today's tree)
    c02.rule_r2(sfacts, ctx, rule_id="C12.R1")
    c02.rule_r4(sfacts, ctx, rule_id="C12.R1b")
    # the remaining stream-side tag rules of C02: a stream that loses, duplicates or misplaces tags breaks every forwarder
    c02.rule_r5(sfacts, ctx, rule_id="C12.S5")
    c02.rule_r6(sfacts, ctx, rule_id="C12.S6")
    c02.rule_r7(sfacts, ctx, rule_id="C12.S7")
    c02.rule_r8(sfacts, ctx, rule_id="C12.S8")
    c02.rule_r9(sfacts, ctx, rule_id="C12.S9")
    c02.rule_r12(sfacts, ctx, rule_id="C12.S10")     # positions off by 2^64 mod capacity after the wrap: every forwarder loses those tags
    ctx.floor("C12.S10", 3, "same floor as C02.R12")
    for rid, n in (("C12.S5", 1), ("C12.S6", 2), ("C12.S7", 1), ("C12.S8", 1), ("C12.S9", 1)):
        ctx.floor(rid, n, "same floor as C02.R%s" % rid[-1])
    rule_r6(facts, ctx)
    ctx.floor("C12.R6", 2, "return alternatives of the process_sync_tags hooks (BurstTagger x2, CorrelateAccessCode x1 today)")
    rule_r5(facts, ctx)
    ctx.floor("C12.R5", 3, "hand-written blocks that forward the tag list of their read window (FirFilter, Delay, Skip, ..)")
    c19.rule_work(fam, ctx, only={"C12.R2"})
    c19.rule_work(facts, ctx, only={"C12.R2"})
    if ctx.tier == "thorough" and ctx.override is None:
        sfx = ctx.suffix
        ctx.suffix = "@big"
        c19.rule_work(ctx.facts("family_big"), ctx, only={"C12.R2"})
        ctx.suffix = sfx
        ctx.explain("THOROUGH: additionally the big generated family (arities up to 5 x 5, field-order variants).")
    rule_r3(facts, ctx)
    rule_r4(facts, ctx)
    ctx.floor("C12.R4", 4, "hand-written tag forwarders: Skip, Delay, FirFilter, Hilbert (+ others found)")
    ctx.floor("C12.R3", 1, "FirFilter commit(s) with forwarded tags (2 sites today; 1 when the two paths share the commit)")
    ctx.floor("C12.R1", 1, "tag insertion in the commit body")
    ctx.floor("C12.R2", 54 * 3, "3 tag-path obligations x (36 family + 18 in-crate sync blocks)")
    ctx.explain("C12 (partial): (R1) the stream stores only tags with pos < n, so every pass-through block that hands its read-window "
                "tag list to produce(n, ..) forwards the consumed prefix once and sees the rest again with its next window; consuming "
                "zero samples removes no tags (R1b). (R2) on the generated sync path (every in-crate user + generated family): input tags "
                "are selected by t.pos() == loop index, every re-emitted tag is created at that same index, and every produce() receives "
                "the collected tags. The index mapping of hand-written blocks (FFT filter, delay arithmetic, FIR decimation) is NOT decided.")
