"""C05 — multithreaded runner: shape of the per-block thread loop and of thread management."""
from ..common import *
from ..mir import peel, walk, show
from ..runners import *
from . import c07, c04


def mt_sites(facts):
    """work() call sites that run on a spawned thread (the per-block loop): in the closure passed to spawn or in a
    helper function it calls."""
    ts = thread_side_paths(facts)
    out = []
    for body in runner_bodies(facts):
        if body.path not in ts:
            continue
        for ws in work_sites(facts, body):
            out.append(ws)
    return out


def rule_r1(facts, col, sites=None):
    for ws in (sites if sites is not None else mt_sites(facts)):
        body = ws.body
        base = body.q
        if not ws.complete():
            col.bad("C05.R1", base + ":shape", body.where(ws.wbb), "work() result is not matched on Ok/Err and on the BlockRet variant", {})
            continue
        comp = scc_of(body, ws.wbb)
        if comp is None:
            col.bad("C05.R1", base + ":loop", body.where(ws.wbb), "work() is not called in a loop", {})
            continue
        polls = cancel_polls(body)
        cancel_edges = {(s, t) for (_, s, t) in polls}
        outside = lambda blocks: {b for b in blocks if b not in comp and body.term(b)["k"] != "unreachable"}
        arms = ws.arms
        # no wildcard arm: every variant has its own target and the otherwise edge is unreachable
        other = arms.get("_otherwise")
        if other is not None and body.term(other)["k"] != "unreachable":
            col.bad("C05.R1", base + ":wildcard", body.where(ws.ret_switch), "match on BlockRet has a wildcard arm", {})
        else:
            col.ok("C05.R1", base + ":wildcard", body.where(ws.ret_switch), "match on BlockRet is exhaustive by variant")
        # (a) Again / Pending: no exit before the next work() call (cancel poll excepted)
        for v in ("Again", "Pending"):
            tgt = arms.get(v)
            key = "%s:a:%s" % (base, v)
            if tgt is None:
                col.bad("C05.R1", key, body.where(ws.ret_switch), "no arm for BlockRet::%s" % v, {})
                continue
            r, _ = flag_search(body, [tgt], stop={ws.wbb}, cut_edges=cancel_edges)
            if outside(r):
                col.bad("C05.R1", key, body.where(tgt),
                        "after BlockRet::%s the block thread can leave its loop without calling work() again: the block "
                        "is dropped with work outstanding (data loss / premature EOF downstream)" % v,
                        {"exit_blocks": sorted(outside(r))[:10]})
            elif ws.wbb not in r:
                col.bad("C05.R1", key, body.where(tgt), "after BlockRet::%s work() is never called again" % v, {})
            else:
                col.ok("C05.R1", key, body.where(tgt), "loops back to work(); only the cancel poll can leave")
        # (d) EOF: work() not reachable
        tgt = arms.get("EOF")
        key = "%s:d:EOF" % base
        if tgt is None:
            col.bad("C05.R1", key, body.where(ws.ret_switch), "no arm for BlockRet::EOF", {})
        else:
            r, _ = flag_search(body, [tgt])
            if ws.wbb in r:
                col.bad("C05.R1", key, body.where(tgt), "after BlockRet::EOF the runner calls work() again (verdict ignored)", {})
            else:
                col.ok("C05.R1", key, body.where(tgt), "EOF leaves the loop")
        # (b) wait()=true and (c) eof()=true: work() not reachable; (f) wait is consulted on every way back
        for v, need_wait in (("WaitForStream", True), ("WaitForFunc", False)):
            tgt = arms.get(v)
            key0 = "%s:%s" % (base, v)
            if tgt is None:
                col.bad("C05.R1", key0, body.where(ws.ret_switch), "no arm for BlockRet::%s" % v, {})
                continue
            arm_blocks = body.reachable(tgt, avoid={ws.wbb})
            waits = [b for b in call_blocks(body, WAITQ) if b in arm_blocks]
            eofs = [b for b in call_blocks(body, EOFQ) if b in arm_blocks]
            if need_wait:
                key = key0 + ":f:wait"
                r = reach_avoiding(body, tgt, set(waits))
                if ws.wbb in r or not waits:
                    col.bad("C05.R1", key, body.where(tgt),
                            "a path from the WaitForStream arm back to work() does not wait on the reported stream: "
                            "the thread spins, and a vanished peer is never noticed", {})
                else:
                    col.ok("C05.R1", key, body.where(tgt), "stream.wait(need) on every way back to work()")
                for wb in waits:
                    key = key0 + ":b:wait_true"
                    r, _ = flag_search(body, [wb], call_results={wb: True})
                    if ws.wbb in r:
                        col.bad("C05.R1", key, body.where(wb),
                                "stream.wait() returned true (peer gone, request can never be satisfied) but work() can be "
                                "called again: the verdict is ignored and the thread never ends", {})
                    else:
                        col.ok("C05.R1", key, body.where(wb), "wait()==true leaves the loop")
            if not need_wait:
                # the function the block asked to be run IS run on every way back to work()
                fcalls = [b for b, t in body.calls() if b in arm_blocks and t["f"].get("name") in ("call", "call_mut", "call_once")
                          and "ops::Fn" in (t["f"].get("q") or "")]
                key = key0 + ":f:call"
                r = reach_avoiding(body, tgt, set(fcalls))
                if ws.wbb in r or not fcalls:
                    col.bad("C05.R1", key, body.where(tgt),
                            "a path from the WaitForFunc arm back to work() does not run the function the block handed over: the block "
                            "asked the runner to block in that function; without it the thread spins (and the block never sees the event "
                            "the function waits for)", {})
                else:
                    col.ok("C05.R1", key, body.where(tgt), "the wait function is called on every way back to work()")
            key = key0 + ":g:eof"
            r = reach_avoiding(body, tgt, set(eofs))
            if ws.wbb in r or not eofs:
                col.bad("C05.R1", key, body.where(tgt),
                        "a path from the %s arm back to work() does not consult the block's eof()" % v, {})
            else:
                col.ok("C05.R1", key, body.where(tgt), "block eof() consulted on every way back to work()")
            for eb in eofs:
                key = key0 + ":c:eof_true"
                r, _ = flag_search(body, [eb], call_results={eb: True})
                if ws.wbb in r:
                    col.bad("C05.R1", key, body.where(eb),
                            "block.eof() returned true but work() can be called again (thread never ends)", {})
                else:
                    col.ok("C05.R1", key, body.where(eb), "eof()==true leaves the loop")
        # (e) no unexplained exit: with cancel edges cut, Err/EOF arms removed and wait/eof results false,
        #     nothing outside the loop is reachable from work()
        allw = call_blocks(body, WAITQ) + call_blocks(body, EOFQ)
        avoid = {ws.err_edge[1]}
        if arms.get("EOF") is not None:
            avoid.add(arms["EOF"])
        r, _ = flag_search(body, [ws.wbb], cut_edges=cancel_edges, avoid=avoid, call_results={b: False for b in allw})
        key = base + ":e:other_exits"
        if outside(r):
            col.bad("C05.R1", key, body.where(sorted(outside(r))[0]),
                    "the block loop has an exit that is not one of {cancelled, work() error, EOF verdict, wait()==true, "
                    "eof()==true}", {"exit_blocks": sorted(outside(r))[:10]})
        else:
            col.ok("C05.R1", key, body.where(ws.wbb), "all loop exits are explained")


def rule_r2(facts, col):
    """every block gets a thread, or the run is cancelled"""
    SPAWN = {"std::thread::Builder::spawn", "std::thread::spawn"}
    for body in runner_bodies(facts):
        if body.kind == "closure":
            continue
        for sbb, t in body.calls_to(SPAWN):
            key = "%s:spawn" % body.q
            comp = scc_of(body, sbb)
            if comp is None:
                col.silent("C05.R2", key, body.where(sbb), "spawn not in a loop")
                continue
            # allowed exit 1: the None edge of Vec::pop / iterator next on the block list
            allowed = set()
            for u in comp:
                tu = body.term(u)
                if tu["k"] != "switch":
                    continue
                e = switch_discr_expr(body, u)
                if e.k != "discr":
                    continue
                x = peel(e.a, through_try=False)
                if x.k == "call" and (x.q in ("std::vec::Vec::pop", "std::collections::VecDeque::pop_front") or x.q == "std::iter::Iterator::next"):
                    nt = variant_target(body, u, 0, 2)
                    if nt is not None:
                        allowed.add((u, nt))
            cancels = set(call_blocks(body, CANCEL))
            r = body.reachable(sbb, avoid=cancels, edge_filter=lambda a, b: (a, b) not in allowed)
            out = {b for b in r if b not in comp and body.term(b)["k"] == "return"}
            if out:
                col.bad("C05.R2", key, body.where(sbb),
                        "the spawn loop can be left with blocks not started and without cancelling the run: started "
                        "threads wait forever for the missing neighbours", {"exit_blocks": sorted(out)[:10]})
            else:
                col.ok("C05.R2", key, body.where(sbb), "spawn loop ends on an empty block list, or cancels before leaving")


def rule_r7(facts, col):
    """a block that has finished is dropped by its own thread: the closure handed to spawn does not hand the block back in its
    result (`Ok((b, stats))`), because dropping the block is what closes its stream ends - held in the JoinHandle until the
    runner joins that thread, an upstream block's streams stay open while the runner is blocked joining a downstream one that
    waits for exactly that to happen (blocks added sink-first never finish)"""
    from ..runners import thread_side_paths, SPAWN_QS
    n = 0
    for b in facts.bodies:
        for bb, t in b.calls_to(SPAWN_QS):
            for a in t["args"]:
                for x in walk(b.operand_expr(a)):
                    if x.k == "agg" and x.ak == "closure" and x.q:
                        cb = facts.by_path.get(x.q)
                        if cb is None:
                            continue
                        has_work = any(True for _ in cb.calls_to(WORK))
                        if not has_work:
                            # the loop may live in a helper the closure calls (`run_block(b, token)`)
                            for _, t2 in cb.calls():
                                for q2 in Body.callee_qs(t2):
                                    for hb in facts.by_q.get(q2, []):
                                        if hb.kind != "closure" and any(True for _ in hb.calls_to(WORK)):
                                            has_work = True
                        if not has_work:
                            continue
                        n += 1
                        key = "%s:thread-result" % cb.q
                        rty = cb.locals[0]["ty"]
                        if "dyn block::Block" in rty or "Box<dyn" in rty and "Block" in rty:
                            col.bad("C05.R7", key, cb.where(),
                                    "the block thread returns its block to the runner (%s): the block - and with it its stream ends - stays "
                                    "alive until run() joins this thread, so peers that wait for those streams to close never finish when "
                                    "they are joined first (add order decides whether run() returns)" % rty[:80], {})
                        else:
                            col.ok("C05.R7", key, cb.where(), "the thread's result does not carry the block: it is dropped when the thread ends")
    return n


def run(ctx):
    facts = ctx.facts("default")
    sites = mt_sites(facts)
    ctx.anchor("C05", len(sites) >= 1, "per-block thread loop (spawn closure or its helper) calling dyn Block::work()")
    rule_r1(facts, ctx, sites)
    rule_r2(facts, ctx)
    c07.rule_r4(facts, ctx)   # threads joined (C05.R3)
    c04.rule_r3(facts, ctx)   # only timed waits (C05.R5)
    from . import c09
    c09.rule_r6(facts, ctx, rule_id="C05.R4")   # no retirement with consumed-but-uncommitted input
    # a misdirected wait is what hangs THIS runner: the thread waits on a stream that already holds the amount, the wait
    # returns at once, eof() (all inputs ended and drained) is false, and the loop never ends (seed s8-c05)
    from . import c19, c08
    c08.rule_r5(facts, c19._Retag(ctx, "C08.R5", "C05.R9"))      # a sample that moved the block's phase is counted as consumed (seed s10-c05)
    ctx.floor("C05.R9", 1, "counted consumes (same rule as C08.R5)")
    c09.rule_r3(facts, c19._Retag(ctx, "C09.R3", "C05.R8"))
    ctx.floor("C05.R8", 40, "WaitForStream return sites with a plain short-window controlling test (same rule as C09.R3)")
    from . import c03
    c03.rule_r12(facts, ctx, rule_id="C05.R6")   # a second live window on one stream end fails depending on the peer's timing
    ctx.floor("C05.R6", 80, "read_buf()/write_buf() requests of the crate's bodies (same rule as C03.R12)")
    rule_r7(facts, ctx)
    ctx.floor("C05.R7", 1, "the per-block thread closure of MTGraph::run")
    ctx.floor("C05.R4", 25, "WaitForStream-on-output verdicts of blocks that consume")
    ctx.floor("C05.R1", 10, "loop-exit obligations of the MTGraph thread closure")
    ctx.floor("C05.R2", 1, "spawn loop in MTGraph::run")
    ctx.explain("C05: classifies every way out of the per-block thread loop around dyn Block::work() by flag-sensitive "
                "path search on MIR: after Again/Pending only the cancel poll can leave before the next work(); EOF, "
                "wait()==true and eof()==true can never be followed by work(); WaitForStream always waits and consults "
                "eof(); no other exits exist; the spawn loop ends only on an empty list or after cancel(); all threads "
                "are joined; waits are timed. Decides the loop shape, not schedule-independence of results.")
    ctx.assume("blocks honour their verdict contract (C09); stream verdicts are sound (C04)")
