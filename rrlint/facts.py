"""Fact extraction orchestration: run rrfacts (E1) over /repo's *current working tree* (and the
harness crates), cache by content hash, load as mir.Facts."""
import fcntl
import glob
import hashlib
import os
import shutil
import subprocess
import sys
import time

from . import mir

VERIF = os.path.dirname(os.path.dirname(os.path.abspath(__file__)))
REPO = os.environ.get("RR_REPO", "/repo")
CACHE = os.path.join(VERIF, ".cache")
DRIVER = os.path.join(VERIF, "rrfacts", "target", "release", "rrfacts")

# name -> (cargo dir, crate names to dump, cargo args, extra RUSTFLAGS, tracked source roots)
CONFIGS = {
    "default": dict(dir=REPO, crates="rustradio", args=["--lib"], rustflags=""),
    "simd": dict(dir=REPO, crates="rustradio", args=["--lib", "--features", "simd"], rustflags=""),
    "avx": dict(dir=REPO, crates="rustradio", args=["--lib"], rustflags="-Ctarget-feature=+avx,+sse3"),
    "fftw": dict(dir=REPO, crates="rustradio", args=["--lib", "--features", "fftw"], rustflags=""),
    "fastmath": dict(dir=REPO, crates="rustradio", args=["--lib", "--features", "fast-math"], rustflags=""),
    "rtlsdr": dict(dir=REPO, crates="rustradio", args=["--lib", "--features", "rtlsdr"], rustflags=""),
    "family": dict(dir=os.path.join(VERIF, "derive_family"), crates="derive_family", args=["--lib"], rustflags="",
                   harness=True),
    "family_big": dict(dir=os.path.join(VERIF, "derive_family_big"), crates="derive_family_big", args=["--lib"], rustflags="",
                       harness=True),
    "positive": dict(dir=os.path.join(VERIF, "positive"), crates="positive", args=["--lib"], rustflags="",
                     harness=True),
}

REPO_TRACKED = ["src", "rustradio_macros", "Cargo.toml", "Cargo.lock", ".cargo", "build.rs"]


def _hash_tree(root, rels):
    h = hashlib.sha256()
    for rel in rels:
        p = os.path.join(root, rel)
        if os.path.isfile(p):
            h.update(rel.encode())
            h.update(hashlib.sha256(open(p, "rb").read()).digest())
        elif os.path.isdir(p):
            for dp, dn, fn in sorted(os.walk(p)):
                dn[:] = sorted(d for d in dn if d not in ("target", ".git"))
                for f in sorted(fn):
                    fp = os.path.join(dp, f)
                    h.update(os.path.relpath(fp, root).encode())
                    try:
                        h.update(hashlib.sha256(open(fp, "rb").read()).digest())
                    except OSError:
                        pass
    return h.hexdigest()


def _driver_hash():
    if not os.path.exists(DRIVER):
        build_driver()
    return hashlib.sha256(open(DRIVER, "rb").read()).hexdigest()[:16]


def build_driver():
    env = dict(os.environ, CARGO_NET_OFFLINE="true")
    r = subprocess.run(["cargo", "build", "--release", "--offline"], cwd=os.path.join(VERIF, "rrfacts"),
                       env=env, stdout=subprocess.PIPE, stderr=subprocess.STDOUT, text=True)
    if r.returncode != 0 or not os.path.exists(DRIVER):
        sys.stderr.write(r.stdout)
        raise RuntimeError("cannot build rrfacts driver")


def tree_key(config):
    c = CONFIGS[config]
    h = hashlib.sha256()
    h.update(config.encode())
    h.update(_driver_hash().encode())
    h.update(_hash_tree(REPO, REPO_TRACKED).encode())
    if c.get("harness"):
        h.update(_hash_tree(c["dir"], ["src", "Cargo.toml.in"]).encode())
    h.update(repr(sorted(c["args"])).encode())
    h.update(c["rustflags"].encode())
    return h.hexdigest()[:24]


def _sysroot():
    return subprocess.run(["rustc", "+nightly", "--print", "sysroot"], stdout=subprocess.PIPE, text=True,
                          check=True).stdout.strip()


def extract(config, verbose=False):
    """Return path of the fact file for `config` on the current tree, extracting if needed."""
    c = CONFIGS[config]
    os.makedirs(os.path.join(CACHE, "facts", config), exist_ok=True)
    suffix = os.environ.get("RR_TARGET_SUFFIX", "")
    lockf = open(os.path.join(CACHE, "facts", config + suffix + ".lock"), "w")
    fcntl.flock(lockf, fcntl.LOCK_EX)
    try:
        key = tree_key(config)
        out = os.path.join(CACHE, "facts", config, key + ".json")
        if os.path.exists(out):
            return out
        t0 = time.time()
        cargo_dir = c["dir"]
        if c.get("harness"):
            # harness crates path-depend on the tree under test: instantiate them in a build dir with that
            # path filled in, and give them that tree's lock file
            cargo_dir = os.path.join(CACHE, "harness-" + config + suffix)
            shutil.rmtree(cargo_dir, ignore_errors=True)
            shutil.copytree(os.path.join(c["dir"], "src"), os.path.join(cargo_dir, "src"))
            toml = open(os.path.join(c["dir"], "Cargo.toml.in")).read().replace("@REPO@", REPO)
            open(os.path.join(cargo_dir, "Cargo.toml"), "w").write(toml)
            shutil.copyfile(os.path.join(REPO, "Cargo.lock"), os.path.join(cargo_dir, "Cargo.lock"))
        target = os.path.join(CACHE, "target-" + config + suffix)
        os.makedirs(target, exist_ok=True)
        # cargo's freshness cache would skip the wrapper: drop the dumped crates' fingerprints
        # (cargo names artifacts by workspace-relative path and trusts mtimes, so a tree restored with old
        # mtimes - or another checkout of the same crate - would otherwise reuse stale artifacts, in
        # particular a stale proc-macro .so)
        for crate in c["crates"].split(",") + ["rustradio", "rustradio_macros"]:
            for fp in glob.glob(os.path.join(target, "debug", ".fingerprint", crate + "-*")):
                shutil.rmtree(fp, ignore_errors=True)
        tmpout = os.path.join(CACHE, "facts", config, "tmp-%d" % os.getpid())
        shutil.rmtree(tmpout, ignore_errors=True)
        os.makedirs(tmpout)
        env = dict(os.environ)
        env.update(
            CARGO_NET_OFFLINE="true",
            CARGO_INCREMENTAL="0",
            LD_LIBRARY_PATH=_sysroot() + "/lib",
            RUSTFLAGS=("-Zmir-opt-level=0 -Awarnings " + c["rustflags"]).strip(),
            RUSTC_WORKSPACE_WRAPPER=DRIVER,
            RRFACTS_OUT=tmpout,
            RRFACTS_CRATES=c["crates"],
            CARGO_TARGET_DIR=target,
        )
        env.pop("RUSTC_WRAPPER", None)
        cmd = ["cargo", "+nightly", "check", "--offline"] + c["args"]
        r = subprocess.run(cmd, cwd=cargo_dir, env=env, stdout=subprocess.PIPE, stderr=subprocess.STDOUT, text=True)
        files = glob.glob(os.path.join(tmpout, "*.json"))
        if r.returncode != 0 or not files:
            shutil.rmtree(tmpout, ignore_errors=True)
            raise ExtractionError(config, r.stdout[-6000:])
        # one lib crate per config
        files.sort()
        os.replace(files[0], out)
        shutil.rmtree(tmpout, ignore_errors=True)
        # keep the cache small: drop older fact files of this config
        def _mt(x):
            try:
                return os.path.getmtime(x)
            except OSError:
                return 0
        olds = sorted(glob.glob(os.path.join(CACHE, "facts", config, "*.json")), key=_mt)
        for o in olds[:-12]:
            if o != out and time.time() - _mt(o) > 900:
                try:
                    os.remove(o)
                except OSError:
                    pass
        if verbose:
            print("[facts] %s extracted in %.1fs -> %s" % (config, time.time() - t0, out))
        return out
    finally:
        fcntl.flock(lockf, fcntl.LOCK_UN)
        lockf.close()


class ExtractionError(Exception):
    def __init__(self, config, log):
        super().__init__("fact extraction failed for config %s" % config)
        self.config = config
        self.log = log


_loaded = {}


def load(config, verbose=False):
    path = extract(config, verbose)
    if path in _loaded:
        return _loaded[path]
    strip = "rustradio::" if CONFIGS[config].get("harness") else None
    f = mir.Facts(path, strip_prefix=strip)
    f.config = config
    _loaded[path] = f
    from . import effects
    effects.register_facts(f)
    import os as _os
    f.use_views = _os.environ.get("RR_WORK_VIEWS", "0") == "1"
    return f
